"""concrete family for ECDSA (C06 / C19): independent affine secp256k1 arithmetic and an independent RFC 6979
nonce (hash octets as given), compared with ecdsa_raw_sign / ecdsa_raw_recover on the quantifier's grid"""
from __future__ import annotations

import hashlib
import hmac

from families import family
from closed import zp_mul, _zp_add, SECP_P as P, SECP_N as N, SECP_GX, SECP_GY

G = (SECP_GX, SECP_GY)


def lift(x, odd):
    a = (x ** 3 + 7) % P
    y = pow(a, (P + 1) // 4, P)
    if y * y % P != a or y == 0:
        return None
    if (y % 2 == 1) != odd:
        y = P - y
    return (x, y)


def ref_recover(h, v, r, s):
    if v not in (27, 28) or r % N == 0 or s % N == 0:
        return "refuse"
    R = lift(r, v == 28)
    if R is None:
        return "refuse"
    z = int.from_bytes(h, "big")
    rinv = pow(r % N, -1, N)
    Q = _zp_add(zp_mul(R, s % N, P), zp_mul(G, (-z) % N, P), P)
    return zp_mul(Q, rinv, P) if Q is not None else None


def ref_k(h, priv):
    v = b"\x01" * 32
    k = b"\x00" * 32
    k = hmac.new(k, v + b"\x00" + priv + h, hashlib.sha256).digest()
    v = hmac.new(k, v, hashlib.sha256).digest()
    k = hmac.new(k, v + b"\x01" + priv + h, hashlib.sha256).digest()
    v = hmac.new(k, v, hashlib.sha256).digest()
    return int.from_bytes(hmac.new(k, v, hashlib.sha256).digest(), "big")


def verifies(h, r, s, Q):
    if not (1 <= r < N and 1 <= s < N) or Q is None:
        return False
    z = int.from_bytes(h, "big")
    w = pow(s, -1, N)
    X = _zp_add(zp_mul(G, z * w % N, P), zp_mul(Q, r * w % N, P), P)
    return X is not None and X[0] % N == r


@family("py_ecc.secp256k1.secp256k1.ecdsa_raw_", "py_ecc.secp256k1.secp256k1.deterministic_generate_k",
        "py_ecc.secp256k1.secp256k1.bytes_to_int")
class EcdsaFamily:
    def gen(self, fn, rng, hint):
        rb = lambda n: bytes(rng.randrange(256) for _ in range(n))
        keys = [1, 2, N - 2, N - 1, 5, rng.randrange(1, N), rng.randrange(1, N)]
        hashes = [b"\x00" * 32, b"\xff" * 32, (N - 1).to_bytes(32, "big"), N.to_bytes(32, "big"), (N + 1).to_bytes(32, "big"),
                  rb(32), rb(32), b"", rb(1), rb(31), rb(33), rb(64)]
        for d in keys:
            for h in hashes:
                yield dict(kind="sign", d=d, h=h.hex())
        # recovery grid
        xs = [x for x in (rng.randrange(1, N) for _ in range(40)) if lift(x, False)][:4]
        bad = [x for x in range(1, 50) if lift(x, False) is None][:2]
        for r in [0, 1, N - 1, N, N + 1, P - 1] + xs + bad:
            for s in [0, 1, (N - 1) // 2, (N + 1) // 2, N - 1, N, N + 1, rng.randrange(1, N)]:
                for v in (0, 1, 26, 27, 28, 29, 35, 36):
                    if v in (27, 28) or (r in xs[:1] and s == 1):
                        yield dict(kind="recover", v=v, r=r, s=s, h=rng.choice(hashes).hex())
        # every s >= 0 is in the quantifier: representatives s0 + k N beyond 256 bits, 2^256 itself, very wide scalars
        for r in xs[:2]:
            s0 = rng.randrange(1, N)
            for s in (s0 + N, s0 + 2 * N, 2 ** 256, 2 ** 256 + s0, s0 + (2 ** 64) * N, 2 ** 300 + 1, (2 ** 512) * 3 + s0):
                for v in (27, 28):
                    yield dict(kind="recover", v=v, r=r, s=s, h=rng.choice(hashes).hex())
        # small r below P - N (r + N is also a field element): must still be treated as x = r only
        small = [x for x in range(1, 400) if lift(x, False) is None and lift(x + N, False) is not None][:3]
        for r in small:
            for v in (27, 28):
                yield dict(kind="recover", v=v, r=r, s=1, h=rng.choice(hashes).hex())
        # both parities of one r in one process (history dependence), crafted z = -+ s k
        for _ in range(3):
            k = rng.randrange(1, N)
            R = zp_mul(G, k, P)
            s = rng.randrange(1, N)
            for z in ((-s * k) % N, (s * k) % N):
                yield dict(kind="recover", v=27 + R[1] % 2, r=R[0], s=s, h=z.to_bytes(32, "big").hex())
            yield dict(kind="recover_seq", r=R[0], s=s, h=rb(32).hex())

    def check(self, fn, inp):
        import py_ecc.secp256k1.secp256k1 as m
        k = inp["kind"]
        h = bytes.fromhex(inp["h"])
        if k == "sign":
            d = inp["d"]
            priv = d.to_bytes(32, "big")
            try:
                v, r, s = m.ecdsa_raw_sign(h, priv)
            except Exception as e:
                return dict(why="ecdsa_raw_sign raised", observed=f"{type(e).__name__}: {e}")
            if (v, r, s) != tuple(m.ecdsa_raw_sign(h, priv)):
                return dict(why="signing is not deterministic")
            kk = ref_k(h, priv)
            R = zp_mul(G, kk % N, P)
            if R is None or R[0] != r:
                return dict(why="r is not the x-coordinate of k.G for the RFC 6979 nonce k (hash bytes as given)", observed=r)
            Q = zp_mul(G, d, P)
            if v not in (27, 28) or not (1 <= r < N) or not (1 <= s <= N // 2):
                return dict(why="signature out of range (v in {27,28}, 1 <= r < N, 1 <= s <= N/2)", observed=[v, r, s])
            if not verifies(h, r, s, Q):
                return dict(why="signature does not satisfy the ECDSA verification equation for privtopub(d)", observed=[v, r, s])
            try:
                got = m.ecdsa_raw_recover(h, (v, r, s))
            except Exception as e:
                return dict(why="ecdsa_raw_recover refused an honest signature", observed=str(e))
            if tuple(got) != Q:
                return dict(why="ecdsa_raw_recover(sign(...)) is not privtopub(d)", observed=list(got), expected=list(Q))
            try:
                other = m.ecdsa_raw_recover(h, (55 - v, r, s))
                if tuple(other) == Q:
                    return dict(why="the other v value also recovers the signer's key")
            except ValueError:
                pass
            if tuple(m.privtopub(priv)) != Q:
                return dict(why="privtopub(d) != d.G")
        elif k in ("recover", "recover_seq"):
            calls = [(inp["v"], inp["r"], inp["s"])] if k == "recover" else \
                [(27, inp["r"], inp["s"]), (28, inp["r"], N - inp["s"]), (27, inp["r"], inp["s"]), (28, inp["r"], inp["s"])]
            for v, r, s in calls:
                want = ref_recover(h, v, r, s)
                try:
                    got = m.ecdsa_raw_recover(h, (v, r, s))
                    got = None if tuple(got) == (0, 0) else tuple(got)
                except ValueError:
                    got = "refuse"
                except Exception as e:
                    return dict(why="ecdsa_raw_recover raised something other than ValueError", observed=f"{type(e).__name__}: {e}")
                if got != want:
                    return dict(why="ecdsa_raw_recover differs from the algebraically determined key / refusal",
                                observed=str(got)[:160], expected=str(want)[:160], vrs=[v, r, s])
        return None
