"""concrete family for hash-to-curve (C10): the RFC 9380 straight-line simplified SWU + isogeny + cofactor clearing,
written independently over plain integers, compared with map_to_curve_G1/G2 and hash_to_G1/G2."""
from __future__ import annotations

import hashlib

from families import family
from codecmon import sqrt_fq, sqrt_fq2, f2mul, Q
from hashmon import rfc_xmd

R = 52435875175126190479447740508185965837690552500527637822603658699938581184513


class Fp:
    zero, one = 0, 1

    @staticmethod
    def add(a, b): return (a + b) % Q
    @staticmethod
    def sub(a, b): return (a - b) % Q
    @staticmethod
    def mul(a, b): return a * b % Q
    @staticmethod
    def inv0(a): return pow(a, Q - 2, Q)
    @staticmethod
    def sqrt(a): return sqrt_fq(a)
    @staticmethod
    def sgn0(a): return a % 2
    @staticmethod
    def neg(a): return (-a) % Q
    @staticmethod
    def iszero(a): return a % Q == 0


class Fp2:
    zero, one = (0, 0), (1, 0)

    @staticmethod
    def add(a, b): return ((a[0] + b[0]) % Q, (a[1] + b[1]) % Q)
    @staticmethod
    def sub(a, b): return ((a[0] - b[0]) % Q, (a[1] - b[1]) % Q)
    @staticmethod
    def mul(a, b): return f2mul(a, b)
    @staticmethod
    def inv0(a):
        n = (a[0] * a[0] + a[1] * a[1]) % Q
        ni = pow(n, Q - 2, Q)
        return (a[0] * ni % Q, (-a[1]) * ni % Q)
    @staticmethod
    def sqrt(a): return sqrt_fq2(a)
    @staticmethod
    def sgn0(a): return a[0] % 2 if a[0] != 0 else a[1] % 2
    @staticmethod
    def neg(a): return ((-a[0]) % Q, (-a[1]) % Q)
    @staticmethod
    def iszero(a): return a[0] % Q == 0 and a[1] % Q == 0


def sswu(F, A, B, Z, u):
    """RFC 9380 section 6.6.2, straight-line"""
    u2 = F.mul(u, u)
    zu2 = F.mul(Z, u2)
    tv1 = F.inv0(F.add(F.mul(zu2, zu2), zu2))
    x1 = F.mul(F.mul(F.neg(B), F.inv0(A)), F.add(F.one, tv1))
    if F.iszero(tv1):
        x1 = F.mul(B, F.inv0(F.mul(Z, A)))
    g = lambda x: F.add(F.add(F.mul(F.mul(x, x), x), F.mul(A, x)), B)
    gx1 = g(x1)
    x2 = F.mul(zu2, x1)
    y1 = F.sqrt(gx1)
    if y1 is not None:
        x, y = x1, y1
    else:
        x, y = x2, F.sqrt(g(x2))
        if y is None:
            raise ArithmeticError("neither gx1 nor gx2 is a square")
    if F.sgn0(u) != F.sgn0(y):
        y = F.neg(y)
    return x, y


def iso(F, tab, x, y):
    def ev(row):
        acc, p_ = F.zero, F.one
        for c in row:
            acc = F.add(acc, F.mul(c, p_))
            p_ = F.mul(p_, x)
        return acc
    xn, xd, yn, yd = [ev(r) for r in tab]
    if F.iszero(xd) or F.iszero(yd):
        return None
    return F.mul(xn, F.inv0(xd)), F.mul(y, F.mul(yn, F.inv0(yd)))


def consts():
    import py_ecc.optimized_bls12_381.constants as c
    i1 = lambda v: int(v.n)
    i2 = lambda v: tuple(int(k) for k in v.coeffs)
    g1 = dict(F=Fp, A=i1(c.ISO_11_A), B=i1(c.ISO_11_B), Z=i1(c.ISO_11_Z), tab=[[i1(k) for k in r] for r in c.ISO_11_MAP_COEFFICIENTS])
    g2 = dict(F=Fp2, A=i2(c.ISO_3_A), B=i2(c.ISO_3_B), Z=i2(c.ISO_3_Z), tab=[[i2(k) for k in r] for r in c.ISO_3_MAP_COEFFICIENTS])
    return g1, g2


def aff(rep):
    x, y, z = rep
    if z == z.__class__.zero():
        return None
    X, Y = x / z, y / z
    if hasattr(X, "coeffs"):
        return (tuple(int(c) for c in X.coeffs), tuple(int(c) for c in Y.coeffs))
    return (int(X.n), int(Y.n))


@family("py_ecc.optimized_bls12_381.optimized_swu.", "py_ecc.bls.hash_to_curve.map_to_curve", "py_ecc.bls.hash_to_curve.hash_to_G",
        "py_ecc.bls.hash_to_curve.clear_cofactor")
class H2CFamily:
    def gen(self, fn, rng, hint):
        g2 = "G2" in fn or "FQ2" in fn
        both = not ("G1" in fn or "G2" in fn or "FQ" in fn)
        if not g2 or both:
            s = sqrt_fq(pow(-11 % Q, Q - 2, Q))          # sqrt(-1/Z)
            us = [0, 1, Q - 1, (Q - 1) // 2, (Q + 1) // 2, s, Q - s, 2, 3] + [rng.randrange(Q) for _ in range(6)]
            for u in us:
                yield dict(kind="map1", u=u)
        if g2 or both:
            us = [(0, 0), (1, 0), (Q - 1, 0), (0, 1), (0, 3), (0, Q - 1), ((Q - 1) // 2, 0), ((Q + 1) // 2, 5), (7, 0), (0, 2)] + \
                 [(rng.randrange(Q), rng.randrange(Q)) for _ in range(6)] + [(0, rng.randrange(Q)), (rng.randrange(Q), 0)]
            for u in us:
                yield dict(kind="map2", u=list(u))
        rb = lambda n: bytes(rng.randrange(256) for _ in range(n))
        for which in ([1] if not g2 else [2]) if not both else [1, 2]:
            m, d = rb(7).hex(), rb(20).hex()
            yield dict(kind="hash", which=which, seq=[[m, d, "sha256"], [m, d, "sha512"], [m, d, "sha256"], [rb(0).hex(), rb(255).hex(), "sha3_256"]])

    def check(self, fn, inp):
        import py_ecc.bls.hash_to_curve as H
        from py_ecc.optimized_bls12_381 import FQ, FQ2, is_on_curve, b, b2, multiply, is_inf
        g1, g2 = consts()
        k = inp["kind"]
        if k in ("map1", "map2"):
            c = g1 if k == "map1" else g2
            u = inp["u"] if k == "map1" else tuple(inp["u"])
            x, y = sswu(c["F"], c["A"], c["B"], c["Z"], u)
            want = iso(c["F"], c["tab"], x, y)
            try:
                got = H.map_to_curve_G1(FQ(u)) if k == "map1" else H.map_to_curve_G2(FQ2(list(u)))
            except Exception as e:
                return dict(why="map_to_curve raised", observed=f"{type(e).__name__}: {e}", u=inp["u"])
            if not is_on_curve(got, b if k == "map1" else b2):
                return dict(why="map_to_curve result is not on the curve", u=inp["u"])
            A_ = aff(got)
            if A_ != want:
                return dict(why="map_to_curve differs from the RFC 9380 straight-line SSWU followed by the isogeny (incl. sgn0(y) = sgn0(u))",
                            observed=str(A_)[:200], expected=str(want)[:200], u=inp["u"])
            # also the SWU stage on its own: x/z, y/z on E' with the right sign
            import py_ecc.optimized_bls12_381.optimized_swu as S
            xs, ys, zs = (S.optimized_swu_G1(FQ(u)) if k == "map1" else S.optimized_swu_G2(FQ2(list(u))))
            e = aff((xs, ys, zs))
            if e != (x, y):
                return dict(why="optimized_swu differs from the straight-line simplified SWU map", observed=str(e)[:200], expected=str((x, y))[:200], u=inp["u"])
        elif k == "hash":
            which = inp["which"]
            c = g1 if which == 1 else g2
            F = c["F"]
            f = H.hash_to_G1 if which == 1 else H.hash_to_G2
            m_ = 1 if which == 1 else 2
            import py_ecc.optimized_bls12_381.constants as K_
            heff = K_.H_EFF_G1 if which == 1 else K_.H_EFF_G2
            from families import aff_add, aff_mul
            for mh, dh, hn in inp["seq"]:
                msg, dst = bytes.fromhex(mh), bytes.fromhex(dh)
                ub = rfc_xmd(msg, dst, 2 * m_ * 64, hn)
                us = []
                for i in range(2):
                    e = [int.from_bytes(ub[64 * (j + i * m_): 64 * (j + i * m_) + 64], "big") % Q for j in range(m_)]
                    us.append(e[0] if which == 1 else tuple(e))
                pts = []
                for u in us:
                    x, y = sswu(F, c["A"], c["B"], c["Z"], u)
                    X, Y = iso(F, c["tab"], x, y)
                    pts.append((FQ(X), FQ(Y)) if which == 1 else (FQ2(list(X)), FQ2(list(Y))))
                want = aff_mul(aff_add(pts[0], pts[1]), heff)
                got = f(msg, dst, getattr(hashlib, hn))
                if not is_on_curve(got, b if which == 1 else b2) or not is_inf(multiply(got, R)):
                    return dict(why="hash_to_curve result not on the curve / not in the prime-order subgroup")
                x_, y_, z_ = got
                G = None if z_ == z_.__class__.zero() else (x_ / z_, y_ / z_)
                ok = (G is None and want is None) or (G is not None and want is not None and G[0] == want[0] and G[1] == want[1])
                if not ok:
                    return dict(why=f"hash_to_G{which}(msg, DST, {hn}) differs from the RFC 9380 hash_to_curve point "
                                    f"(hash_to_field, SSWU, isogeny, cofactor clearing)", msg=mh, dst=dh, hash=hn)
        return None
