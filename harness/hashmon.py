"""concrete family for the hashing layer: independent transcriptions of RFC 5869, RFC 9380 section 5
and the BLS draft v4 KeyGen, compared with the real functions on the quantifier's parameter grid"""
from __future__ import annotations

import hashlib
import hmac
import math

from families import family

R_BLS = 52435875175126190479447740508185965837690552500527637822603658699938581184513
P_BLS = 0x1a0111ea397fe69a4b1ba7b6434bacd764774b84f38512bf6730d2a0f6b0f6241eabfffeb153ffffb9feffffffffaaab


def rfc_extract(salt, ikm):
    return hmac.new(salt, ikm, hashlib.sha256).digest()


def rfc_expand(prk, info, L):
    if L > 255 * 32:
        raise ValueError
    t, okm, i = b"", b"", 0
    while len(okm) < L:
        i += 1
        t = hmac.new(prk, t + info + bytes([i]), hashlib.sha256).digest()
        okm += t
    return okm[:L]


def rfc_xmd(msg, dst, L, hname):
    H = getattr(hashlib, hname)
    b, s = H().digest_size, H().block_size
    ell = -(-L // b)
    if ell > 255 or L > 65535 or len(dst) > 255:
        raise ValueError
    dstp = dst + bytes([len(dst)])
    b0 = H(b"\x00" * s + msg + L.to_bytes(2, "big") + b"\x00" + dstp).digest()
    bi = H(b0 + b"\x01" + dstp).digest()
    out = bi
    for i in range(2, ell + 1):
        bi = H(bytes(x ^ y for x, y in zip(b0, bi)) + bytes([i]) + dstp).digest()
        out += bi
    return out[:L]


def rfc_keygen(ikm, info):
    salt = b"BLS-SIG-KEYGEN-SALT-"
    sk = 0
    while sk == 0:
        salt = hashlib.sha256(salt).digest()
        prk = rfc_extract(salt, ikm + b"\x00")
        okm = rfc_expand(prk, info + (48).to_bytes(2, "big"), 48)
        sk = int.from_bytes(okm, "big") % R_BLS
    return sk


def _outcome(f, *a):
    try:
        return ("ret", f(*a))
    except Exception as e:
        return ("raise", type(e).__name__)


@family("py_ecc.bls.hash.", "py_ecc.bls.hash_to_curve.hash_to_field", "py_ecc.bls.ciphersuites.BaseG2Ciphersuite.KeyGen")
class HashFamily:
    def gen(self, fn, rng, hint):
        rb = lambda n: bytes(rng.randrange(256) for _ in range(n))
        name = fn.rsplit(".", 1)[1]
        if name in ("hkdf_extract", "hkdf_expand", "KeyGen", "i2osp", "os2ip", "sha256", "xor") or "hkdf" in name:
            for n in (0, 1, 31, 32, 33, 64, 300):
                s = rb(n)
                yield dict(kind="extract2", salt=s.hex(), ikm1=rb(5).hex(), ikm2=rb(7).hex())
            for L in (0, 1, 31, 32, 33, 64, 8159, 8160, 255 * 32 - 31):
                yield dict(kind="expand", prk=rb(32).hex(), info=rb(rng.choice([0, 1, 10, 300])).hex(), L=L)
            for n, m in ((0, 0), (1, 0), (32, 0), (32, 5), (128, 64), (31, 1), (32, 2)):
                yield dict(kind="keygen2", ikm=rb(n).hex(), info=rb(m).hex())
            yield dict(kind="keygen_mut", ikm=rb(32).hex(), info=rb(3).hex())
        if name in ("expand_message_xmd", "xor", "i2osp") or "xmd" in name:
            for h in ("sha256", "sha512", "sha384", "sha3_256", "blake2b", "sha1"):
                b = getattr(hashlib, h)().digest_size
                for L in (0, 1, 31, 32, 33, 64, b, b + 1, 2 * b - 1, 255 * b, 255 * b + 1, 254 * b + 1, 65535, 65536):
                    for dl in ((0, 1, 255, 256) if L in (32, 33, 255 * b) else (rng.choice([0, 16, 43, 254]),)):
                        yield dict(kind="xmd", h=h, msg=rb(rng.choice([0, 1, 55, 56, 64, 65, 200])).hex(), dst=rb(dl).hex(), L=L)
        if name in ("expand_message_xmd", "xor", "i2osp") or "xmd" in name:
            # long messages (the message length is unbounded: only the OUTPUT length is limited), blocks with leading zero bytes
            for n in (65535, 65536, 70001):
                yield dict(kind="xmd", h="sha256", msg=rb(n).hex(), dst=rb(20).hex(), L=96)
            for i in range(60):
                yield dict(kind="xmd", h=rng.choice(["sha256", "sha512", "sha1"]), msg=(b"message-%04d" % i).hex(), dst=rb(rng.choice([5, 43])).hex(),
                           L=rng.choice([96, 256, 700]))
        if "hash_to_field" in name:
            # both field variants with identical arguments in one process, in both orders (shared-cache history dependence)
            m_, d_ = rb(12).hex(), rb(17).hex()
            for order in ([True, False, True], [False, True, False]):
                yield dict(kind="htf_pair", msg=m_, dst=d_, count=2, h="sha256", order=order)
            for count in (0, 1, 2, 3, 4, 8):
                for h in ("sha256", "sha512"):
                    yield dict(kind="htf", fq2=name.endswith("FQ2"), count=count, h=h, msg=rb(rng.choice([0, 3, 70])).hex(),
                               dst=rb(rng.choice([1, 20, 255])).hex())
            # same message and tag, different hash functions in one process (history dependence)
            m, d = rb(9).hex(), rb(11).hex()
            yield dict(kind="htf_seq", fq2=name.endswith("FQ2"), msg=m, dst=d, hs=["sha256", "sha512", "sha256"])

    def check(self, fn, inp):
        import py_ecc.bls.hash as HM
        k = inp["kind"]
        bx = bytes.fromhex
        if k == "extract2":
            for ikm in (inp["ikm1"], inp["ikm2"], inp["ikm1"]):
                got = _outcome(HM.hkdf_extract, bx(inp["salt"]), bx(ikm))
                want = ("ret", rfc_extract(bx(inp["salt"]), bx(ikm)))
                if got != want:
                    return dict(why="hkdf_extract differs from RFC 5869 HKDF-Extract (repeated calls with one salt)",
                                observed=str(got)[:120], expected=want[1].hex())
        elif k == "expand":
            got = _outcome(HM.hkdf_expand, bx(inp["prk"]), bx(inp["info"]), inp["L"])
            want = _outcome(rfc_expand, bx(inp["prk"]), bx(inp["info"]), inp["L"])
            if got[0] == "ret":
                got = ("ret", bytes(got[1]))
            if got != want:
                return dict(why=f"hkdf_expand(L={inp['L']}) differs from RFC 5869 HKDF-Expand", observed=str(got)[:120], expected=str(want)[:120])
        elif k in ("keygen2", "keygen_mut"):
            from py_ecc.bls import G2Basic, G2ProofOfPossession
            ikm, info = bx(inp["ikm"]), bx(inp["info"])
            want = rfc_keygen(ikm, info)
            if k == "keygen_mut":
                a, b = bytearray(ikm), bytearray(info)
                got = _outcome(G2Basic.KeyGen, a, b)
                if bytes(a) != ikm or bytes(b) != info:
                    return dict(why="KeyGen mutated its (bytearray) arguments", observed=[bytes(a).hex(), bytes(b).hex()])
                if got != ("ret", want):
                    return dict(why="KeyGen differs from draft v4 KeyGen", observed=str(got)[:100], expected=want)
                return None
            for cls in (G2Basic, G2ProofOfPossession, G2Basic):
                got = _outcome(cls.KeyGen, ikm, info)
                if got != ("ret", want):
                    return dict(why="KeyGen differs from the BLS draft v4 KeyGen procedure (or is not deterministic)",
                                observed=str(got)[:100], expected=want)
                if not (1 <= want < R_BLS):
                    return dict(why="oracle")
        elif k == "xmd":
            H = getattr(hashlib, inp["h"])
            got = _outcome(HM.expand_message_xmd, bx(inp["msg"]), bx(inp["dst"]), inp["L"], H)
            want = _outcome(rfc_xmd, bx(inp["msg"]), bx(inp["dst"]), inp["L"], inp["h"])
            # the property asks for 'refuses by raising' without naming the exception type
            if (got[0], want[0]) == ("raise", "raise"):
                return None
            if got != want:
                return dict(why=f"expand_message_xmd({inp['h']}, L={inp['L']}, |DST|={len(bx(inp['dst']))}) differs from RFC 9380 5.3.1",
                            observed=(got[1].hex()[:64] + f"...[{len(got[1])} bytes]") if got[0] == "ret" else str(got),
                            expected=(want[1].hex()[:64] + f"...[{len(want[1])} bytes]") if want[0] == "ret" else str(want))
        elif k in ("htf", "htf_seq", "htf_pair"):
            import py_ecc.bls.hash_to_curve as H2
            if k == "htf_pair":
                runs = [(inp["h"], inp["count"], fq2) for fq2 in inp["order"]]
            elif k == "htf":
                runs = [(inp["h"], inp["count"], inp["fq2"])]
            else:
                runs = [(h, 2, inp["fq2"]) for h in inp["hs"]]
            for h, count, fq2 in runs:
                f = H2.hash_to_field_FQ2 if fq2 else H2.hash_to_field_FQ
                m = 2 if fq2 else 1
                H = getattr(hashlib, h)
                got = _outcome(f, bx(inp["msg"]), count, bx(inp["dst"]), H)
                try:
                    ub = rfc_xmd(bx(inp["msg"]), bx(inp["dst"]), count * m * 64, h)
                except ValueError:
                    if got[0] == "raise":
                        continue
                    return dict(why="hash_to_field returned although expand_message_xmd must refuse", observed=str(got)[:80])
                want = [[int.from_bytes(ub[64 * (j + i * m): 64 * (j + i * m) + 64], "big") % P_BLS for j in range(m)] for i in range(count)]
                if got[0] != "ret":
                    return dict(why="hash_to_field raised", observed=got[1])
                vals = [[int(c) for c in (e.coeffs if hasattr(e, "coeffs") else [e.n])] for e in got[1]]
                if vals != want:
                    return dict(why=f"hash_to_field(count={count}, {h}) differs from RFC 9380 section 5.2", observed=str(vals)[:200], expected=str(want)[:200])
        return None
