"""Concrete harness: runs the REAL py_ecc code under the repository's interpreter
(/venv/bin/python, py_ecc imported from the working tree) and evaluates the executable form of
the contracts on concrete inputs.  Used for

  refute  : after an obligation fails, look for a real input that violates the contract
  replay  : re-run a stored failing input
  monitor : bounded stand-ins (labelled bounded in the evidence, never counted as proved)
  eval    : closed-term facts evaluated on the real modules

Protocol: JSON on stdin, one JSON object on the last stdout line.
"""
from __future__ import annotations

import importlib
import json
import os
import random
import sys
import time
import traceback

sys.setrecursionlimit(100000)
HERE = os.path.dirname(os.path.abspath(__file__))
sys.path.insert(0, HERE)

def find_family(function):
    import families
    best = None
    for p, cls in families.FAMILIES.items():
        if function == p or function.startswith(p):
            if best is None or len(p) > len(best[0]):
                best = (p, cls)
    return best[1] if best else None


def resolve(qualname):
    parts = qualname.split(".")
    for k in range(len(parts), 0, -1):
        try:
            mod = importlib.import_module(".".join(parts[:k]))
        except ImportError:
            continue
        obj = mod
        try:
            for nm in parts[k:]:
                obj = getattr(obj, nm)
            return obj
        except AttributeError:
            continue
    raise ImportError(qualname)


def out(obj):
    print(json.dumps(obj, default=str))


# ---- generic purity probe (C20): module-level state before/after a call history, and the same call twice -----------
def _fp(v, depth, memo):
    if v is None or isinstance(v, (bool, int, str, bytes, float)):
        return repr(v) if not isinstance(v, int) or isinstance(v, bool) else v
    k = id(v)
    if k in memo:
        return memo[k]
    memo[k] = "<cycle>"
    r = None
    if depth > 6:
        r = "<deep>"
    elif isinstance(v, (tuple, list)):
        r = (type(v).__name__, tuple(_fp(x, depth + 1, memo) for x in v[:5000]), len(v))
    elif isinstance(v, (set, frozenset)):
        r = (type(v).__name__, len(v))
    elif isinstance(v, dict):
        try:
            r = ("dict", tuple(sorted((repr(a)[:80], repr(_fp(b, depth + 1, memo))[:200]) for a, b in list(v.items())[:2000])), len(v))
        except Exception:
            r = ("dict", len(v))
    elif isinstance(v, type):
        if v.__module__.startswith("py_ecc"):
            r = ("class", v.__name__, tuple(sorted((a, repr(_fp(b, depth + 1, memo))[:300]) for a, b in vars(v).items()
                                                     if not a.startswith("__") and not callable(b)
                                                     and not isinstance(b, (classmethod, staticmethod, property)) and type(b).__name__ != "cached_property")))
    elif hasattr(v, "coeffs") and type(v).__module__.startswith("py_ecc"):
        r = (type(v).__name__, tuple(int(c) for c in v.coeffs))
    elif hasattr(v, "n") and type(v).__module__.startswith("py_ecc"):
        r = (type(v).__name__, int(v.n))
    memo[k] = r
    return r


def module_state():
    """fingerprint of every module-level name and class-level data attribute of the loaded py_ecc modules"""
    out_, memo = {}, {}
    for name, mod in sorted(sys.modules.items()):
        if mod is None or not (name == "py_ecc" or name.startswith("py_ecc.")):
            continue
        for k, v in list(vars(mod).items()):
            if k.startswith("__"):
                continue
            f = _fp(v, 0, memo)
            if f is not None:
                out_[f"{name}.{k}"] = f
    return out_


def purity_probe(fam, fn, inp):
    """runs the family's check of one input twice; reports a change of module-level state or a verdict that depends on history"""
    for mname in ("py_ecc", "py_ecc.bls", "py_ecc.bls.ciphersuites", "py_ecc.bls.hash_to_curve", "py_ecc.bls.point_compression", "py_ecc.secp256k1",
                  "py_ecc.bn128", "py_ecc.bls12_381", "py_ecc.optimized_bn128", "py_ecc.optimized_bls12_381", "py_ecc.fields"):
        try:
            importlib.import_module(mname)           # so that lazy imports during the call do not look like new state
        except Exception:
            pass
    s0 = module_state()
    try:
        bad1 = fam.check(fn, inp)
    except Exception:
        bad1 = dict(why="harness exception", observed=traceback.format_exc()[-800:])
    if bad1:
        return bad1
    s1 = module_state()
    # names of modules imported for the first time during the call (lazy imports) are not state changes
    mods0 = {k.rsplit(".", 1)[0] for k in s0}
    changed = [k for k in sorted(set(s0) | set(s1)) if s0.get(k) != s1.get(k) and (k in s0 or k.rsplit(".", 1)[0] in mods0)]
    if changed:
        k = changed[0]
        return dict(why="module-level state of py_ecc changed during the call history (constants / class attributes must not be written)",
                    changed=changed[:8], before=repr(s0.get(k))[:300], after=repr(s1.get(k))[:300])
    try:
        bad2 = fam.check(fn, inp)
    except Exception:
        bad2 = dict(why="harness exception", observed=traceback.format_exc()[-800:])
    if bad2:
        bad2 = dict(bad2)
        bad2["why"] = "history dependence: the same checks pass the first time and fail when repeated in the same process: " + str(bad2.get("why"))
        return bad2
    return None


def cmd_refute(hint, seed, budget_s=240):
    fn = hint["function"]
    cls = find_family(fn)
    if cls is None:
        return dict(found=False, reason=f"no concrete family for {fn}", tried=0)
    imp = check_import(fn)
    if imp:
        return dict(found=True, function=fn, family="import", input=dict(import_only=True), tried=1, **imp)
    fam = cls()
    rng = random.Random(seed)
    t0 = time.time()
    tried = 0
    probe = hint.get("property") == "C20"
    for inp in fam.gen(fn, rng, hint):
        tried += 1
        if probe:
            bad = purity_probe(fam, fn, inp)
            if bad:
                return dict(found=True, function=fn, family=cls.__name__, input=dict(purity_probe=True, inner=inp), tried=tried, **bad)
        else:
            try:
                bad = fam.check(fn, inp)
            except Exception:
                bad = dict(why="harness exception", observed=traceback.format_exc()[-800:])
            if bad:
                return dict(found=True, function=fn, family=cls.__name__, input=inp, tried=tried, **bad)
        if time.time() - t0 > budget_s:
            break
    return dict(found=False, tried=tried, function=fn, family=cls.__name__)


def check_import(fn):
    """the module defining fn must import (py_ecc runs self-checks at import time)"""
    parts = fn.split(".")
    err = None
    for k in range(len(parts) - 1, 0, -1):
        try:
            importlib.import_module(".".join(parts[:k]))
            return None
        except ModuleNotFoundError as e:
            err = e
            continue
        except Exception as e:
            return dict(why="importing the module raises", observed=f"{type(e).__name__}: {e}",
                        expected="module imports")
    return dict(why="module not found", observed=str(err), expected="module imports")


def cmd_replay(doc):
    fn = doc["function"]
    if doc.get("input", {}).get("eval_fact"):
        import families
        name = doc["input"]["eval_fact"]
        r = families.run_eval(dict(names=[name]))["results"].get(name, dict(ok=False, detail="missing"))
        return dict(fails=not r["ok"], function=fn, why="closed fact evaluated on the real modules", observed=str(r.get("detail"))[:400])
    if doc.get("input", {}).get("import_only"):
        imp = check_import(fn)
        return dict(fails=bool(imp), function=fn, **(imp or {}))
    cls = find_family(fn)
    if cls is None:
        return dict(error=f"no family for {fn}")
    if doc.get("input", {}).get("purity_probe"):
        bad = purity_probe(cls(), fn, doc["input"]["inner"])
    else:
        bad = cls().check(fn, doc["input"])
    if bad:
        return dict(fails=True, function=fn, input=doc["input"], **bad)
    return dict(fails=False, function=fn)


def main():
    cmd = sys.argv[1]
    args = sys.argv[2:]
    seed = 0
    if "--seed" in args:
        seed = int(args[args.index("--seed") + 1])
    import py_ecc
    repo = os.environ.get("PY_ECC_REPO", "/repo")
    if not os.path.abspath(py_ecc.__file__).startswith(os.path.abspath(repo)):
        out(dict(error=f"py_ecc imported from {py_ecc.__file__}, expected under {repo}"))
        return 3
    import families  # noqa: F401  (registers the families)
    data = sys.stdin.read()
    doc = json.loads(data) if data.strip() else {}
    try:
        if cmd == "refute":
            out(cmd_refute(doc, seed))
        elif cmd == "replay":
            out(cmd_replay(doc))
        elif cmd == "monitor":
            out(families.run_monitor(doc, seed))
        elif cmd == "eval":
            out(families.run_eval(doc))
        else:
            out(dict(error=f"unknown command {cmd}"))
            return 3
    except Exception:
        out(dict(error=traceback.format_exc()[-3000:]))
        return 3
    return 0


if __name__ == "__main__":
    sys.exit(main())
