"""Closed-term facts (eval back end): each has exactly one input, so one execution on the real
modules under the repository's interpreter *is* the proof (CPython in the trusted base)."""
from __future__ import annotations

import importlib
import os
from math import gcd

from families import evaluator, aff_add, aff_mul, aff_on, aff_eq

X_BLS = -0xd201000000010000
U_BN = 4965661367192848881
P_BLS = 0x1a0111ea397fe69a4b1ba7b6434bacd764774b84f38512bf6730d2a0f6b0f6241eabfffeb153ffffb9feffffffffaaab
R_BLS = 0x73eda753299d7d483339d80809a1d80553bda402fffe5bfeffffffff00000001
P_BN = 21888242871839275222246405745257275088696311157297823662689037894645226208583
R_BN = 21888242871839275222246405745257275088548364400416034343698204186575808495617
SECP_P = 2 ** 256 - 2 ** 32 - 977
SECP_N = 0xFFFFFFFFFFFFFFFFFFFFFFFFFFFFFFFEBAAEDCE6AF48A03BBFD25E8CD0364141
SECP_GX = 0x79BE667EF9DCBBAC55A06295CE870B07029BFCDB2DCE28D959F2815B16F81798
SECP_GY = 0x483ADA7726A3C4655DA4FBFC0E1108A8FD17B448A68554199C47D08FFB10D4B8
# pinned generator literals (values of the unchanged tree; G1 is anchored by its well-known
# compressed form 97f1d3a7...c6bb, checked in closed fact bls.G1.compressed-anchor)
G1_BLS = (0x17f1d3a73197d7942695638c4fa9ac0fc3688c4f9774b905a14e3a3f171bac586c55e83ff97a1aeffb3af00adb22c6bb,
          0x08b3f481e3aaa0f1a09e30ed741d8ae4fcf5e095d5d00af600db18cb2c04b3edd03cc744a2888ae40caa232946c5e7e1)
G2_BLS = ((352701069587466618187139116011060144890029952792775240219908644239793785735715026873347600343865175952761926303160,
           3059144344244213709971259814753781636986470325476647558659373206291635324768958432433509563104347017837885763365758),
          (1985150602287291935568054521177171638300868978215655730859378665066344726373823718423869104263333984641494340347905,
           927553665492332455747201965776037880757740193453592970025027978793976877002675564980949289727957565575433344219582))
G2_BN = ((10857046999023057135944570762232829481370756359578518086990519993285655852781,
          11559732032986387107991004021392285783925812861821192530917403151452391805634),
         (8495653923123431417604973247489272438418190587263600148770280649306958101930,
          4082367875863433681332203403145435568316851327593401208105741076214120093531))
H2_BLS = (X_BLS ** 8 - 4 * X_BLS ** 7 + 5 * X_BLS ** 6 - 4 * X_BLS ** 4 + 6 * X_BLS ** 3 - 4 * X_BLS ** 2 - 4 * X_BLS + 13) // 9
H1_BLS = (X_BLS - 1) ** 2 // 3


def M(name):
    return importlib.import_module(name)


def _ints(x):
    if hasattr(x, "coeffs"):
        return tuple(int(c) for c in x.coeffs)
    if hasattr(x, "n"):
        return int(x.n)
    return int(x)


def _aff(cm, G):
    if len(G) == 3:
        x, y, z = G
        return (x / z, y / z)
    return G


CURVES = {
    "bls12_381": dict(mods=["py_ecc.bls12_381.bls12_381_curve", "py_ecc.optimized_bls12_381.optimized_curve"],
                      p=P_BLS, r=R_BLS, b=4, b2=(4, 4), G1=G1_BLS, G2=G2_BLS),
    "bn128": dict(mods=["py_ecc.bn128.bn128_curve", "py_ecc.optimized_bn128.optimized_curve"],
                  p=P_BN, r=R_BN, b=3, b2=None, G1=(1, 2), G2=G2_BN),
}


def _reg_curve_facts():
    for cname, c in CURVES.items():
        for mn in c["mods"]:
            tag = mn.split(".")[1]

            def f_consts(mn=mn, c=c):
                m = M(mn)
                ok = m.field_modulus == c["p"] and m.curve_order == c["r"] and _ints(m.b) == c["b"]
                ok = ok and _ints(m.b12) == (c["b"],) + (0,) * 11
                if c["b2"] is not None:
                    ok = ok and _ints(m.b2) == c["b2"]
                else:   # bn128: b2 = 3 / (9 + i)
                    ok = ok and m.b2 * m.FQ2([9, 1]) == m.FQ2([3, 0])
                return ok, f"field_modulus/curve_order/b/b2/b12 of {mn}"
            evaluator(f"{tag}.constants")(f_consts)

            def f_gens(mn=mn, c=c):
                m = M(mn)
                g1, g2 = _aff(m, m.G1), _aff(m, m.G2)
                ok = (_ints(g1[0]), _ints(g1[1])) == c["G1"]
                ok = ok and (_ints(g2[0]), _ints(g2[1])) == c["G2"]
                return ok, "G1, G2 equal the pinned standard generators"
            evaluator(f"{tag}.generators")(f_gens)

            def f_on(mn=mn, c=c):
                m = M(mn)
                g1, g2, g12 = _aff(m, m.G1), _aff(m, m.G2), _aff(m, m.G12)
                return aff_on(g1, m.b) and aff_on(g2, m.b2) and aff_on(g12, m.b12), "generators on their curves (independent check)"
            evaluator(f"{tag}.generators-on-curve")(f_on)

            def f_ord(mn=mn, c=c):
                m = M(mn)
                g1, g2 = _aff(m, m.G1), _aff(m, m.G2)
                return aff_mul(g1, c["r"]) is None and aff_mul(g2, c["r"]) is None, "r.G1 = O and r.G2 = O (independent affine ladder)"
            evaluator(f"{tag}.generators-order")(f_ord)

            def f_inf(mn=mn):
                m = M(mn)
                if "optimized" in mn:
                    ok = m.Z1[2] == m.FQ.zero() and m.Z2[2] == m.FQ2.zero()
                else:
                    ok = m.Z1 is None and m.Z2 is None
                return ok, "Z1, Z2 are representations of the identity"
            evaluator(f"{tag}.identity-constants")(f_inf)

            def f_char(mn=mn):
                m = M(mn)
                return m.field_modulus % 2 == 1 and m.field_modulus % 3 != 0 and m.field_modulus > 3, "characteristic not in {2,3}"
            evaluator(f"{tag}.char")(f_char)


_reg_curve_facts()


@evaluator("bls12_381.derivation")
def _():
    x = X_BLS
    r = x ** 4 - x ** 2 + 1
    p = (x - 1) ** 2 * r // 3 + x
    ok = r == R_BLS and p == P_BLS and ((x - 1) ** 2 * r) % 3 == 0
    ok = ok and P_BLS + 1 - (x + 1) == H1_BLS * R_BLS          # #E(F_p) = p + 1 - t, t = x + 1
    return ok, "p = (x-1)^2 (x^4-x^2+1)/3 + x, r = x^4-x^2+1, #E = h1 r with t = x+1"


@evaluator("bn128.derivation")
def _():
    u = U_BN
    p = 36 * u ** 4 + 36 * u ** 3 + 24 * u ** 2 + 6 * u + 1
    r = 36 * u ** 4 + 36 * u ** 3 + 18 * u ** 2 + 6 * u + 1
    return p == P_BN and r == R_BN and p + 1 - (6 * u * u + 1) == r, "BN polynomials in u; #E = p + 1 - t = r"


@evaluator("pairing.loop-constants")
def _():
    ok = True
    for mn, want in [("py_ecc.bls12_381.bls12_381_pairing", -X_BLS), ("py_ecc.optimized_bls12_381.optimized_pairing", -X_BLS),
                     ("py_ecc.bn128.bn128_pairing", 6 * U_BN + 2), ("py_ecc.optimized_bn128.optimized_pairing", 6 * U_BN + 2)]:
        m = M(mn)
        ok = ok and m.ate_loop_count == want and want.bit_length() == m.log_ate_loop_count + 2
        if hasattr(m, "pseudo_binary_encoding"):
            enc = m.pseudo_binary_encoding
            ok = ok and sum(e * 2 ** i for i, e in enumerate(enc)) == want and all(e in (-1, 0, 1) for e in enc)
            ok = ok and len(enc) == m.log_ate_loop_count + 2 and enc[-1] == 1
    return ok, "ate loop counts = |x| resp. 6u+2 with bit length log_ate_loop_count+2; digit lists sum to them, top digit 1"


@evaluator("secp.constants")
def _():
    m = M("py_ecc.secp256k1.secp256k1")
    ok = m.P == SECP_P and m.N == SECP_N and m.A == 0 and m.B == 7 and m.Gx == SECP_GX and m.Gy == SECP_GY
    ok = ok and tuple(m.G) == (SECP_GX, SECP_GY)
    return ok, "P, N, A, B, Gx, Gy, G are the SEC 2 literals"


def _zp_add(P, Q, p):
    if P is None:
        return Q
    if Q is None:
        return P
    x1, y1 = P
    x2, y2 = Q
    if x1 == x2 and (y1 + y2) % p == 0:
        return None
    if x1 == x2:
        m = 3 * x1 * x1 * pow(2 * y1, -1, p) % p
    else:
        m = (y2 - y1) * pow(x2 - x1, -1, p) % p
    x3 = (m * m - x1 - x2) % p
    return (x3, (m * (x1 - x3) - y1) % p)


def zp_mul(P, n, p):
    R = None
    while n > 0:
        if n & 1:
            R = _zp_add(R, P, p)
        P = _zp_add(P, P, p)
        n >>= 1
    return R


@evaluator("secp.generator")
def _():
    G = (SECP_GX, SECP_GY)
    ok = (SECP_GY ** 2 - SECP_GX ** 3 - 7) % SECP_P == 0
    ok = ok and zp_mul(G, SECP_N, SECP_P) is None
    return ok, "G on y^2 = x^3 + 7 and N.G = O (independent integer arithmetic)"


@evaluator("secp.no-y0-point")
def _():
    # x^3 = -7 has no solution mod P: P = 1 mod 3 and (-7)^((P-1)/3) != 1
    return SECP_P % 3 == 1 and pow(-7 % SECP_P, (SECP_P - 1) // 3, SECP_P) != 1, "-7 is a non-cube mod P"


@evaluator("secp.p-3-mod-4")
def _():
    return SECP_P % 4 == 3 and SECP_P % 2 == 1 and SECP_N % 2 == 1, "P = 3 mod 4; P, N odd"


@evaluator("secp.hasse")
def _():
    # N prime (assumed), N.G = O, G != O, and N > 4 sqrt(P): #E is the unique multiple of N in the Hasse interval
    from math import isqrt
    lo, hi = SECP_P + 1 - 2 * isqrt(SECP_P) - 2, SECP_P + 1 + 2 * isqrt(SECP_P) + 2
    mult = [k for k in range(lo // SECP_N, hi // SECP_N + 1) if lo <= k * SECP_N <= hi]
    return mult == [1], f"multiples of N in the Hasse interval: {mult}"


@evaluator("bls.cofactors")
def _():
    c = M("py_ecc.optimized_bls12_381.constants")
    bc = M("py_ecc.bls.constants")
    x = X_BLS
    ok = c.H_EFF_G1 == 1 - x
    ok = ok and c.H_EFF_G2 == H2_BLS * (3 * x * x - 3)
    ok = ok and bc.G2_COFACTOR == H2_BLS
    ok = ok and (x - 1) ** 2 % 3 == 0 and (x ** 8 - 4 * x ** 7 + 5 * x ** 6 - 4 * x ** 4 + 6 * x ** 3 - 4 * x ** 2 - 4 * x + 13) % 9 == 0
    ok = ok and gcd(H1_BLS, R_BLS) == 1 and gcd(H2_BLS, R_BLS) == 1 and gcd(c.H_EFF_G1, R_BLS) == 1 and gcd(c.H_EFF_G2, R_BLS) == 1
    # #E'(F_p2) = h2 r lies in the Hasse interval for q = p^2
    from math import isqrt
    q = P_BLS ** 2
    ok = ok and abs(H2_BLS * R_BLS - (q + 1)) <= 2 * isqrt(q) + 1
    return ok, "H_EFF_G1 = 1-x, H_EFF_G2 = h2(x)(3x^2-3), G2_COFACTOR = h2(x), gcds with r are 1, h2 r in the Hasse interval"


@evaluator("bls.hasse-G1")
def _():
    from math import isqrt
    lo, hi = P_BLS + 1 - 2 * isqrt(P_BLS) - 2, P_BLS + 1 + 2 * isqrt(P_BLS) + 2
    # r | #E (r prime kills G1 != O); multiples of r in the interval
    ks = range(lo // R_BLS, hi // R_BLS + 2)
    mult = [k for k in ks if lo <= k * R_BLS <= hi]
    return H1_BLS in mult, f"h1 r in the Hasse interval ({len(mult)} multiples of r in it)"


@evaluator("bls.q-constant")
def _():
    bc = M("py_ecc.bls.constants")
    oc = M("py_ecc.optimized_bls12_381.optimized_curve")
    return bc.q == P_BLS == oc.field_modulus and oc.curve_order == R_BLS, "bls.constants.q and curve_order are the pinned p, r"


@evaluator("bls.curve_order-in-g2_primitives")
def _():
    g = M("py_ecc.bls.g2_primitives")
    return g.curve_order == R_BLS, "subgroup_check multiplies by the pinned r"


@evaluator("bls.no-y0-points")
def _():
    m = M("py_ecc.optimized_bls12_381.optimized_curve")
    q = P_BLS
    ok = q % 3 == 1 and pow(-4 % q, (q - 1) // 3, q) != 1          # -4 is a non-cube in F_q: no (x, 0) on E
    # -4(1+i) is a non-cube in F_q2 (no (x, 0) on the twist); 1+i is a non-square, so no twist point has x = 0
    F2 = m.FQ2
    nb2 = F2([-4 % q, -4 % q])
    ok = ok and (q * q - 1) % 3 == 0 and nb2 ** ((q * q - 1) // 3) != F2.one()
    ok = ok and m.b2 ** ((q * q - 1) // 2) != F2.one()
    return ok, "-4 non-cube mod q; -4(1+i) non-cube in F_q2; b2 = 4(1+i) non-square in F_q2"


@evaluator("bls.q-shape")
def _():
    q = P_BLS
    return q % 4 == 3 and q % 2 == 1 and q < 2 ** 381 and q > 2 ** 380 and (q * q) % 16 == 9, "q = 3 mod 4, odd, 380 < log2 q < 381, q^2 = 9 mod 16"


# ---- hash-to-curve constants (C10) ---------------------------------------------------------------------
ISO11_A = 0x144698a3b8e9433d693a02c96d4982b0ea985383ee66a8d8e8981aefd881ac98936f8da0e0f97f5cf428082d584c1d
ISO11_B = 0x12e2908d11688030018b12e8753eee3b2016c1f0f24f4070a0b9c14fcef35ef55a23215a316ceaa5d1cc48e98e172be0


def _polymul(a, b, mul, add, zero):
    res = [zero] * (len(a) + len(b) - 1)
    for i, x in enumerate(a):
        for j, y in enumerate(b):
            res[i + j] = add(res[i + j], mul(x, y))
    return res


def _poly_ops(F):
    zero, one = F.zero(), F.one()
    mul = lambda x, y: x * y
    add = lambda x, y: x + y
    return zero, one, mul, add


def _isogeny_identity(F, A, B, bE, tab):
    """(x^3 + A x + B) * yn^2 * xd^3 == (xn^3 + bE xd^3) * yd^2   in F[x]"""
    zero, one, mul, add = _poly_ops(F)
    xn, xd, yn, yd = [list(r) for r in tab]
    pm = lambda a, b: _polymul(a, b, mul, add, zero)

    def padd(a, b):
        n = max(len(a), len(b))
        return [add(a[i] if i < len(a) else zero, b[i] if i < len(b) else zero) for i in range(n)]
    g = [B, A, zero, one]
    lhs = pm(pm(g, pm(yn, yn)), pm(xd, pm(xd, xd)))
    xd3 = pm(xd, pm(xd, xd))
    rhs = pm(padd(pm(xn, pm(xn, xn)), [bE * c for c in xd3]), pm(yd, yd))
    n = max(len(lhs), len(rhs))
    return all((lhs[i] if i < len(lhs) else zero) == (rhs[i] if i < len(rhs) else zero) for i in range(n))


@evaluator("swu.constants")
def _():
    c = M("py_ecc.optimized_bls12_381.constants")
    F, F2 = c.FQ, c.FQ2
    p = P_BLS
    ok = c.ISO_11_Z == F(11) and int(c.ISO_11_A.n) == ISO11_A and int(c.ISO_11_B.n) == ISO11_B
    ok = ok and c.ISO_3_A == F2([0, 240]) and c.ISO_3_B == F2([1012, 1012]) and c.ISO_3_Z == F2([-2, -1])
    ok = ok and c.P_MINUS_3_DIV_4 == (p - 3) // 4 and c.P_MINUS_9_DIV_16 == (p * p - 9) // 16 and (p - 3) % 4 == 0 and (p * p - 9) % 16 == 0
    return ok, "A', B', Z of the 11- and 3-isogenous curves are the RFC 9380 section 8.8 values; exponents (p-3)/4, (p^2-9)/16"


@evaluator("swu.G1.sqrt-constant")
def _():
    c = M("py_ecc.optimized_bls12_381.constants")
    return c.SQRT_MINUS_11_CUBED * c.SQRT_MINUS_11_CUBED == -(c.ISO_11_Z ** 3), "SQRT_MINUS_11_CUBED^2 = -Z^3"


def _is_square(x, F, order):
    return x == F.zero() or x ** ((order - 1) // 2) == F.one()


@evaluator("swu.exceptional-x1-square")
def _():
    c = M("py_ecc.optimized_bls12_381.constants")
    p = P_BLS
    ok = True
    for F, A, B, Z, order in ((c.FQ, c.ISO_11_A, c.ISO_11_B, c.ISO_11_Z, p), (c.FQ2, c.ISO_3_A, c.ISO_3_B, c.ISO_3_Z, p * p)):
        x1 = B / (Z * A)
        ok = ok and _is_square(x1 ** 3 + A * x1 + B, F, order)
        ok = ok and not _is_square(Z, F, order)                       # Z is a non-square (criterion 1)
    # the non-zero roots of Z^2 u^4 + Z u^2 exist over F_p: -1/11 is a square
    ok = ok and _is_square(c.FQ(-1) / c.ISO_11_Z, c.FQ, p)
    return ok, "g(B/(ZA)) is a square and Z a non-square, for both isogenous curves"


@evaluator("swu.no-y0")
def _():
    # g(x) = x^3 + A x + B has no root in the field  <=>  gcd(x^q - x, g) = 1 ; compute x^q mod g by square-and-multiply
    c = M("py_ecc.optimized_bls12_381.constants")
    p = P_BLS
    ok = True
    for F, A, B, q_ in ((c.FQ, c.ISO_11_A, c.ISO_11_B, p), (c.FQ2, c.ISO_3_A, c.ISO_3_B, p * p)):
        zero, one = F.zero(), F.one()

        def mulmod(a, b):
            r = [zero] * 5
            for i in range(3):
                for j in range(3):
                    r[i + j] = r[i + j] + a[i] * b[j]
            # x^3 = -A x - B ; x^4 = -A x^2 - B x
            r[2] = r[2] - A * r[4]
            r[1] = r[1] - B * r[4]
            r[1] = r[1] - A * r[3]
            r[0] = r[0] - B * r[3]
            return r[:3]
        res, base, e = [one, zero, zero], [zero, one, zero], q_
        while e:
            if e & 1:
                res = mulmod(res, base)
            base = mulmod(base, base)
            e >>= 1
        h = [res[0], res[1] - one, res[2]]           # x^q - x mod g
        # gcd(g, h) = 1 iff resultant != 0; equivalently h has no common root: evaluate via polynomial gcd (degree <= 2)
        def trim(a):
            while a and a[-1] == zero:
                a = a[:-1]
            return a
        a_, b_ = [B, A, zero, one], trim(h)
        while b_:
            while len(a_) >= len(b_) and a_:
                k_ = a_[-1] / b_[-1]
                sh = len(a_) - len(b_)
                a_ = trim([a_[i] - (k_ * b_[i - sh] if i >= sh else zero) for i in range(len(a_))])
            a_, b_ = b_, a_
        ok = ok and len(a_) == 1
    return ok, "x^3 + A'x + B' has no root in F_p resp. F_p2: no point of E' has y = 0"


@evaluator("swu.G2.etas")
def _():
    c = M("py_ecc.optimized_bls12_381.constants")
    sq = [e * e for e in c.ETAS]
    ok = len(c.ETAS) == 4 and all(not (sq[i] == sq[j]) for i in range(4) for j in range(i + 1, 4))
    rt = c.POSITIVE_EIGHTH_ROOTS_OF_UNITY
    ok = ok and len(rt) == 4 and all(r ** 8 == c.FQ2.one() for r in rt)
    rsq = [r * r for r in rt]
    ok = ok and all(not (rsq[i] == rsq[j]) for i in range(4) for j in range(i + 1, 4))
    # eta_i^2 are the four values Z^3 * (odd eighth roots ...): eta^2 / Z^3 has order dividing 8 but is not a square root of unity
    Z3 = c.ISO_3_Z ** 3
    ok = ok and all((s_ / Z3) ** 4 == -c.FQ2.one() for s_ in sq)
    return ok, "eta_i^2 pairwise distinct with (eta_i^2 / Z^3)^4 = -1; the four 'positive' eighth roots of unity have distinct squares"


@evaluator("swu.isogeny-G1-maps-Eprime-into-E")
def _():
    c = M("py_ecc.optimized_bls12_381.constants")
    return _isogeny_identity(c.FQ, c.ISO_11_A, c.ISO_11_B, c.FQ(4), c.ISO_11_MAP_COEFFICIENTS), \
        "(x^3+A'x+B') y_num^2 x_den^3 = (x_num^3 + 4 x_den^3) y_den^2 in F_p[x]: the pinned 11-isogeny maps E' into E"


@evaluator("swu.isogeny-G2-maps-Eprime-into-E")
def _():
    c = M("py_ecc.optimized_bls12_381.constants")
    return _isogeny_identity(c.FQ2, c.ISO_3_A, c.ISO_3_B, c.FQ2([4, 4]), c.ISO_3_MAP_COEFFICIENTS), \
        "the pinned 3-isogeny maps E' into the twist E'(F_p2): y^2 = x^3 + 4(1+i)"


@evaluator("swu.sgn0-flip")
def _():
    return P_BLS % 2 == 1, "p odd: sgn0(-y) = 1 - sgn0(y) for y != 0"


@evaluator("twist.embedding")
def _():
    ok = True
    for mn, c in (("py_ecc.bn128.bn128_curve", 9), ("py_ecc.optimized_bn128.optimized_curve", 9),
                  ("py_ecc.bls12_381.bls12_381_curve", 1), ("py_ecc.optimized_bls12_381.optimized_curve", 1)):
        m = M(mn)
        w = m.w
        i_img = w ** 6 - m.FQ12([c] + [0] * 11)              # iota(i) = w^6 - c
        ok = ok and i_img * i_img == m.FQ12([-1] + [0] * 11)
        ok = ok and (m.FQ2([0, 1]) * m.FQ2([0, 1]) == m.FQ2([-1, 0]))
    return ok, "iota(i)^2 = -1 with iota(i) = w^6 - c (c = 9 for alt_bn128, 1 for BLS12-381): iota is a field embedding F_p2 -> F_p12"


@evaluator("codec.eighth-roots")
def _():
    bc = M("py_ecc.bls.constants")
    F2 = bc.FQ2
    q = P_BLS
    rt = bc.EIGHTH_ROOTS_OF_UNITY
    one = F2.one()
    ok = len(rt) == 8 and (q * q - 1) % 16 == 8 and bc.FQ2_ORDER == q * q - 1
    g = F2([1, 1])
    ok = ok and all(rt[k] == g ** ((q * q - 1) * k // 8) for k in (0, 1, 2, 5))
    ok = ok and rt[0] == one and rt[4] == -one and all(rt[k] ** 8 == one for k in range(8))
    ok = ok and all(not (rt[i] == rt[j]) for i in range(8) for j in range(i + 1, 8))          # a primitive 8th root generates them
    ok = ok and all(rt[k] * rt[k] == rt[(2 * k) % 8] for k in range(8))
    ok = ok and (q * q + 7) % 16 == 0 and (bc.FQ2_ORDER + 8) // 16 == (q * q + 7) // 16
    return ok, "EIGHTH_ROOTS_OF_UNITY[k] = (1+i)^((q^2-1)k/8): all 8 distinct, zeta^4 = -1, roots[k]^2 = roots[2k]; q^2 = 9 mod 16; exponent (q^2+7)/16"


@evaluator("h2c.cofactor-kills-twist-cofactor")
def _():
    c = M("py_ecc.optimized_bls12_381.constants")
    x = X_BLS
    # #E'(F_p2) = h2 r (A-ORDER): h_eff_G2 = h2 (3x^2 - 3), so r . (h_eff . X) = (3x^2 - 3) . ((h2 r) . X) = O
    ok = c.H_EFF_G2 * R_BLS == (3 * x * x - 3) * (H2_BLS * R_BLS)
    # G1: h_eff = 1 - x and h1 = (x - 1)^2 / 3: (1 - x)^2 = 3 h1, i.e. h_eff^2 kills the cofactor part; that h_eff alone does is A-STRUCT-G1
    ok = ok and c.H_EFF_G1 ** 2 == 3 * H1_BLS and c.H_EFF_G1 == 1 - x
    return ok, "r * H_EFF_G2 = (3x^2-3) * #E'(F_p2);  H_EFF_G1^2 = 3 h1"


# ---- group orders and structure of the BLS12-381 curves (A-ORDER / A-STRUCT-G1 as computed facts) ------------------
_MR_BASES = [2, 3, 5, 7, 11, 13, 17, 19, 23, 29, 31, 37, 41, 43, 47, 53, 59, 61, 67, 71, 73, 79, 83, 89, 97, 101, 103, 107, 109, 113,
             127, 131, 137, 139, 149, 151, 157, 163, 167, 173]


def _strong_prp(n):
    """Miller-Rabin to the first 40 prime bases: deterministic below 3.3e24 (first 13 bases suffice), otherwise a strong
    probable-prime test (no certificate)"""
    if n < 2:
        return False
    for b in _MR_BASES:
        if n % b == 0:
            return n == b
    d, s_ = n - 1, 0
    while d % 2 == 0:
        d //= 2
        s_ += 1
    for a in _MR_BASES:
        x = pow(a, d, n)
        if x in (1, n - 1):
            continue
        for _ in range(s_ - 1):
            x = x * x % n
            if x == n - 1:
                break
        else:
            return False
    return True


def _det_points(mod, twist, count, seed):
    """deterministic curve points of the real module: x = seed, seed+1, ... lifted when x^3 + b is a square"""
    import random
    rng = random.Random(seed)
    out = []
    q = P_BLS
    if not twist:
        FQ = mod.FQ
        x = rng.randrange(q)
        while len(out) < count:
            x = (x + 1) % q
            a = (x ** 3 + 4) % q
            y = pow(a, (q + 1) // 4, q)
            if y * y % q == a:
                out.append((FQ(x), FQ(y), FQ(1)))
    else:
        from py_ecc.bls.point_compression import modular_squareroot_in_FQ2
        F2 = mod.FQ2
        x0 = rng.randrange(q)
        while len(out) < count:
            x0 = (x0 + 1) % q
            x = F2([x0, 1])
            y = modular_squareroot_in_FQ2(x ** 3 + mod.b2)
            if y is not None and y * y == x ** 3 + mod.b2:
                out.append((x, y, F2.one()))
    return out


@evaluator("bls.order-twist")
def _():
    """#E'(F_p2) = h2 r.  A point Q of E'(F_p2) with (h2 r) Q = O, (h2 r / c) Q != O and (h2) Q != O has order divisible by c r,
    for the 448-bit prime factor c of h2 (h2 = 13^2 23^2 2713 11953 262069 c; c and r prime by Pocklington certificate, certs/primes.json);
    c r > 4p + 2 >= width of the Hasse interval of F_p2, so #E' is the only multiple of ord(Q) in the interval: h2 r."""
    m = M("py_ecc.optimized_bls12_381.optimized_curve")
    small = 13 ** 2 * 23 ** 2 * 2713 * 11953 * 262069
    ok = H2_BLS % small == 0
    c = H2_BLS // small
    ok = ok and c.bit_length() == 448 and _strong_prp(c) and _strong_prp(R_BLS) and gcd(c, small * R_BLS) == 1
    certs = _load_certs()
    cc, cr = certs.get("bls_h2_c"), certs.get("bls_r")
    ok = ok and cc is not None and int(cc["n"]) == c and _verify_pocklington(cc)
    ok = ok and cr is not None and int(cr["n"]) == R_BLS and _verify_pocklington(cr)
    n = H2_BLS * R_BLS
    q2 = P_BLS ** 2
    ok = ok and abs(n - (q2 + 1)) <= 2 * P_BLS and c * R_BLS > 4 * P_BLS + 2
    found = False
    for Q in _det_points(m, True, 6, 20260930):
        ok = ok and m.is_on_curve(Q, m.b2) and m.is_inf(m.multiply(Q, n))
        if not m.is_inf(m.multiply(Q, n // c)) and not m.is_inf(m.multiply(Q, n // R_BLS)):
            found = True
            break
    return ok and found, "E'(F_p2) has a point of order divisible by c*r > 4p+2 killed by h2*r, which lies in the Hasse interval: #E'(F_p2) = h2 r (c, r: primes by verified Pocklington certificates)"


@evaluator("bls.struct-G1")
def _():
    """the cofactor part of E(F_p) (order h1 = 3 * 11^2 * 10177^2 * 859267^2 * 52437899^2, #E = h1 r by bls.hasse-G1) has exponent
    |x - 1| = 3 * 11 * 10177 * 859267 * 52437899: for each prime l > 3 two independent points of order l are exhibited
    (so the l-primary part, of order l^2, is (Z/l)^2), the 3-part has order 3."""
    m = M("py_ecc.optimized_bls12_381.optimized_curve")
    primes = [11, 10177, 859267, 52437899]
    ok = abs(X_BLS - 1) == 3 * 11 * 10177 * 859267 * 52437899 and H1_BLS == 3 * (11 * 10177 * 859267 * 52437899) ** 2
    ok = ok and all(_strong_prp(l) for l in primes)          # < 2^64: deterministic
    n = H1_BLS * R_BLS
    pts = _det_points(m, False, 12, 381)

    def aff(P):
        x, y, z = P
        zi = 1 / z
        return (int((x * zi).n), int((y * zi).n))
    for l in primes:
        cof = n // (l * l)
        tors = []
        for P in pts:
            T = m.multiply(P, cof)                     # in the l-primary part
            if m.is_inf(T):
                continue
            if not m.is_inf(m.multiply(T, l)):
                return False, f"a point of order {l}^2 exists: the {l}-part is cyclic"
            tors.append(T)
            if len(tors) >= 2:
                # independence of tors[0], tors[-1]: tors[-1] not in <tors[0]> (baby-step giant-step over j in [0, l))
                A, B = tors[0], tors[-1]
                s = int(l ** 0.5) + 1
                baby = {}
                cur_ = m.Z1
                for j in range(s):
                    baby["inf" if m.is_inf(cur_) else aff(cur_)] = j
                    cur_ = m.add(cur_, A)
                step = m.neg(m.multiply(A, s))
                g = B
                hit = False
                for i in range(s + 1):
                    key = "inf" if m.is_inf(g) else aff(g)
                    if key in baby:
                        hit = True
                        break
                    g = m.add(g, step)
                if not hit:
                    break
                tors.pop()
        else:
            return False, f"no two independent points of order {l} found"
    return ok, "E(F_p)[l] is rational for l = 11, 10177, 859267, 52437899 (two independent points each): the cofactor part has exponent |x-1| = |H_EFF_G1|"


@evaluator("swu.G2.root-tables")
def _():
    """table facts used by the completeness proofs of sqrt_division_FQ2 and of the eta loop of optimized_swu_G2.
    X^4 - 1 and X^4 + 1 have at most four roots each in a field; the four listed below are distinct roots, hence all."""
    c = M("py_ecc.optimized_bls12_381.constants")
    F2 = c.FQ2
    one = F2.one()
    Q = P_BLS * P_BLS
    ok = (Q - 1) % 8 == 0
    g = F2([1, 1]) ** ((Q - 1) // 8)
    fourth = [g ** k for k in (0, 2, 4, 6)]
    prim = [g ** k for k in (1, 3, 5, 7)]
    ok = ok and all(w ** 4 == one for w in fourth) and all(w ** 4 == -one for w in prim)
    ok = ok and all(not (a == b) for L in (fourth, prim) for i, a in enumerate(L) for b in L[i + 1:])
    rt = c.POSITIVE_EIGHTH_ROOTS_OF_UNITY
    # T1: for every w with w^4 = 1 some root has root^2 w = 1;  T2: root^8 = 1
    ok = ok and len(rt) == 4 and all(any(r * r * w == one for r in rt) for w in fourth)
    ok = ok and all(r ** 8 == one for r in rt)
    # T3: for every w with w^4 = -1 some eta has eta^2 w = Z^3
    Z3 = c.ISO_3_Z ** 3
    ok = ok and len(c.ETAS) == 4 and all(any(e * e * w == Z3 for e in c.ETAS) for w in prim)
    return ok, ("T1: every fourth root of unity w has a positive eighth root rho with rho^2 w = 1; T2: rho^8 = 1; "
                "T3: every w with w^4 = -1 has an eta with eta^2 w = Z^3")


# ---- primality certificates (Pocklington, recursive) ---------------------------------------------------------------
def _verify_pocklington(node, depth=0):
    """node = {n, small} | {n, factors {q: e}, witness {q: a}, sub [nodes for the q]}.
    Pocklington: if F | n-1, F > sqrt(n), F = prod q^e with every q prime, and for every q there is a with
    a^(n-1) = 1 (mod n) and gcd(a^((n-1)/q) - 1, n) = 1, then n is prime."""
    n = int(node["n"])
    if node.get("small"):
        return n < 2 ** 64 and _strong_prp(n)           # deterministic below 3.3e24 with these bases
    if depth > 40:
        return False
    F = 1
    subs = {int(s_["n"]): s_ for s_ in node["sub"]}
    for qs, e in node["factors"].items():
        q = int(qs)
        if q not in subs or not _verify_pocklington(subs[q], depth + 1):
            return False
        if (n - 1) % (q ** e):
            return False
        F *= q ** e
        a = int(node["witness"][qs])
        if pow(a, n - 1, n) != 1 or gcd(pow(a, (n - 1) // q, n) - 1, n) != 1:
            return False
    return F * F > n and (n - 1) % F == 0


def _load_certs():
    import json as _json
    path = os.path.join(os.path.dirname(os.path.dirname(os.path.abspath(__file__))), "certs", "primes.json")
    return _json.load(open(path))


@evaluator("primes.certificates")
def _():
    certs = _load_certs()
    want = dict(secp_P=SECP_P, secp_N=SECP_N, bn_p=P_BN, bn_r=R_BN, bls_r=R_BLS, bls_p=P_BLS,
                bls_h2_c=H2_BLS // (13 ** 2 * 23 ** 2 * 2713 * 11953 * 262069))
    ok = True
    done = []
    for k, n in want.items():
        c = certs.get(k)
        good = c is not None and int(c["n"]) == n and _verify_pocklington(c)
        ok = ok and good
        if good:
            done.append(k)
    extra = []
    # the constants of the modules are these numbers
    s = M("py_ecc.secp256k1.secp256k1")
    ok = ok and s.P == SECP_P and s.N == SECP_N
    for mn, p_, r_ in (("py_ecc.bn128.bn128_curve", P_BN, R_BN), ("py_ecc.optimized_bn128.optimized_curve", P_BN, R_BN),
                       ("py_ecc.bls12_381.bls12_381_curve", P_BLS, R_BLS), ("py_ecc.optimized_bls12_381.optimized_curve", P_BLS, R_BLS)):
        m_ = M(mn)
        ok = ok and m_.field_modulus == p_ and m_.curve_order == r_
    return ok, "Pocklington certificates verified for " + ", ".join(done + extra)


# ---- irreducibility of the modulus polynomials of the real extension classes (Rabin's test) ---------------------------
def _pz_trim(a):
    while a and a[-1] == 0:
        a = a[:-1]
    return a


def _pz_mod(a, f, p):
    """remainder of a by f over Z/p (f's leading coefficient is a unit)"""
    a = [c % p for c in a]
    f = _pz_trim([c % p for c in f])
    il = pow(f[-1], -1, p)
    while len(_pz_trim(a)) >= len(f):
        a = _pz_trim(a)
        k = a[-1] * il % p
        sh = len(a) - len(f)
        for i, c in enumerate(f):
            a[sh + i] = (a[sh + i] - k * c) % p
    return _pz_trim(a)


def _pz_mulmod(a, b, f, p):
    out = [0] * (len(a) + len(b))
    for i, x in enumerate(a):
        if x:
            for j, y in enumerate(b):
                out[i + j] = (out[i + j] + x * y) % p
    return _pz_mod(out, f, p)


def _pz_powmod(a, e, f, p):
    r = [1]
    while e:
        if e & 1:
            r = _pz_mulmod(r, a, f, p)
        a = _pz_mulmod(a, a, f, p)
        e >>= 1
    return r


def _pz_gcd(a, b, p):
    a, b = _pz_trim([c % p for c in a]), _pz_trim([c % p for c in b])
    while b:
        a, b = b, _pz_mod(a, b, p)
    return a


def _rabin_irreducible(f, p):
    """Rabin 1980: monic f of degree n over GF(p), p prime, is irreducible iff x^(p^n) = x (mod f) and
    gcd(x^(p^(n/q)) - x, f) = 1 for every prime q | n"""
    n = len(f) - 1
    if n < 1 or f[-1] % p != 1:
        return False
    x = [0, 1]

    def frob_minus_x(k):
        h = _pz_powmod(x, p ** k, f, p)
        h = h + [0] * (2 - len(h))
        h[1] = (h[1] - 1) % p
        return _pz_trim(h)
    for q in (q for q in range(2, n + 1) if n % q == 0 and all(q % t for t in range(2, q))):
        if len(_pz_gcd(f, frob_minus_x(n // q), p)) != 1:
            return False
    return not frob_minus_x(n)


@evaluator("fields.modulus-irreducible")
def _():
    """the class invariant 'the modulus polynomial is irreducible over Z/p' for the eight real extension classes: Rabin's
    irreducibility test (own 40-line polynomial arithmetic over Z/p, independent of the field classes) on the modulus
    coefficients and prime read from the classes themselves; the self-test shows the test is not vacuous"""
    F = M("py_ecc.fields")
    # self-test of the procedure on known answers over small fields
    st = (_rabin_irreducible([1, 0, 1], 3) and not _rabin_irreducible([1, 0, 1], 5) and _rabin_irreducible([1, 1, 0, 1], 2)
          and not _rabin_irreducible([1, 0, 0, 1], 2) and not _rabin_irreducible([2, 0, 3, 0, 1], 7)
          and _rabin_irreducible([1, 1, 0, 0, 1], 2) and not _rabin_irreducible([1, 0, 1, 0, 1], 2))
    ok = st
    seen = {}
    bad = []
    for opt in ("", "optimized_"):
        for curve in ("bn128", "bls12_381"):
            for suffix, attr, d in (("FQ2", "FQ2_MODULUS_COEFFS", 2), ("FQ12", "FQ12_MODULUS_COEFFS", 12)):
                cls = getattr(F, f"{opt}{curve}_{suffix}")
                p = int(cls.field_modulus)
                co = tuple(int(c) for c in getattr(cls, attr))
                good = len(co) == d and cls.degree == d
                # what the arithmetic really reduces by: the instance attribute set by __init__
                inst = cls([1] + [0] * (d - 1))
                good = good and tuple(int(c) for c in inst.modulus_coeffs) == co and inst.degree == d
                key = (p, co)
                if good and key not in seen:
                    seen[key] = _rabin_irreducible(list(co) + [1], p)
                good = good and seen.get(key, False)
                if not good:
                    bad.append(f"{opt}{curve}_{suffix}")
                ok = ok and good
    return ok, (f"Rabin's test (self-test {'ok' if st else 'FAILED'}): x^2+1 and the degree-12 moduli of alt_bn128 and BLS12-381 are "
                f"irreducible over their prime fields ({len(seen)} distinct (p, modulus) pairs, 8 classes)"
                + ("" if ok else " — fails for: " + ", ".join(bad)))


@evaluator("fields.class-table")
def _():
    """the sixteen concrete field classes of py_ecc.fields carry the prime, the modulus coefficients and the degree of their
    curve, inherit from the right file, and the curve modules use exactly these classes"""
    F = M("py_ecc.fields")
    R_, O_ = M("py_ecc.fields.field_elements"), M("py_ecc.fields.optimized_field_elements")
    primes = {"bn128": P_BN, "bls12_381": P_BLS}
    mods = {("bn128", 2): (1, 0), ("bn128", 12): (82, 0, 0, 0, 0, 0, -18, 0, 0, 0, 0, 0),
            ("bls12_381", 2): (1, 0), ("bls12_381", 12): (2, 0, 0, 0, 0, 0, -2, 0, 0, 0, 0, 0)}
    ok = True
    bad = []
    for opt in (False, True):
        base = O_ if opt else R_
        for curve, p in primes.items():
            pre = ("optimized_" if opt else "") + curve + "_"
            for suffix, parent in (("FQ", base.FQ), ("FQP", base.FQP), ("FQ2", base.FQ2), ("FQ12", base.FQ12)):
                cls = getattr(F, pre + suffix, None)
                good = cls is not None and issubclass(cls, parent) and cls.field_modulus == p
                if good and suffix == "FQ2":
                    good = tuple(cls.FQ2_MODULUS_COEFFS) == mods[(curve, 2)] and cls.degree == 2 and issubclass(cls, getattr(F, pre + "FQP"))
                if good and suffix == "FQ12":
                    good = tuple(cls.FQ12_MODULUS_COEFFS) == mods[(curve, 12)] and cls.degree == 12 and issubclass(cls, getattr(F, pre + "FQP"))
                if not good:
                    bad.append(pre + suffix)
                ok = ok and good
    for modname, pre in (("py_ecc.bn128.bn128_curve", "bn128_"), ("py_ecc.optimized_bn128.optimized_curve", "optimized_bn128_"),
                         ("py_ecc.bls12_381.bls12_381_curve", "bls12_381_"), ("py_ecc.optimized_bls12_381.optimized_curve", "optimized_bls12_381_")):
        m_ = M(modname)
        for suffix in ("FQ", "FQP", "FQ2", "FQ12"):
            if getattr(m_, suffix, None) is not getattr(F, pre + suffix):
                ok = False
                bad.append(f"{modname}.{suffix}")
    return ok, "field_modulus, modulus coefficients, degree and base classes of the 16 classes of py_ecc.fields; the curve modules use them" + \
        ("" if ok else " — wrong: " + ", ".join(bad[:6]))


@evaluator("purity.import-order-state")
def _():
    """interpreter-wide state (recursion limit) after `import py_ecc` alone equals the state after importing every sub-module:
    no result depends on which sub-packages happened to be imported earlier; and the limit is the 100000 that the recursive
    multiply / __pow__ units take as their domain"""
    import subprocess, sys as _sys, json as _json
    code = (
        "import sys, json\n"
        "a = sys.getrecursionlimit()\n"
        "import py_ecc\n"
        "b = sys.getrecursionlimit()\n"
        "import importlib\n"
        "for m in ('py_ecc.fields', 'py_ecc.utils', 'py_ecc.secp256k1', 'py_ecc.bn128', 'py_ecc.optimized_bn128', 'py_ecc.bls12_381',\n"
        "          'py_ecc.optimized_bls12_381', 'py_ecc.bls', 'py_ecc.bls.hash_to_curve', 'py_ecc.bls.point_compression',\n"
        "          'py_ecc.optimized_bls12_381.optimized_clear_cofactor', 'py_ecc.optimized_bls12_381.optimized_swu'):\n"
        "    importlib.import_module(m)\n"
        "c = sys.getrecursionlimit()\n"
        "print(json.dumps([a, b, c]))\n")
    pr = subprocess.run([_sys.executable, "-c", code], capture_output=True, text=True, timeout=600)
    try:
        a, b, c = _json.loads(pr.stdout.strip().splitlines()[-1])
    except Exception:
        return False, "could not evaluate: " + (pr.stderr or pr.stdout)[-300:]
    return (b == c and b >= 100000), f"recursion limit: fresh interpreter {a}, after `import py_ecc` {b}, after importing every sub-module {c}"
