"""concrete family for the point codecs (C11 / C04): independent integer implementation of the ZCash
BLS12-381 compressed format, compared with the real encoders/decoders on the quantifier's grid."""
from __future__ import annotations

from families import family

Q = 0x1a0111ea397fe69a4b1ba7b6434bacd764774b84f38512bf6730d2a0f6b0f6241eabfffeb153ffffb9feffffffffaaab
P381, P382, P383 = 2 ** 381, 2 ** 382, 2 ** 383


def sqrt_fq(a):
    a %= Q
    y = pow(a, (Q + 1) // 4, Q)
    return y if y * y % Q == a else None


def f2mul(a, b):
    return ((a[0] * b[0] - a[1] * b[1]) % Q, (a[0] * b[1] + a[1] * b[0]) % Q)


def sqrt_fq2(a):
    a0, a1 = a[0] % Q, a[1] % Q
    if a1 == 0:
        r = sqrt_fq(a0)
        if r is not None:
            return (r, 0)
        r = sqrt_fq(-a0)
        return (0, r) if r is not None else None
    n = sqrt_fq(a0 * a0 + a1 * a1)
    if n is None:
        return None
    inv2 = pow(2, -1, Q)
    for s in (n, -n):
        x0sq = (a0 + s) * inv2 % Q
        x0 = sqrt_fq(x0sq)
        if x0 is not None and x0 != 0:
            x1 = a1 * pow(2 * x0, -1, Q) % Q
            if f2mul((x0, x1), (x0, x1)) == (a0, a1):
                return (x0, x1)
    return None


def sign1(y):
    return 1 if 2 * y >= Q else 0


def sign2(y):
    return sign1(y[1]) if y[1] > 0 else sign1(y[0])


def enc1(P):
    if P is None:
        return P383 + P382
    return P[0] + sign1(P[1]) * P381 + P383


def dec1(z):
    """the point a word denotes, or the string 'refuse'"""
    c, b, a, x = (z >> 383) & 1, (z >> 382) & 1, (z >> 381) & 1, z % P381
    if z >= 2 ** 384 or not c:
        return "refuse"
    if b:
        return None if (a == 0 and x == 0) else "refuse"
    if x >= Q:
        return "refuse"
    y = sqrt_fq(x ** 3 + 4)
    if y is None:
        return "refuse"
    if sign1(y) != a:
        y = Q - y
    return (x, y) if y != 0 else "refuse"


def enc2(P):
    if P is None:
        return (P383 + P382, 0)
    (xr, xi), y = P
    return (xi + sign2(y) * P381 + P383, xr)


def dec2(z1, z2):
    c, b, a, x1 = (z1 >> 383) & 1, (z1 >> 382) & 1, (z1 >> 381) & 1, z1 % P381
    if z1 >= 2 ** 384 or not c:
        return "refuse"
    if b:
        return None if (a == 0 and x1 == 0 and z2 == 0) else "refuse"
    if x1 >= Q or z2 >= Q:
        return "refuse"
    x = (z2, x1)
    x3 = f2mul(f2mul(x, x), x)
    y = sqrt_fq2(((x3[0] + 4) % Q, (x3[1] + 4) % Q))
    if y is None:
        return "refuse"
    if sign2(y) != a:
        y = ((-y[0]) % Q, (-y[1]) % Q)
    return (x, y)


def _g1(P):
    from py_ecc.optimized_bls12_381 import FQ
    return (FQ(P[0]), FQ(P[1]), FQ(1))


def _g2(P):
    from py_ecc.optimized_bls12_381 import FQ2
    return (FQ2(list(P[0])), FQ2(list(P[1])), FQ2([1, 0]))


def _aff(rep):
    x, y, z = rep
    if z == z.__class__.zero():
        return None
    X, Y = x / z, y / z
    if hasattr(X, "coeffs"):
        return (tuple(int(c) for c in X.coeffs), tuple(int(c) for c in Y.coeffs))
    return (int(X.n), int(Y.n))


@family("py_ecc.bls.point_compression.", "py_ecc.bls.g2_primitives.G1_to_pubkey", "py_ecc.bls.g2_primitives.G2_to_signature",
        "py_ecc.bls.g2_primitives.pubkey_to_G1", "py_ecc.bls.g2_primitives.signature_to_G2")
class CodecFamily:
    def gen(self, fn, rng, hint):
        g2 = "G2" in fn or "signature" in fn or "FQ2" in fn
        both = any(k in fn for k in ("get_flags", "is_point_at_infinity"))
        # on-curve x values
        xs1, xs2 = [], []
        while len(xs1) < 3:
            x = rng.randrange(Q)
            if sqrt_fq(x ** 3 + 4) is not None:
                xs1.append(x)
        while len(xs2) < 3:
            x = (rng.randrange(Q), rng.randrange(Q))
            x3 = f2mul(f2mul(x, x), x)
            if sqrt_fq2(((x3[0] + 4) % Q, (x3[1] + 4) % Q)) is not None:
                xs2.append(x)
        off1 = next(x for x in iter(lambda: rng.randrange(Q), None) if sqrt_fq(x ** 3 + 4) is None)
        if not g2 or both:
            for x in [0, 1, Q - 1, Q, Q + 1, P381 - 1, off1] + xs1:
                for flags in range(8):
                    yield dict(kind="dec1", words=[x + flags * P381])
            for x in xs1:
                # both sign variants of one x in one process, in both orders (history dependence)
                yield dict(kind="dec1", words=[x + 4 * P381, x + 5 * P381, x + 4 * P381])
                yield dict(kind="dec1", words=[x + 5 * P381, x + 4 * P381])
                y = sqrt_fq(x ** 3 + 4)
                for yy in (y, Q - y):
                    lam = rng.randrange(1, Q)
                    yield dict(kind="rt1", pt=[x * lam % Q, yy * lam % Q, lam])
            # the byte-level key decoder on one key and its flag variants in one process, genuine key first and last
            for x in xs1[:2]:
                y = sqrt_fq(x ** 3 + 4)
                w = enc1((x, y))
                yield dict(kind="pkbytes", words=[w, w - P383, w + P382, w - P383 + P382, w ^ P381, w])
                yield dict(kind="pkbytes", words=[w - P383, w, w - P383, w + P382])
            yield dict(kind="rt1", pt=[1, 1, 0])
            yield dict(kind="rt1", pt=[rng.randrange(Q), rng.randrange(Q), 0])
        if g2 or both:
            for x in [(0, 0), (1, 0), (0, 1), (Q - 1, Q - 1)] + xs2:
                for flags in range(8):
                    for z2 in (x[0], x[0] + Q, x[0] + P381, x[0] + P383, P383):
                        yield dict(kind="dec2", words=[[x[1] + flags * P381, z2]])
            for z2 in (0, P381, P382, P383, 3 * P382, 7 * P381, 1):
                for flags in (6, 7, 4, 2):
                    yield dict(kind="dec2", words=[[flags * P381, z2]])
            for x in xs2:
                yield dict(kind="dec2", words=[[x[1] + 4 * P381, x[0]], [x[1] + 5 * P381, x[0]], [x[1] + 4 * P381, x[0]]])
                x3 = f2mul(f2mul(x, x), x)
                y = sqrt_fq2(((x3[0] + 4) % Q, (x3[1] + 4) % Q))
                for yy in (y, ((-y[0]) % Q, (-y[1]) % Q)):
                    yield dict(kind="rt2", x=list(x), y=list(yy), lam=[rng.randrange(Q), rng.randrange(Q)])
            # y with zero imaginary part / zero real part: x^3 + b2 = t^2 with t in F_q resp. t*i
            for special in ("re", "im"):
                for _ in range(200):
                    x = (rng.randrange(Q), rng.randrange(Q))
                    x3 = f2mul(f2mul(x, x), x)
                    v = ((x3[0] + 4) % Q, (x3[1] + 4) % Q)
                    if v[1] == 0:
                        break
                # construct directly: pick y, solve nothing -- use known points: y^2 - b2 must be a cube; skip if not found
            yield dict(kind="rt2_special")
            yield dict(kind="rt2inf")
            # byte-level decoders: flag bits / excess in the second half of a 96-byte signature, first half of a key
            for x in xs2[:2]:
                x3 = f2mul(f2mul(x, x), x)
                y = sqrt_fq2(((x3[0] + 4) % Q, (x3[1] + 4) % Q))
                z1, z2 = enc2((x, y))
                for extra in (0, P381, P382, P383, 7 * P381):
                    yield dict(kind="sigbytes", z1=z1, z2=z2 + extra)

    def check(self, fn, inp):
        import py_ecc.bls.point_compression as PC
        from py_ecc.optimized_bls12_381 import FQ2, is_on_curve, b2
        k = inp["kind"]
        if k == "dec1":
            for w in inp["words"]:
                want = dec1(w)
                try:
                    got = PC.decompress_G1(w)
                except ValueError:
                    got = "refuse"
                except Exception as e:
                    return dict(why="decompress_G1 raised something other than ValueError", observed=f"{type(e).__name__}: {e}", word=hex(w))
                if got == "refuse" or want == "refuse":
                    if got != want and not (want != "refuse" and want is not None and want[0] == 0):   # x = 0: known finding D2
                        return dict(why="decompress_G1 accepts/refuses the wrong words", observed=str(got)[:80], expected=str(want)[:80], word=hex(w))
                    continue
                A = _aff(got)
                if A != want:
                    return dict(why="decompress_G1 returned a different point than the word denotes", observed=A, expected=want, word=hex(w))
                if int(PC.compress_G1(got)) != w:
                    return dict(why="accepted word does not re-compress to itself", observed=hex(int(PC.compress_G1(got))), word=hex(w))
        elif k == "pkbytes":
            from py_ecc.bls.g2_primitives import pubkey_to_G1
            for w in inp["words"]:
                want = dec1(w)
                try:
                    got = pubkey_to_G1(w.to_bytes(48, "big"))
                    got = _aff(got)
                except ValueError:
                    got = "refuse"
                except Exception as e:
                    return dict(why="pubkey_to_G1 raised something other than ValueError", observed=f"{type(e).__name__}: {e}", word=hex(w))
                if got != want:
                    return dict(why="pubkey_to_G1 accepts/refuses or decodes differently depending on what was decoded before "
                                    "(one key and its flag variants in one process)", observed=str(got)[:80], expected=str(want)[:80], word=hex(w))
        elif k == "rt1":
            x, y, z = inp["pt"]
            rep = tuple(__import__("py_ecc.optimized_bls12_381", fromlist=["FQ"]).FQ(v) for v in (x, y, z))
            A = _aff(rep)
            w = int(PC.compress_G1(rep))
            if w != enc1(A):
                return dict(why="compress_G1 differs from the ZCash encoding", observed=hex(w), expected=hex(enc1(A)))
            if A is not None and A[0] == 0:
                return None
            try:
                back = _aff(PC.decompress_G1(w))
            except Exception as e:
                return dict(why="round trip refused", observed=str(e))
            if back != A:
                return dict(why="decompress_G1(compress_G1(P)) != P", observed=back, expected=A)
        elif k == "dec2":
            for z1, z2 in inp["words"]:
                want = dec2(z1, z2)
                try:
                    got = PC.decompress_G2((z1, z2))
                except ValueError:
                    got = "refuse"
                except Exception as e:
                    return dict(why="decompress_G2 raised something other than ValueError", observed=f"{type(e).__name__}: {e}")
                if got == "refuse" or want == "refuse":
                    if got != want:
                        return dict(why="decompress_G2 accepts/refuses the wrong pairs", observed=str(got)[:80], expected=str(want)[:80],
                                    words=[hex(z1), hex(z2)])
                    continue
                A = _aff(got)
                if A != want:
                    return dict(why="decompress_G2 returned a different point than the pair denotes", observed=A, expected=want)
                if tuple(int(v) for v in PC.compress_G2(got)) != (z1, z2):
                    return dict(why="accepted pair does not re-compress to itself", observed=[hex(int(v)) for v in PC.compress_G2(got)],
                                words=[hex(z1), hex(z2)])
        elif k == "rt2":
            lam = FQ2(inp["lam"])
            if lam == FQ2.zero():
                lam = FQ2.one()
            P = (tuple(inp["x"]), tuple(inp["y"]))
            rep = (FQ2(inp["x"]) * lam, FQ2(inp["y"]) * lam, lam)
            w = tuple(int(v) for v in PC.compress_G2(rep))
            if w != enc2(P):
                return dict(why="compress_G2 differs from the ZCash encoding", observed=[hex(v) for v in w], expected=[hex(v) for v in enc2(P)])
            back = _aff(PC.decompress_G2(w))
            if back != P:
                return dict(why="decompress_G2(compress_G2(P)) != P", observed=back, expected=P)
        elif k == "rt2_special":
            # points whose y has zero imaginary part (y = t real) or zero real part (y = t*i), t above / below (q-1)/2
            found = 0
            for t in [w for v in range(1, 400) for w in (Q - v, v)]:
                for y in ((t % Q, 0), (0, t % Q)):
                    y2 = f2mul(y, y)
                    v = ((y2[0] - 4) % Q, (y2[1] - 4) % Q)        # x^3 = y^2 - b2
                    # cube root in F_q2 when it exists: q^2 - 1 = 0 mod 9? use exponent inverse when gcd(3, (q^2-1)/3^k)..: brute via pow
                    e = (Q * Q - 1)
                    if e % 3:
                        continue
                    # v^((q^2-1)/3) == 1  <=> cube
                    def f2pow(a, n):
                        r = (1, 0)
                        while n:
                            if n & 1:
                                r = f2mul(r, a)
                            a = f2mul(a, a)
                            n >>= 1
                        return r
                    if f2pow(v, e // 3) != (1, 0):
                        continue
                    # 3-adic valuation of q^2-1 is s; take cube root by x = v^((2*(q^2-1)/3^s ... ) simple: try x = v^(inv3 mod m) * roots
                    s, m = 0, e
                    while m % 3 == 0:
                        m //= 3
                        s += 1
                    x = f2pow(v, pow(3, -1, m))
                    # adjust by 3^s-th roots of unity
                    g = None
                    for cand in range(2, 50):
                        gg = f2pow((cand, 1), m)
                        if f2pow(gg, 3 ** (s - 1)) != (1, 0):
                            g = gg
                            break
                    ok = None
                    z = (1, 0)
                    for _ in range(3 ** s):
                        xx = f2mul(x, z)
                        if f2mul(f2mul(xx, xx), xx) == v:
                            ok = xx
                            break
                        z = f2mul(z, g)
                    if ok is None:
                        continue
                    found += 1
                    P = (ok, y)
                    rep = _g2(P)
                    if not is_on_curve(rep, b2):
                        continue
                    w = tuple(int(c) for c in PC.compress_G2(rep))
                    if w != enc2(P):
                        return dict(why="compress_G2 differs from the ZCash encoding for y with a zero component (sign = larger y)",
                                    observed=[hex(c) for c in w], expected=[hex(c) for c in enc2(P)], point=[list(ok), list(y)])
                    back = _aff(PC.decompress_G2(w))
                    if back != P:
                        return dict(why="decompress_G2(compress_G2(P)) != P for y with a zero component", observed=back, expected=P)
                    if found >= 10:
                        return None
        elif k == "sigbytes":
            from py_ecc.bls.g2_primitives import signature_to_G2
            z1, z2 = inp["z1"], inp["z2"]
            bs = z1.to_bytes(48, "big") + z2.to_bytes(48, "big")
            want = dec2(z1, z2)
            try:
                got = _aff(signature_to_G2(bs))
            except ValueError:
                got = "refuse"
            if got != want:
                return dict(why="signature_to_G2 accepts a non-canonical 96-byte string (flag bits / excess in the second half)",
                            observed=str(got)[:80], expected=str(want)[:80], signature=bs.hex())
        elif k == "rt2inf":
            from py_ecc.optimized_bls12_381 import Z2
            if tuple(int(v) for v in PC.compress_G2(Z2)) != (P383 + P382, 0):
                return dict(why="compress_G2(infinity)")
            if _aff(PC.decompress_G2((P383 + P382, 0))) is not None:
                return dict(why="decompress_G2(infinity word)")
        return None
