"""concrete family for the BLS ciphersuites (C01-C04, C09): verdicts and byte strings compared with a group-level oracle
built from the low-level primitives (which have their own contracts), on the candidate classes of the properties'
quantifiers; a recording wrapper around `pairing` checks that nothing outside the prime-order subgroups is ever paired."""
from __future__ import annotations

from families import family, monitor

R = 52435875175126190479447740508185965837690552500527637822603658699938581184513
Q = 0x1a0111ea397fe69a4b1ba7b6434bacd764774b84f38512bf6730d2a0f6b0f6241eabfffeb153ffffb9feffffffffaaab
TAGS = {"G2Basic": b"BLS_SIG_BLS12381G2_XMD:SHA-256_SSWU_RO_NUL_", "G2MessageAugmentation": b"BLS_SIG_BLS12381G2_XMD:SHA-256_SSWU_RO_AUG_",
        "G2ProofOfPossession": b"BLS_SIG_BLS12381G2_XMD:SHA-256_SSWU_RO_POP_"}
POP_TAG = b"BLS_POP_BLS12381G2_XMD:SHA-256_SSWU_RO_POP_"


def suite(name):
    import py_ecc.bls as B
    return getattr(B, name)


def oracle_pk(sk):
    from py_ecc.optimized_bls12_381 import G1, multiply
    from py_ecc.bls.point_compression import compress_G1
    return int(compress_G1(multiply(G1, sk))).to_bytes(48, "big")


def oracle_sig(sk, mprime, tag):
    from hashlib import sha256
    from py_ecc.optimized_bls12_381 import multiply
    from py_ecc.bls.hash_to_curve import hash_to_G2
    from py_ecc.bls.point_compression import compress_G2
    z1, z2 = compress_G2(multiply(hash_to_G2(mprime, tag, sha256), sk))
    return int(z1).to_bytes(48, "big") + int(z2).to_bytes(48, "big")


def mprime(sname, pk, m):
    return pk + m if sname == "G2MessageAugmentation" else m


def in_sub(pt):
    from py_ecc.optimized_bls12_381 import multiply, is_inf
    return is_inf(multiply(pt, R))


class PairingSpy:
    """records every argument pair reaching pairing() from ciphersuites.py and whether it is a subgroup point"""

    def __enter__(self):
        import py_ecc.bls.ciphersuites as C
        self.C = C
        self.orig = C.pairing
        self.bad = []

        def spy(Qp, Pp, final_exponentiate=True):
            from py_ecc.optimized_bls12_381 import is_on_curve, b, b2
            if not (is_on_curve(Qp, b2) and in_sub(Qp)) or not (is_on_curve(Pp, b) and in_sub(Pp)):
                self.bad.append("pairing evaluated on a point off the curve or outside the prime-order subgroup")
            return self.orig(Qp, Pp, final_exponentiate=final_exponentiate)
        C.pairing = spy
        return self

    def __exit__(self, *a):
        self.C.pairing = self.orig


def g1_nonsub(rng):
    while True:
        x = rng.randrange(Q)
        rhs = (x ** 3 + 4) % Q
        y = pow(rhs, (Q + 1) // 4, Q)
        if y * y % Q == rhs:
            z = x + (1 if 2 * y >= Q else 0) * 2 ** 381 + 2 ** 383
            return z.to_bytes(48, "big")


def g2_torsion_sig(rng):
    """a canonical encoding of a twist point outside the subgroup"""
    from py_ecc.bls.point_compression import modular_squareroot_in_FQ2, compress_G2
    from py_ecc.optimized_bls12_381 import FQ2, b2
    while True:
        x = FQ2([rng.randrange(Q), rng.randrange(Q)])
        y = modular_squareroot_in_FQ2(x ** 3 + b2)
        if y is not None:
            pt = (x, y, FQ2.one())
            z1, z2 = compress_G2(pt)
            return pt, int(z1).to_bytes(48, "big") + int(z2).to_bytes(48, "big")


@family("py_ecc.bls.ciphersuites.")
class BlsFamily:
    def gen(self, fn, rng, hint):
        rb = lambda n: bytes(rng.randrange(256) for _ in range(n))
        parts = fn.split(".")
        meth = parts[-1].split("[")[0].split("/")[0]
        sname = parts[-2] if parts[-2] in TAGS else "G2Basic"
        suites = [sname] if parts[-2] in TAGS else list(TAGS)
        sks = [1, 2, R - 1, R - 2, rng.randrange(1, R)]
        if meth in ("SkToPk", "Sign", "PopProve", "_CoreSign", "_is_valid_privkey", "KeyGen"):
            for s_ in suites:
                for sk in sks + [0, R, R + 1, -1, 2 ** 255, 2 ** 255 - 1, "str", 1.0, None]:
                    yield dict(kind="sign", suite=s_, sk=sk if isinstance(sk, (int, type(None))) else repr(sk), m=rb(rng.choice([0, 1, 55, 64, 300])).hex())
                sk = rng.randrange(1, R)
                yield dict(kind="sign_aug_prefix", suite=s_, sk=sk, m=rb(5).hex())
                yield dict(kind="sign_history", suite=s_, sk=sk)
        if meth in ("KeyValidate", "_is_valid_pubkey", "Verify", "PopVerify", "_CoreVerify"):
            yield dict(kind="sign_history", suite="G2ProofOfPossession", sk=rng.randrange(1, R))
            for s_ in suites:
                yield dict(kind="keys", suite=s_, sk=rng.randrange(1, R), extra=[rb(1).hex(), rb(3).hex()])
            for s_ in suites:
                yield dict(kind="verify", suite=s_, sk=rng.randrange(2, R - 1), m=rb(rng.choice([0, 5, 64])).hex(), seed=rng.randrange(10 ** 9))
        if meth in ("Aggregate", "AggregateVerify", "_CoreAggregateVerify", "FastAggregateVerify", "_AggregatePKs"):
            for s_ in suites:
                for n in (1, 2, 3):
                    yield dict(kind="aggregate", suite=s_, sks=[rng.randrange(1, R) for _ in range(n)], seed=rng.randrange(10 ** 9))

    def check(self, fn, inp):
        import random
        k = inp["kind"]
        S = suite(inp["suite"])
        sname = inp["suite"]
        tag = TAGS[sname]
        from eth_utils import ValidationError
        if k == "sign":
            sk = inp["sk"]
            if isinstance(sk, str):
                sk = eval(sk)
            m = bytes.fromhex(inp["m"])
            valid = isinstance(sk, int) and not isinstance(sk, bool) and 1 <= sk < R
            calls = [("SkToPk", lambda: S.SkToPk(sk)), ("Sign", lambda: S.Sign(sk, m))]
            if sname == "G2ProofOfPossession":
                calls.append(("PopProve", lambda: S.PopProve(sk)))
            for nm, f in calls:
                try:
                    got = f()
                except ValidationError:
                    got = "refuse"
                except Exception as e:
                    return dict(why=f"{nm} raised {type(e).__name__} instead of a validation error", observed=str(e)[:80], sk=repr(sk)[:80])
                if not valid:
                    if got != "refuse":
                        return dict(why=f"{nm} accepted a secret key outside [1, r-1] / of non-integer type", sk=repr(sk)[:80], observed=bytes(got).hex()[:40])
                    continue
                if got == "refuse":
                    return dict(why=f"{nm} refused a valid secret key", sk=sk)
                pk = oracle_pk(sk)
                want = pk if nm == "SkToPk" else (oracle_sig(sk, pk, POP_TAG) if nm == "PopProve" else oracle_sig(sk, mprime(sname, pk, m), tag))
                if bytes(got) != want:
                    return dict(why=f"{nm} output differs from the bytes mandated by the draft-v4 suite", observed=bytes(got).hex()[:64], expected=want.hex()[:64])
            if valid:
                pk, sg = S.SkToPk(sk), S.Sign(sk, m)
                if S.Verify(pk, m, sg) is not True:
                    return dict(why="honest signature does not verify", sk=sk)
                if sname == "G2ProofOfPossession" and S.PopVerify(pk, S.PopProve(sk)) is not True:
                    return dict(why="honest possession proof does not verify", sk=sk)
        elif k == "sign_aug_prefix":
            sk, m = inp["sk"], bytes.fromhex(inp["m"])
            pk = oracle_pk(sk)
            for msg in (pk + m, pk, m):
                got = bytes(S.Sign(sk, msg))
                want = oracle_sig(sk, mprime(sname, pk, msg), tag)
                if got != want:
                    return dict(why="Sign differs from the mandated bytes for a message that starts with the signer's own public key",
                                observed=got.hex()[:64], expected=want.hex()[:64])
        elif k == "sign_history":
            # the same byte string under different tags / suites in one process, in both orders
            import py_ecc.bls as B
            sk = inp["sk"]
            pk = oracle_pk(sk)
            P_ = B.G2ProofOfPossession
            seq = [("Sign", lambda: P_.Sign(sk, pk), oracle_sig(sk, pk, TAGS["G2ProofOfPossession"])),
                   ("PopProve", lambda: P_.PopProve(sk), oracle_sig(sk, pk, POP_TAG)),
                   ("Sign", lambda: P_.Sign(sk, pk), oracle_sig(sk, pk, TAGS["G2ProofOfPossession"])),
                   ("Basic.Sign", lambda: B.G2Basic.Sign(sk, pk), oracle_sig(sk, pk, TAGS["G2Basic"]))]
            for nm, f, want in seq:
                if bytes(f()) != want:
                    return dict(why=f"{nm} depends on call history (same bytes used under another tag before)", expected=want.hex()[:64])
            sg_basic = B.G2Basic.Sign(sk, b"m")
            if P_.Verify(pk, b"m", sg_basic) is not False:
                return dict(why="a signature made under another suite's tag verifies")
            if P_.Verify(pk, pk, P_.PopProve(sk)) is not False or P_.PopVerify(pk, P_.Sign(sk, pk)) is not False:
                return dict(why="a possession proof is accepted as a message signature (or vice versa)")
            # one message signed and verified honestly under every suite, in sequence, in one process
            m1 = b"the same message"
            for sn in ("G2Basic", "G2ProofOfPossession", "G2MessageAugmentation", "G2Basic"):
                S_ = getattr(B, sn)
                if S_.Verify(pk, m1, S_.Sign(sk, m1)) is not True:
                    return dict(why=f"honest signature does not verify in {sn} after the same message was used under another suite's tag")
            if P_.Verify(pk, pk, P_.Sign(sk, pk)) is not True or P_.PopVerify(pk, P_.PopProve(sk)) is not True:
                return dict(why="honest signature / possession proof on the key bytes does not verify (history dependence)")
            if B.G2MessageAugmentation.Verify(pk, b"", B.G2MessageAugmentation.Sign(sk, b"")) is not True:
                return dict(why="honest AUG signature of the empty message does not verify after PK was used as a message")
            for wrong in (1.0, "1"):
                try:
                    P_.SkToPk(1)
                    P_.SkToPk(wrong)
                    return dict(why="non-integer secret key accepted after an honest call", sk=repr(wrong))
                except ValidationError:
                    pass
                except Exception as e:
                    return dict(why="non-integer secret key: wrong exception", observed=type(e).__name__)
        elif k == "keys":
            rng = random.Random(inp["sk"])
            pk = oracle_pk(inp["sk"])
            cands = [(pk, True), (b"\x00" + pk, False), (pk + b"\x00", False), (pk[:-1], False), (b"", False), (b"\xff" * 48, False),
                     (bytes([0xc0]) + bytes(47), False), (bytes([0xe0]) + bytes(47), False), (bytes(48), False),
                     (g1_nonsub(rng), False), (bytes([pk[0] ^ 0x20]) + pk[1:], None), (bytes([pk[0] & 0x7f]) + pk[1:], False),
                     (bytes([pk[0] | 0x40]) + pk[1:], False), (bytes.fromhex(inp["extra"][0]) + pk, False), (pk + pk, False)]
            with PairingSpy() as spy:
                for c, want in cands:
                    try:
                        got = S.KeyValidate(c)
                    except Exception as e:
                        return dict(why="KeyValidate raised", observed=f"{type(e).__name__}: {e}", key=c.hex()[:100])
                    if not isinstance(got, bool):
                        return dict(why="KeyValidate did not return a bool", observed=repr(got))
                    if want is None:
                        want = (c == oracle_pk(R - inp["sk"]))          # flipped sign bit: the negated key, valid
                        want = True
                    if got != want:
                        return dict(why="KeyValidate verdict wrong (canonical 48-byte non-identity subgroup encodings only)", observed=got,
                                    expected=want, key=c.hex()[:100])
                    # the same candidates as keys in Verify: never raise, False unless valid
                    if want is False:
                        try:
                            v = S.Verify(c, b"msg", bytes([0xc0]) + bytes(95))
                        except Exception as e:
                            return dict(why="Verify raised on a malformed key", observed=f"{type(e).__name__}: {e}", key=c.hex()[:100])
                        if v is not False:
                            return dict(why="Verify accepted a malformed/unsafe key", key=c.hex()[:100])
                if spy.bad:
                    return dict(why=spy.bad[0])
        elif k == "verify":
            rng = random.Random(inp["seed"])
            sk, m = inp["sk"], bytes.fromhex(inp["m"])
            pk = oracle_pk(sk)
            good = oracle_sig(sk, mprime(sname, pk, m), tag)
            from py_ecc.bls.g2_primitives import signature_to_G2, G2_to_signature
            from py_ecc.optimized_bls12_381 import neg, double, add, Z2
            Spt = signature_to_G2(good)
            Tpt, Tsig = g2_torsion_sig(rng)
            other = [s_ for s_ in TAGS if s_ != sname][0]
            cands = [good, oracle_sig(sk + 1, mprime(sname, pk, m), tag), oracle_sig(sk - 1, mprime(sname, pk, m), tag),
                     oracle_sig(sk, mprime(sname, pk, m + b"x"), tag), oracle_sig(sk, mprime(other, pk, m), TAGS[other]),
                     oracle_sig(sk, mprime(sname, pk, m), POP_TAG), oracle_sig(sk, m, tag), oracle_sig(sk, pk + m, tag),
                     bytes(G2_to_signature(neg(Spt))), bytes(G2_to_signature(double(Spt))), bytes(G2_to_signature(add(Spt, Tpt))), Tsig,
                     bytes([0xc0]) + bytes(95), good[:-1], good + b"\x00", b"\x00" + good, b"", bytes(96)]
            for pos in (0, 1, 47, 48, 49, 95):
                for bit in (0x80, 0x40, 0x20, 0x01):
                    cands.append(good[:pos] + bytes([good[pos] ^ bit]) + good[pos + 1:])
            with PairingSpy() as spy:
                for c in cands:
                    fs = [("Verify", lambda: S.Verify(pk, m, c), c == good)]
                    if sname == "G2ProofOfPossession":
                        fs.append(("PopVerify", lambda: S.PopVerify(pk, c), c == oracle_sig(sk, pk, POP_TAG)))
                    for nm, f, want in fs:
                        try:
                            got = f()
                        except Exception as e:
                            return dict(why=f"{nm} raised", observed=f"{type(e).__name__}: {e}", signature=c.hex()[:200])
                        if got is not want:
                            return dict(why=f"{nm} accepts exactly the canonical signature: wrong verdict", observed=repr(got), expected=want,
                                        signature=c.hex(), canonical=good.hex())
                if sname == "G2ProofOfPossession":
                    pop = oracle_sig(sk, pk, POP_TAG)
                    if S.PopVerify(pk, pop) is not True:
                        return dict(why="PopVerify rejects the canonical proof")
                if spy.bad:
                    return dict(why=spy.bad[0])
        elif k == "aggregate":
            rng = random.Random(inp["seed"])
            sks = inp["sks"]
            n = len(sks)
            pks = [oracle_pk(s_) for s_ in sks]
            msgs = [bytes([i]) + bytes(rng.randrange(256) for _ in range(3)) for i in range(n)]
            sigs = [oracle_sig(s_, mprime(sname, p_, m_), tag) for s_, p_, m_ in zip(sks, pks, msgs)]
            from py_ecc.bls.g2_primitives import signature_to_G2, G2_to_signature
            from py_ecc.optimized_bls12_381 import add, Z2
            acc = Z2
            for s_ in sigs:
                acc = add(acc, signature_to_G2(s_))
            want = bytes(G2_to_signature(acc))
            for order in (sigs, sigs[::-1]):
                if bytes(S.Aggregate(order)) != want:
                    return dict(why="Aggregate is not the compressed group sum (order independence)")
            if n >= 1:
                dbl = bytes(G2_to_signature(add(signature_to_G2(sigs[0]), signature_to_G2(sigs[0]))))
                if bytes(S.Aggregate([sigs[0], sigs[0]])) != dbl:
                    return dict(why="Aggregate([s, s]) is not 2.s (repeated entries must be added twice)")
            for badl in ([], [sigs[0][:-1]], [sigs[0], b""]):
                try:
                    S.Aggregate(badl)
                    return dict(why="Aggregate accepted an empty list / wrongly sized entry")
                except Exception:
                    pass
            agg = want
            with PairingSpy() as spy:
                def av(P_, M_, s_):
                    try:
                        r_ = S.AggregateVerify(P_, M_, s_)
                    except Exception as e:
                        return f"raised {type(e).__name__}: {e}"
                    return r_
                checks = [("valid triple", av(pks, msgs, agg), True)]
                if n >= 2:
                    checks += [("dropped signer", av(pks[:-1], msgs[:-1], agg), False), ("extra key", av(pks + [pks[0]], msgs, agg), False),
                               ("extra message", av(pks, msgs + [b"zz"], agg), False),
                               ("swapped messages", av(pks, msgs[::-1], agg), False)]
                ident = bytes([0xc0]) + bytes(47)
                checks += [("identity key appended", av(pks + [ident], msgs + [b"never signed"], agg), False),
                           ("identity key replaces a signer", av([ident] + pks[1:], msgs, agg), False),
                           ("substituted message", av(pks, [b"other"] + msgs[1:], agg), False),
                           ("altered aggregate", av(pks, msgs, sigs[0] if n > 1 else bytes(G2_to_signature(add(acc, acc)))), False),
                           ("empty", av([], [], agg), False), ("empty with identity signature", av([], [], bytes([0xc0]) + bytes(95)), False),
                           ("keys without messages", av(pks, [], bytes([0xc0]) + bytes(95)), False),
                           ("malformed key", av([pks[0][:-1]] + pks[1:], msgs, agg), False)]
                if sname == "G2Basic" and n >= 2:
                    same = [msgs[0]] * n
                    sg2 = bytes(S.Aggregate([oracle_sig(s_, same[0], tag) for s_ in sks]))
                    checks.append(("repeated messages in the basic suite", av(pks, same, sg2), False))
                if sname != "G2Basic" and n >= 2:
                    same = [msgs[0]] * n
                    sg2 = bytes(S.Aggregate([oracle_sig(s_, mprime(sname, p_, same[0]), tag) for s_, p_ in zip(sks, pks)]))
                    checks.append(("repeated messages (allowed outside the basic suite)", av(pks, same, sg2), True))
                    # repeated keys
                    pk2, m2 = pks + [pks[0]], msgs + [b"again"]
                    sg3 = bytes(S.Aggregate(sigs + [oracle_sig(sks[0], mprime(sname, pks[0], b"again"), tag)]))
                    checks.append(("repeated key", av(pk2, m2, sg3), True))
                if sname != "G2Basic":
                    # the same (key, message) pair listed twice, and two signers whose keys cancel (sk, r - sk) on one message:
                    # both are genuine aggregates outside the basic suite
                    s0, p0 = sks[0], pks[0]
                    sx, px = (sks[0] * 7 + 3) % R or 5, None
                    px = oracle_pk(sx)
                    tri_p, tri_m = [p0, px, p0], [b"m", b"x", b"m"]
                    tri_s = bytes(S.Aggregate([oracle_sig(k_, mprime(sname, q_, m_), tag) for k_, q_, m_ in zip([s0, sx, s0], tri_p, tri_m)]))
                    checks.append(("the same (key, message) pair twice", av(tri_p, tri_m, tri_s), True))
                    checks.append(("the same (key, message) pair twice, as the whole list", av([p0, p0], [b"m", b"m"],
                                   bytes(S.Aggregate([oracle_sig(s0, mprime(sname, p0, b"m"), tag)] * 2))), True))
                    pn = oracle_pk(R - s0)
                    can_s = bytes(S.Aggregate([oracle_sig(s0, mprime(sname, p0, b"shared"), tag), oracle_sig(R - s0, mprime(sname, pn, b"shared"), tag)]))
                    checks.append(("two signers with cancelling keys on one message", av([p0, pn], [b"shared", b"shared"], can_s), True))
                    checks.append(("three signers, two of them cancelling, one message",
                                   av([p0, px, pn], [b"shared"] * 3, bytes(S.Aggregate([can_s, oracle_sig(sx, mprime(sname, px, b"shared"), tag)]))), True))
                if sname == "G2ProofOfPossession":
                    def fav(P_, m_, s_):
                        try:
                            return S.FastAggregateVerify(P_, m_, s_)
                        except Exception as e:
                            return f"raised {type(e).__name__}: {e}"
                    m0 = b"shared"
                    sgs = [oracle_sig(s_, m0, tag) for s_ in sks]
                    a0 = bytes(S.Aggregate(sgs))
                    # keys that sum to the identity (K1: the verdict is False; it must be a verdict, not an exception)
                    pneg = oracle_pk(R - sks[0])
                    ident_sig = bytes([0xc0]) + bytes(95)
                    canc = bytes(S.Aggregate([oracle_sig(sks[0], m0, tag), oracle_sig(R - sks[0], m0, tag)]))
                    for lab, ks_, sg_ in (("[pk, -pk] with the identity signature", [pks[0], pneg], ident_sig),
                                          ("[pk, -pk] with their aggregate", [pks[0], pneg], canc),
                                          ("[-pk, pk] with another signature", [pneg, pks[0]], sgs[0])):
                        got_ = fav(ks_, m0, sg_)
                        if not isinstance(got_, bool):
                            checks.append((f"fast: keys summing to the identity, {lab}: must return a boolean", got_, False))
                    checks += [("fast: valid", fav(pks, m0, a0), True), ("fast: other message", fav(pks, b"x", a0), False),
                               ("fast: empty", fav([], m0, a0), False), ("fast: malformed key", fav([b"\x00" + pks[0]] + pks[1:], m0, a0), False),
                               ("fast: non-subgroup key", fav([g1_nonsub(rng)] + pks[1:], m0, a0), False)]
                    # two keys outside the subgroup whose cofactor components cancel: a.G + T and b.G - T
                    from py_ecc.optimized_bls12_381 import G1, multiply as mul_, add as add_, neg as neg_, FQ
                    from py_ecc.bls.point_compression import compress_G1, decompress_G1
                    Rpt = decompress_G1(int.from_bytes(g1_nonsub(rng), "big"))
                    T = mul_(Rpt, R)
                    a_, b_ = rng.randrange(1, R), rng.randrange(1, R)
                    ka = int(compress_G1(add_(mul_(G1, a_), T))).to_bytes(48, "big")
                    kb = int(compress_G1(add_(mul_(G1, b_), neg_(T)))).to_bytes(48, "big")
                    sgab = oracle_sig((a_ + b_) % R, m0, tag)
                    checks += [("fast: two non-subgroup keys whose cofactor parts cancel", fav([ka, kb], m0, sgab), False),
                               ("fast: the same, interleaved with a good key", fav([ka, pks[0], kb], m0, bytes(S.Aggregate([sgab, sgs[0]]))), False)]
                    if n >= 2:
                        checks += [("fast: dropped signer", fav(pks[:-1], m0, a0), False), ("fast: duplicated signer", fav(pks + [pks[0]], m0, a0), False),
                                   ("fast: repeated key signed twice", fav(pks + [pks[0]], m0, bytes(S.Aggregate(sgs + [sgs[0]]))), True)]
                for nm, got, want_ in checks:
                    if got is not want_:
                        return dict(why=f"aggregate verification verdict wrong: {nm}", observed=repr(got), expected=want_, n=n)
                if spy.bad:
                    return dict(why=spy.bad[0])
        return None


@monitor("known_K1")
def mon_known_k1(doc, rng):
    """known finding K1 (C03): FastAggregateVerify([pk, -pk], m, identity) is False although the identity IS the sum of the
    two signers' signatures and AggregateVerify on the same data is True (mandated by the IETF draft)"""
    import py_ecc.bls as B
    P_ = B.G2ProofOfPossession
    s_ = 123456789
    pks = [P_.SkToPk(s_), P_.SkToPk(R - s_)]
    m = b"known finding K1"
    sig = P_.Aggregate([P_.Sign(s_, m), P_.Sign(R - s_, m)])
    ident = bytes([0xc0]) + bytes(95)
    rep = (bytes(sig) == ident and P_.FastAggregateVerify(pks, m, sig) is False and P_.AggregateVerify(pks, [m, m], sig) is True)
    return dict(ok=True, reproduced=bool(rep), evaluations=1)
