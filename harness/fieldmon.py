"""bounded stand-ins for the field layer (never counted as proved): FQ12.inv (12-degree sloppy
Euclid, out of reach of the symbolic path enumeration)"""
from __future__ import annotations

import itertools
import random

from families import monitor, family


# ---- tiny polynomial arithmetic over GF(p), coefficient lists low -> high ----------------
def ptrim(a):
    while a and a[-1] == 0:
        a = a[:-1]
    return a


def pmod(a, f, p):
    a = ptrim([x % p for x in a])
    f = ptrim(f)
    inv = pow(f[-1], -1, p)
    while len(a) >= len(f):
        c = a[-1] * inv % p
        sh = len(a) - len(f)
        a = [(x - c * f[i - sh]) % p if i >= sh else x for i, x in enumerate(a)]
        a = ptrim(a)
    return a


def pmulmod(a, b, f, p):
    res = [0] * (len(a) + len(b) - 1 if a and b else 0)
    for i, x in enumerate(a):
        if x:
            for j, y in enumerate(b):
                res[i + j] = (res[i + j] + x * y) % p
    return pmod(res, f, p)


def ppowmod(a, e, f, p):
    r = [1]
    while e:
        if e & 1:
            r = pmulmod(r, a, f, p)
        a = pmulmod(a, a, f, p)
        e >>= 1
    return r


def pgcd(a, b, p):
    a, b = ptrim(a), ptrim(b)
    while b:
        a, b = b, pmod(a, b, p)
    return a


def irreducible(f, p):
    """Rabin's test for a monic f of degree n over GF(p)"""
    n = len(f) - 1
    x = [0, 1]
    for q in {q for q in range(2, n + 1) if n % q == 0 and all(q % r for r in range(2, q))}:
        h = ppowmod(x, p ** (n // q), f, p)
        h = ptrim([(a - b) % p for a, b in itertools.zip_longest(h, x, fillvalue=0)])
        if len(pgcd(f, h, p)) != 1:
            return False
    h = ppowmod(x, p ** n, f, p)
    h = ptrim([(a - b) % p for a, b in itertools.zip_longest(h, x, fillvalue=0)])
    return not h


def find_irreducible(p, d, rng, k):
    out = []
    tries = 0
    while len(out) < k and tries < 5000:
        tries += 1
        f = [rng.randrange(p) for _ in range(d)] + [1]
        if f[0] and irreducible(f, p) and f not in out:
            out.append(f)
    return out


def make_classes(p, mods, optimized):
    if optimized:
        from py_ecc.fields.optimized_field_elements import FQ12 as B
    else:
        from py_ecc.fields.field_elements import FQ12 as B
    return type(f"F{p}_12", (B,), {"field_modulus": p, "FQ12_MODULUS_COEFFS": tuple(mods)})


def check_inv(cls, coeffs):
    x = cls(coeffs)
    one, zero = cls.one(), cls.zero()
    y = x.inv()
    if x == zero:
        return None if y == zero else dict(why="inv(0) != 0", observed=repr(y))
    if not x * y == one:
        return dict(why="x * inv(x) != 1", observed=repr(x * y), expected="one")
    if any(not (0 <= int(c) < cls.field_modulus) for c in y.coeffs):
        return dict(why="inverse not stored reduced", observed=repr(y))
    return None


@monitor("fq12_inv")
def mon_fq12_inv(doc, rng):
    thorough = doc.get("tier") == "thorough"
    evals = 0
    distinct = set()
    cases = []
    for optimized in (False, True):
        for p, nmod, nelem in ((2, 2 if not thorough else 3, None), (3, 2, 400 if not thorough else 3000),
                               (5, 1, 200), (7, 1, 200)):
            for f in find_irreducible(p, 12, rng, nmod):
                cls = make_classes(p, f[:12], optimized)
                if nelem is None:
                    elems = itertools.product(range(p), repeat=12) if (thorough or not optimized is None) else []
                    if not thorough:
                        elems = (tuple(rng.randrange(p) for _ in range(12)) for _ in range(600))
                else:
                    elems = (tuple(rng.randrange(p) for _ in range(12)) for _ in range(nelem))
                for e in elems:
                    evals += 1
                    distinct.add((optimized, p, tuple(f), e))
                    bad = check_inv(cls, list(e))
                    if bad:
                        return dict(ok=False, evaluations=evals, failure=dict(function="FQ12.inv", optimized=optimized, p=p,
                                                                             modulus=f[:12], element=list(e), **bad))
                # structured elements
                for i in range(12):
                    for v in (1, p - 1):
                        e = [0] * 12
                        e[i] = v
                        evals += 1
                        bad = check_inv(cls, e)
                        if bad:
                            return dict(ok=False, evaluations=evals, failure=dict(function="FQ12.inv", optimized=optimized, p=p,
                                                                                 modulus=f[:12], element=e, **bad))
    # the four real degree-12 fields
    import py_ecc.fields as F
    for cls in (F.bn128_FQ12, F.bls12_381_FQ12, F.optimized_bn128_FQ12, F.optimized_bls12_381_FQ12):
        p = cls.field_modulus
        elems = [[0] * 12, [1] + [0] * 11, [p - 1] * 12, [0] * 11 + [1], [0] * 6 + [1] + [0] * 5]
        for _ in range(6 if not thorough else 40):
            elems.append([rng.randrange(p) for _ in range(12)])
            e = [0] * 12
            e[rng.randrange(12)] = rng.randrange(p)
            e[rng.randrange(12)] = rng.randrange(p)
            elems.append(e)
        for e in elems:
            evals += 1
            distinct.add((cls.__name__, tuple(e)))
            bad = check_inv(cls, e)
            if bad:
                return dict(ok=False, evaluations=evals, failure=dict(function="FQ12.inv", cls=cls.__name__, element=e, **bad))
    return dict(ok=True, evaluations=evals, distinct=len(distinct),
                bound="GF(2^12) x2-3 moduli sampled/exhaustive, GF(3^12) x2, GF(5^12), GF(7^12) sampled, both files; "
                      "zero/one/sparse/dense/random elements of the four real degree-12 fields")


# ------------------------------------------------------------------------------------------
# differential family for the field classes (refuter for C08 / C14 obligations)
# ------------------------------------------------------------------------------------------
def _pad(a, d, p):
    a = [x % p for x in a]
    return a + [0] * (d - len(a))


def model_op(op, p, f, x, y, d):
    """independent arithmetic in GF(p)[w]/(f); x, y coefficient lists (y may be an int scalar or exponent)"""
    if op == "add":
        return _pad([(a + b) % p for a, b in zip(x, y)], d, p)
    if op == "sub":
        return _pad([(a - b) % p for a, b in zip(x, y)], d, p)
    if op == "neg":
        return _pad([(-a) % p for a in x], d, p)
    if op == "mul":
        return _pad(pmulmod(x, y, f, p), d, p)
    if op == "smul":
        return _pad([a * y % p for a in x], d, p)
    if op == "sdiv":
        yi = pow(y % p, p - 2, p) if y % p else 0
        return _pad([a * yi % p for a in x], d, p)
    if op == "inv":
        if not any(c % p for c in x):
            return [0] * d
        return _pad(ppowmod(x, p ** d - 2, f, p), d, p)
    if op == "div":
        return _pad(pmulmod(x, model_op("inv", p, f, y, None, d), f, p), d, p)
    if op == "pow":
        return _pad(ppowmod(x, y, f, p), d, p)
    raise KeyError(op)


def rfc_sgn0(xs):
    sign, zero = 0, 1
    for x in xs:
        sign_i = x % 2
        zero_i = 1 if x == 0 else 0
        sign = sign | (zero & sign_i)
        zero = zero & zero_i
    return sign


def field_classes(p, d, mods, optimized):
    import py_ecc.fields.field_elements as R
    import py_ecc.fields.optimized_field_elements as O
    M = O if optimized else R
    if d == 1:
        return type(f"T_FQ_{p}", (M.FQ,), {"field_modulus": p})
    base = {2: M.FQ2, 12: M.FQ12}[d]
    return type(f"T_FQ{d}_{p}", (base,), {"field_modulus": p, f"FQ{d}_MODULUS_COEFFS": tuple(mods)})


REAL = {"bn128": 21888242871839275222246405745257275088696311157297823662689037894645226208583,
        "bls12_381": 4002409555221667393417789825735904156556882819939007885332058136124031650490837864442687629129015664037894272559787}
REAL_MODS = {("bn128", 2): [1, 0], ("bn128", 12): [82, 0, 0, 0, 0, 0, -18, 0, 0, 0, 0, 0],
             ("bls12_381", 2): [1, 0], ("bls12_381", 12): [2, 0, 0, 0, 0, 0, -2, 0, 0, 0, 0, 0]}


@family("py_ecc.fields.", "py_ecc.utils.")
class FieldFamily:
    def gen(self, fn, rng, hint):
        optimized = "optimized_field_elements" in fn
        files = [optimized] if ("field_elements" in fn) else [False, True]
        small2 = {7: [[1, 0], [2, 0], [4, 1]], 3: [[1, 0], [2, 1]], 11: [[1, 0]], 2: [[1, 1]]}
        irr12 = {p: find_irreducible(p, 12, random.Random(5), 2) for p in (3, 7)}
        for opt in files:
            # prime fields
            for p in (2, 3, 7, 11, REAL["bn128"], REAL["bls12_381"]):
                xs = [0, 1, 2, p - 1, rng.randrange(p), rng.randrange(p)]
                ks = [0, 1, -1, 2, p, 2 * p, -p, 3 * p, p + 1, p - 1, rng.randrange(p), -rng.randrange(10 ** 40), rng.randrange(p ** 3)]
                es = [0, 1, 2, 3, p - 1, p, p + 1, 2 * (p - 1), 3 * (p - 1), p * p - 1, rng.randrange(p ** 2)]
                for x in xs:
                    for k in ks[: (len(ks) if x in (1, 2, p - 1) else 5)]:
                        yield dict(opt=opt, p=p, d=1, mods=[], seq=[["intops", [x], k]])
                    for e in es:
                        yield dict(opt=opt, p=p, d=1, mods=[], seq=[["pow", [x], e]])
                    for y in xs:
                        yield dict(opt=opt, p=p, d=1, mods=[], seq=[["binops", [x], [y]]])
                    if opt:
                        yield dict(opt=opt, p=p, d=1, mods=[], seq=[["sgn0", [x], None]])
            # quadratic extensions over small primes: several moduli over the same prime, interleaved
            for p, modlist in small2.items():
                for m1 in modlist:
                    for m2 in modlist:
                        for _ in range(3):
                            x = [rng.randrange(p), rng.randrange(p)]
                            y = [rng.randrange(p), rng.randrange(p)]
                            for op in ("binops", "inv", "pow"):
                                arg = y if op == "binops" else (rng.choice([0, 1, 2, p * p - 1, p * p, 2 * (p * p - 1), 37]) if op == "pow" else None)
                                yield dict(opt=opt, p=p, d=2, mods=None, seq=[[op, x, arg, m1], [op, x, arg, m2]])
                        yield dict(opt=opt, p=p, d=2, mods=None, seq=[["inv", [0, 1], None, m1], ["inv", [0, 1], None, m2]])
                        yield dict(opt=opt, p=p, d=2, mods=None, seq=[["inv", [0, 0], None, m1], ["intops", [1, 1], 0, m1], ["intops", [0, 1], p, m2],
                                                                      ["intops", [1, 0], 2 * p, m1], ["intops", [1, 1], -1, m2]])
            # history: a failing mixed-degree operation, then ordinary arithmetic of both degrees
            for cname, p in list(REAL.items()) + [("small", 7)]:
                m2 = REAL_MODS[(cname, 2)] if cname != "small" else small2[7][2]
                m12 = REAL_MODS[(cname, 12)] if cname != "small" else irr12[7][0][:12]
                x2, y2 = [rng.randrange(1, p), rng.randrange(1, p)], [rng.randrange(1, p), rng.randrange(1, p)]
                x12 = [rng.randrange(1, p) for _ in range(12)]
                yield dict(opt=opt, p=p, d=2, mods=m2, seq=[["binops", x2, y2], ["mixed_fail", x2, x12, m2, m12], ["binops", x2, y2], ["binops", y2, x2]])
            # classes derived from a used field class with another modulus
            for p, modlist in small2.items():
                if len(modlist) > 1:
                    for _ in range(2):
                        x = [rng.randrange(p), rng.randrange(1, p)]
                        y = [rng.randrange(1, p), rng.randrange(p)]
                        yield dict(opt=opt, p=p, d=2, mods=modlist[0], seq=[["derived", x, y, modlist[0], modlist[-1]]])
            for p, fs in irr12.items():
                if len(fs) > 1:
                    x = [rng.randrange(p) for _ in range(12)]
                    y = [rng.randrange(p) for _ in range(12)]
                    yield dict(opt=opt, p=p, d=12, mods=fs[0][:12], seq=[["derived", x, y, fs[0][:12], fs[1][:12]]])
            # degree 12 over small primes and the real fields
            for p, fs in irr12.items():
                for f in fs:
                    for _ in range(3):
                        x = [rng.randrange(p) for _ in range(12)]
                        y = [rng.randrange(p) for _ in range(12)]
                        yield dict(opt=opt, p=p, d=12, mods=f[:12], seq=[["binops", x, y], ["inv", x, None], ["pow", x, rng.randrange(p ** 12)]])
                    if opt:
                        for e in ([2, 0, 1] + [0] * 9, [0, 0, 2, 0, 0, 1] + [0] * 6, [0] * 12, [0] * 11 + [1], [2] + [0] * 10 + [1]):
                            yield dict(opt=opt, p=p, d=12, mods=f[:12], seq=[["sgn0", [c % p for c in e], None]])
            if opt:
                for p in (7, REAL["bn128"], REAL["bls12_381"]):
                    for d in (2, 12):
                        cname = "bn128" if p != REAL["bls12_381"] else "bls12_381"
                        mods = (small2[7][2] if d == 2 else irr12[7][0][:12]) if p == 7 else REAL_MODS[(cname, d)]
                        for _ in range(2):
                            yield dict(opt=True, p=p, d=d, mods=mods, seq=[["fqcoeffs", [rng.randrange(p) for _ in range(d)], [rng.randrange(1, p) for _ in range(d)]]])
                        yield dict(opt=True, p=p, d=d, mods=mods, seq=[["fqcoeffs", [1] + [0] * (d - 1), [0] * (d - 1) + [1]]])
                        # zero leading coefficients held as (truthy) FQ objects; the zero element; x / x and 0 / 0
                        yield dict(opt=True, p=p, d=d, mods=mods, seq=[["fqcoeffs", [0, 1] + [0] * (d - 2), [0] * (d - 1) + [3]]])
                        yield dict(opt=True, p=p, d=d, mods=mods, seq=[["fqcoeffs", [0] * d, [0] * d], ["fqcoeffs", [0, 2] + [1] * (d - 2), [0, 2] + [1] * (d - 2)]])
            # powers of the constants 0 and 1 (and of sparse elements) with exponents 0, 1, 2
            for p in (3, 7, REAL["bn128"]):
                for d in (1, 2, 12):
                    mods = [] if d == 1 else ((small2[p][0] if p in small2 else REAL_MODS[("bn128", 2)]) if d == 2 else
                                              (irr12[p][0][:12] if p in irr12 else REAL_MODS[("bn128", 12)]))
                    for x in ([0] * d, [1] + [0] * (d - 1), [0] * (d - 1) + [1], [p - 1] + [0] * (d - 1)):
                        yield dict(opt=opt, p=p, d=d, mods=mods, seq=[["pow", x, e] for e in (0, 1, 2, 3)])
            # elements built from unreduced representatives (p itself, multiples, negatives); aliasing; sgn0 after arithmetic
            for cname, p in list(REAL.items()) + [("small", 7)]:
                for d in (1, 2, 12):
                    mods = REAL_MODS[(cname, d)] if (cname != "small" and d > 1) else ([] if d == 1 else (small2[7][2] if d == 2 else irr12[7][0][:12]))
                    reps = [[p] + [1] * (d - 1), [0] * (d - 1) + [p], [p + 1] + [2 * p] * (d - 1), [-p] + [-1] * (d - 1), [rng.randrange(p)] * d]
                    for x in reps:
                        y = [rng.randrange(p) for _ in range(d)]
                        seq = [["construct", x, None], ["alias", x, y]]
                        if opt:
                            seq.append(["sgn0_history", x, y])
                        yield dict(opt=opt, p=p, d=d, mods=mods, seq=seq)
            for cname, p in REAL.items():
                for d in (2, 12):
                    mods = REAL_MODS[(cname, d)]
                    for _ in range(2):
                        x = [rng.randrange(p) for _ in range(d)]
                        y = [rng.randrange(p) for _ in range(d)]
                        seq = [["binops", x, y], ["intops", x, rng.choice([0, 1, p, 2 * p, -p, rng.randrange(p)])],
                               ["pow", x, rng.choice([0, 1, 2, 5, p, p - 1])]]
                        if d == 2:
                            seq.append(["inv", x, None])
                        if opt:
                            seq.append(["sgn0", x, None])
                            seq.append(["sgn0", [2, 0, 1] + [0] * (d - 3) if d == 12 else [0, 1], None])
                        yield dict(opt=opt, p=p, d=d, mods=mods, seq=seq)

    def check(self, fn, inp):
        p, d, opt = inp["p"], inp["d"], inp["opt"]
        for step in inp["seq"]:
            op, x, arg = step[0], step[1], step[2]
            mods = step[3] if len(step) > 3 else inp["mods"]
            f = [m % p for m in mods] + [1] if d > 1 else [0, 1]
            cls = field_classes(p, d, mods, opt)
            X = cls(x[0]) if d == 1 else cls(list(x))

            def coeffs(v):
                if d == 1:
                    return [int(v.n)]
                return [int(c) for c in v.coeffs]

            def expect(label, got, want):
                if not (type(got) is cls):
                    return dict(why=f"{label}: result is not of type(self)", observed=repr(type(got)))
                if coeffs(got) != want:
                    return dict(why=f"{label} over GF({p})" + (f"[w]/{mods}" if d > 1 else "") + " differs from the field operation",
                                observed=coeffs(got), expected=want, step=step)
                return None
            try:
                if op == "mixed_fail":
                    # an operation that fails half-way (operands of different extension degrees) must leave nothing behind: the
                    # following steps of this sequence check ordinary products of the same degree
                    c12 = field_classes(p, 12, step[4], opt)
                    for a_, b_ in ((X, c12(list(arg))), (c12(list(arg)), X)):
                        for f_ in (lambda u, v: u * v, lambda u, v: u + v, lambda u, v: u / v):
                            try:
                                f_(a_, b_)
                            except Exception:
                                pass
                    continue
                if op == "derived":
                    # a field class derived from an already *used* field class, overriding the modulus ("any other modulus they are
                    # instantiated with"): parent first, then the child, then the parent again
                    m_par, m_child = step[3], step[4]
                    par = field_classes(p, d, m_par, opt)
                    child = type(f"T_child_FQ{d}_{p}", (par,), {f"FQ{d}_MODULUS_COEFFS": tuple(m_child)})
                    for klass, mm in ((par, m_par), (child, m_child), (par, m_par), (child, m_child)):
                        ff = [m % p for m in mm] + [1]
                        a_, b_ = klass(list(x)), klass(list(arg))
                        for label, got, want in (("x * y", a_ * b_, model_op("mul", p, ff, x, arg, d)),
                                                 ("x + y", a_ + b_, model_op("add", p, ff, x, arg, d))) + \
                                ((("x / y", a_ / b_, model_op("div", p, ff, x, arg, d)),) if d == 2 else ()):
                            if not (type(got) is klass) or [int(c) for c in got.coeffs] != want:
                                return dict(why=f"{label} over GF({p})[w]/{list(mm)} in a class derived from a used field class differs from the field operation",
                                            observed=[int(c) for c in got.coeffs], expected=want, step=step)
                    continue
                if op == "binops":
                    Y = cls(arg[0]) if d == 1 else cls(list(arg))
                    for label, got, want in (("x + y", X + Y, model_op("add", p, f, x, arg, d)),
                                             ("x - y", X - Y, model_op("sub", p, f, x, arg, d)),
                                             ("x * y", X * Y, model_op("mul", p, f, x, arg, d)),
                                             ("-x", -X, model_op("neg", p, f, x, None, d))):
                        bad = expect(label, got, want)
                        if bad:
                            return bad
                    if d in (1, 2):
                        bad = expect("x / y", X / Y, model_op("div", p, f, x, arg, d))
                        if bad:
                            return bad
                    if (X == Y) != ([c % p for c in x] == [c % p for c in arg]):
                        return dict(why="== is not value equality", observed=bool(X == Y))
                elif op == "intops":
                    k = arg
                    tests = [("x * k", X * k, model_op("smul", p, f, x, k, d)), ("k * x", k * X, model_op("smul", p, f, x, k, d)),
                             ("x / k", X / k, model_op("sdiv", p, f, x, k, d))]
                    if d == 1:
                        tests += [("x + k", X + k, [(x[0] + k) % p]), ("k + x", k + X, [(x[0] + k) % p]),
                                  ("x - k", X - k, [(x[0] - k) % p]), ("k - x", k - X, [(k - x[0]) % p]),
                                  ("k / x", k / X, [k * (pow(x[0], p - 2, p) if x[0] % p else 0) % p])]
                    for label, got, want in tests:
                        bad = expect(label + f" (k = {k})", got, want)
                        if bad:
                            return bad
                    if d == 1:
                        # comparisons with an int operand: the canonical representative against the integer AS GIVEN (both files)
                        n_ = x[0] % p
                        cmp = [("x == k", X == k, n_ == k), ("x != k", X != k, n_ != k), ("x < k", X < k, n_ < k), ("x <= k", X <= k, n_ <= k),
                               ("x > k", X > k, n_ > k), ("x >= k", X >= k, n_ >= k), ("k == x", k == X, n_ == k), ("k < x", k < X, k < n_),
                               ("k >= x", k >= X, k >= n_)]
                        for label, got, want in cmp:
                            if got is not want:
                                return dict(why=f"{label} (k = {k}) over GF({p}): comparison with an int operand is not the comparison of the "
                                                "canonical representative with the integer as given", observed=repr(got), expected=want, step=step)
                elif op == "pow":
                    bad = expect(f"x ** {arg}", X ** arg, model_op("pow", p, f, x, arg, d))
                    if bad:
                        return bad
                elif op == "inv":
                    if d == 1:
                        continue
                    bad = expect("x.inv()", X.inv(), model_op("inv", p, f, x, None, d))
                    if bad:
                        return bad
                elif op == "fqcoeffs":
                    # the optimized classes accept FQ objects as coefficients (IntOrFQ): same values as with plain ints
                    FQc = field_classes(p, 1, [], True)
                    Xf, Yf = cls([FQc(c) for c in x]), cls([FQc(c) for c in arg])
                    Xi, Yi = cls(list(x)), cls(list(arg))
                    k_ = 7
                    trials = [("x + y", lambda a, b: a + b), ("x - y", lambda a, b: a - b), ("x * y", lambda a, b: a * b), ("-x", lambda a, b: -a),
                              ("x * k", lambda a, b: a * k_), ("k * x", lambda a, b: k_ * a), ("x / k", lambda a, b: a / k_),
                              ("x / y", lambda a, b: a / b), ("x.inv()", lambda a, b: a.inv()), ("x ** 5", lambda a, b: a ** 5),
                              ("x * y (mixed)", lambda a, b: a * Yi), ("x + y (mixed)", lambda a, b: Xi + b)]
                    for label, f_ in trials:
                        want = coeffs(f_(Xi, Yi))
                        got = f_(Xf, Yf)
                        if coeffs(got) != want:
                            return dict(why=f"{label} with FQ-object coefficients over GF({p}) differs from the same operation on int coefficients",
                                        observed=coeffs(got), expected=want, step=step)
                    if (Xf == cls([FQc(c) for c in x])) is not True or int(Xf.sgn0) != rfc_sgn0([c % p for c in x]) \
                            or int(Yf.sgn0) != rfc_sgn0([c % p for c in arg]):
                        return dict(why="== / sgn0 with FQ-object coefficients", step=step,
                                    observed=[int(Xf.sgn0), int(Yf.sgn0)], expected=[rfc_sgn0([c % p for c in x]), rfc_sgn0([c % p for c in arg])])
                elif op == "construct":
                    want = [c % p for c in x]
                    if coeffs(X) != want:
                        return dict(why=f"constructor over GF({p}) does not store the canonical representatives", observed=coeffs(X), expected=want, step=step)
                    Z_ = cls(want[0]) if d == 1 else cls(want)
                    if not (X == Z_) or (X != Z_):
                        return dict(why="element built from an unreduced representative differs from the canonical element", observed=coeffs(X), step=step)
                    if opt and int(X.sgn0) != rfc_sgn0(want):
                        return dict(why="sgn0 of an element built from an unreduced representative", observed=int(X.sgn0), expected=rfc_sgn0(want), step=step)
                elif op == "alias":
                    # augmented assignment must rebind, never mutate the object other names refer to
                    Y = cls(arg[0]) if d == 1 else cls(list(arg))
                    before_x, before_y = coeffs(X), coeffs(Y)
                    for label, fn_ in (("+=", lambda a, b: a.__iadd__(b) if hasattr(a, "__iadd__") else a + b),
                                       ("-=", lambda a, b: a.__isub__(b) if hasattr(a, "__isub__") else a - b),
                                       ("*=", lambda a, b: a.__imul__(b) if hasattr(a, "__imul__") else a * b)):
                        acc = X
                        acc = fn_(acc, Y)
                        if coeffs(X) != before_x or coeffs(Y) != before_y:
                            return dict(why=f"`acc {label} y` mutated an operand in place (other references to it see the change)",
                                        observed=[coeffs(X), coeffs(Y)], expected=[before_x, before_y], step=step)
                    if d > 1:
                        Xi = X.inv()
                        if coeffs(X) != before_x:
                            return dict(why="inv() mutated its receiver", observed=coeffs(X), expected=before_x, step=step)
                elif op == "sgn0_history":
                    Y = cls(arg[0]) if d == 1 else cls(list(arg))
                    _ = X.sgn0, Y.sgn0          # fill the caches first
                    for label, R_ in (("x + y", X + Y), ("x - y", X - Y), ("y - x", Y - X), ("-x", -X), ("x * y", X * Y), ("x * 1", X * 1),
                                      ("x * 2", X * 2), ("2 * x", 2 * X), ("x * (p-1)", X * (p - 1)), ("x / 2", X / 2), ("x / (p-1)", X / (p - 1))):
                        if int(R_.sgn0) != rfc_sgn0(coeffs(R_)):
                            return dict(why=f"sgn0({label}) after x.sgn0 was read differs from RFC 9380 (stale cached value)",
                                        observed=int(R_.sgn0), expected=rfc_sgn0(coeffs(R_)), step=step)
                elif op == "sgn0":
                    got = X.sgn0
                    want = rfc_sgn0([c % p for c in x])
                    if int(got) != want:
                        return dict(why="sgn0 differs from RFC 9380 section 4.1", observed=int(got), expected=want, step=step)
            except Exception as e:
                import traceback
                return dict(why="raised", observed=f"{type(e).__name__}: {e}", step=step, tb=traceback.format_exc()[-400:])
        return None


@monitor("known_D2")
def mon_known_d2(doc, rng):
    """known finding D2 (C11): the points (0, +-2) of E(F_p) compress but do not decompress"""
    from py_ecc.bls.point_compression import compress_G1, decompress_G1
    from py_ecc.optimized_bls12_381 import FQ
    p = FQ.field_modulus
    rep = 0
    for y in (2, p - 2):
        pt = (FQ(0), FQ(y), FQ(1))
        z = compress_G1(pt)
        try:
            back = decompress_G1(z)
            if not (back[0] == pt[0] and back[1] == pt[1]):
                rep += 1
        except ValueError:
            rep += 1
    return dict(ok=True, reproduced=(rep == 2), evaluations=2)
