"""Concrete input families and executable contracts (run under /venv/bin/python on the real
code).  Each family: gen(function, rng, hint) yields JSON-able inputs; check(function, input)
returns None when the real function satisfies its contract on that input, else a dict with
`why`, `observed`, `expected`."""
from __future__ import annotations

import importlib
import random

FAMILIES = {}
MONITORS = {}


def family(*prefixes):
    def deco(cls):
        for p in prefixes:
            FAMILIES[p] = cls
        return cls
    return deco


def resolve(qualname):
    parts = qualname.split(".")
    for k in range(len(parts), 0, -1):
        try:
            mod = importlib.import_module(".".join(parts[:k]))
        except ImportError:
            continue
        obj = mod
        try:
            for nm in parts[k:]:
                obj = getattr(obj, nm)
            return obj
        except AttributeError:
            continue
    raise ImportError(qualname)

EVALS = {}


def monitor(name):
    def deco(f):
        MONITORS[name] = f
        return f
    return deco


def evaluator(name):
    def deco(f):
        EVALS[name] = f
        return f
    return deco


def run_monitor(doc, seed):
    f = MONITORS.get(doc.get("name"))
    if f is None:
        return dict(error=f"unknown monitor {doc.get('name')}")
    return f(doc, random.Random(seed))


def run_eval(doc):
    res = {}
    for name in doc.get("names", []):
        f = EVALS.get(name)
        if f is None:
            res[name] = dict(ok=False, detail="unknown closed fact")
            continue
        try:
            r = f()
            if isinstance(r, tuple):
                res[name] = dict(ok=bool(r[0]), detail=str(r[1])[:500])
            else:
                res[name] = dict(ok=bool(r), detail="")
        except Exception as e:
            import traceback
            res[name] = dict(ok=False, detail=traceback.format_exc()[-600:])
    return dict(results=res)


# ------------------------------------------------------------------------------------------
# (de)serialisation of field elements and points
# ------------------------------------------------------------------------------------------
def enc_f(x):
    if hasattr(x, "coeffs"):
        return [int(c) for c in x.coeffs]
    if hasattr(x, "n"):
        return int(x.n)
    return int(x)


def enc_pt(p):
    if p is None:
        return None
    return [enc_f(c) for c in p]


def dec_f(cls_by_len, v):
    if isinstance(v, list):
        return cls_by_len[len(v)](v)
    return cls_by_len[1](v)


# ------------------------------------------------------------------------------------------
# generic affine model over any field class with + - * / and ==  (independent of the curve
# modules; uses only the field classes)
# ------------------------------------------------------------------------------------------
def aff_add(P, Q):
    if P is None:
        return Q
    if Q is None:
        return P
    x1, y1 = P
    x2, y2 = Q
    if x1 == x2 and y1 == -y2:
        return None
    if x1 == x2:
        m = (3 * x1 * x1) / (2 * y1)
        x3 = m * m - 2 * x1
    else:
        m = (y2 - y1) / (x2 - x1)
        x3 = m * m - x1 - x2
    return (x3, -m * x3 + m * x1 - y1)


def aff_neg(P):
    return None if P is None else (P[0], -P[1])


def aff_mul(P, n):
    R = None
    Q = P
    while n > 0:
        if n & 1:
            R = aff_add(R, Q)
        Q = aff_add(Q, Q)
        n >>= 1
    return R


def aff_eq(P, Q):
    if P is None or Q is None:
        return P is None and Q is None
    return P[0] == Q[0] and P[1] == Q[1]


def aff_on(P, b):
    return P is None or P[1] * P[1] == P[0] * P[0] * P[0] + b


# ------------------------------------------------------------------------------------------
# curve module descriptors
# ------------------------------------------------------------------------------------------
class CurveMod:
    def __init__(self, modname):
        self.m = importlib.import_module(modname)
        self.name = modname
        self.optimized = "optimized" in modname
        m = self.m
        self.groups = {"G1": (m.FQ, m.b, m.G1), "G2": (m.FQ2, m.b2, m.G2), "G12": (m.FQ12, m.b12, m.G12)}
        self.cls_by_len = {1: m.FQ, 2: m.FQ2, 12: m.FQ12}

    def one(self, g):
        F = self.groups[g][0]
        return F.one() if hasattr(F, "one") else F(1)

    def zero(self, g):
        F = self.groups[g][0]
        return F.zero() if hasattr(F, "zero") else F(0)

    def rand_f(self, g, rng):
        F = self.groups[g][0]
        p = self.m.field_modulus
        if g == "G1":
            return F(rng.randrange(1, p))
        deg = 2 if g == "G2" else 12
        return F([rng.randrange(p) for _ in range(deg)])

    def gen_affine(self, g, rng):
        """an affine point of the group's curve as a pair of field elements"""
        G = self.groups[g][2]
        if self.optimized:
            x, y, z = G
            A = (x / z, y / z)
        else:
            A = G
        k = rng.choice([1, 2, 3, rng.randrange(1, 2 ** 64), rng.randrange(1, self.m.curve_order)])
        return aff_mul(A, k)

    def to_rep(self, g, A, rng, scale=True):
        """a representative of the affine point A in this module's coordinates"""
        if not self.optimized:
            return A
        if A is None:
            ch = rng.randrange(3)
            if ch == 0:
                return (self.one(g), self.one(g), self.zero(g))
            return (self.rand_f(g, rng), self.rand_f(g, rng), self.zero(g))
        lam = self.rand_f(g, rng) if scale else self.one(g)
        return (A[0] * lam, A[1] * lam, lam)

    def abs(self, rep):
        if not self.optimized:
            return rep
        x, y, z = rep
        if z == self.m.FQ.zero() * 0 + z.__class__.zero():
            return None
        return (x / z, y / z)

    def dec_pt(self, v):
        if v is None:
            return None
        return tuple(dec_f(self.cls_by_len, c) for c in v)


_MODS = {}


def curve_mod(modname):
    if modname not in _MODS:
        _MODS[modname] = CurveMod(modname)
    return _MODS[modname]


def special_points(cm, g, rng):
    """points outside the prime-order subgroup / of small order, where constructible"""
    out = []
    F, b, G = cm.groups[g]
    p = cm.m.field_modulus
    if g == "G1" and "bls12_381" in cm.name:
        out.append((F(0), F(2)))                    # order 3
        # random x with a y on the curve (p = 3 mod 4)
        for _ in range(20):
            x = rng.randrange(p)
            rhs = (x ** 3 + 4) % p
            y = pow(rhs, (p + 1) // 4, p)
            if y * y % p == rhs:
                out.append((F(x), F(y)))
                break
    if g == "G12" and "bls12_381" in cm.name:
        w = cm.m.w
        out.append((w ** 8, w * 0))               # a point with y = 0: (w^8)^3 = -4
    return out


@family("py_ecc.optimized_bls12_381.optimized_curve.", "py_ecc.optimized_bn128.optimized_curve.",
        "py_ecc.bls12_381.bls12_381_curve.", "py_ecc.bn128.bn128_curve.")
class CurveFamily:
    """add / double / neg / eq / is_on_curve / is_inf / normalize / multiply / twist of the four
    curve modules against the independent affine model"""

    def gen(self, fn, rng, hint):
        modname, name = fn.rsplit(".", 1)
        cm = curve_mod(modname)
        groups = ["G1", "G2", "G12"] if name != "twist" else ["G2"]
        for rnd in range(6):
            for g in groups:
                if g == "G12" and rnd > 1:
                    continue
                A = cm.gen_affine(g, rng)
                B = cm.gen_affine(g, rng)
                sp = special_points(cm, g, rng)
                cands = [A, B, None] + sp
                if name in ("add", "eq"):
                    pairs = [(A, B), (A, A), (A, aff_neg(A)), (None, A), (A, None), (None, None)]
                    pairs += [(s, s) for s in sp] + [(s, A) for s in sp] + [(s, aff_neg(s)) for s in sp]
                    for P, Q in pairs:
                        for _ in range(2):
                            yield dict(group=g, args=[enc_pt(cm.to_rep(g, P, rng)), enc_pt(cm.to_rep(g, Q, rng))])
                    if cm.optimized and name == "eq":
                        zero = cm.zero(g)
                        yield dict(group=g, args=[enc_pt((zero, zero, zero)), enc_pt(cm.to_rep(g, A, rng))])
                        yield dict(group=g, args=[enc_pt(cm.to_rep(g, A, rng)), enc_pt((zero, zero, zero))])
                elif name in ("double", "neg", "is_inf", "normalize", "twist"):
                    for P in cands:
                        if name == "normalize" and P is None:
                            continue
                        yield dict(group=g, args=[enc_pt(cm.to_rep(g, P, rng))])
                elif name == "is_on_curve":
                    for P in cands:
                        yield dict(group=g, args=[enc_pt(cm.to_rep(g, P, rng))], on=True)
                    # off-curve points
                    r = cm.to_rep(g, A, rng)
                    if cm.optimized:
                        yield dict(group=g, args=[enc_pt((r[0], r[1] + cm.one(g), r[2]))], on=False)
                        yield dict(group=g, args=[enc_pt((r[0] + r[2], r[1], r[2]))], on=False)
                    else:
                        yield dict(group=g, args=[enc_pt((r[0], r[1] + cm.one(g)))], on=False)
                elif name == "multiply":
                    r_ = cm.m.curve_order
                    for n in [0, 1, 2, 3, 5, r_ - 1, r_, r_ + 1, rng.randrange(2 ** 64), rng.randrange(2 ** 300)]:
                        for P in ([A, None] + sp)[: (2 if g == "G12" else 4)]:
                            if g == "G12" and n > 2 ** 70:
                                continue
                            yield dict(group=g, args=[enc_pt(cm.to_rep(g, P, rng)), n])

    def check(self, fn, inp):
        modname, name = fn.rsplit(".", 1)
        cm = curve_mod(modname)
        g = inp["group"]
        F, b, G = cm.groups[g]
        f = getattr(cm.m, name)
        args = [cm.dec_pt(a) if not isinstance(a, int) else a for a in inp["args"]]

        def A(rep):
            if not cm.optimized:
                return rep
            x, y, z = rep
            if z == z.__class__.zero():
                return None
            return (x / z, y / z)

        def rep_ok(rep):
            if not cm.optimized:
                return rep is None or (isinstance(rep, tuple) and len(rep) == 2)
            return isinstance(rep, tuple) and len(rep) == 3

        try:
            if name == "add":
                res = f(args[0], args[1])
                want = aff_add(A(args[0]), A(args[1]))
            elif name == "double":
                res = f(args[0])
                want = aff_add(A(args[0]), A(args[0]))
            elif name == "neg":
                res = f(args[0])
                want = aff_neg(A(args[0]))
            elif name == "multiply":
                res = f(args[0], args[1])
                want = aff_mul(A(args[0]), args[1])
            elif name == "eq":
                res = f(args[0], args[1])
                want = aff_eq(A(args[0]), A(args[1]))
                if bool(res) != want:
                    return dict(why="eq(p1,p2) differs from abs(p1) = abs(p2)", observed=bool(res), expected=want)
                return None
            elif name == "is_inf":
                res = f(args[0])
                want = A(args[0]) is None
                return None if bool(res) == want else dict(why="is_inf", observed=bool(res), expected=want)
            elif name == "is_on_curve":
                res = f(args[0], b)
                want = aff_on(A(args[0]), b)
                return None if bool(res) == want else dict(why="is_on_curve", observed=bool(res), expected=want)
            elif name == "normalize":
                res = f(args[0])
                want = A(args[0])
                ok = aff_eq(res, want)
                return None if ok else dict(why="normalize", observed=enc_pt(res), expected=enc_pt(want))
            elif name == "twist":
                return check_twist(cm, args[0])
            else:
                return None
        except Exception as e:
            return dict(why="raised", observed=f"{type(e).__name__}: {e}", expected="a point")
        if not rep_ok(res):
            return dict(why="result shape", observed=repr(res)[:200], expected="point representation")
        got = A(res)
        if not aff_eq(got, want):
            return dict(why=f"abs({name}(...)) differs from the affine law", observed=enc_pt(got), expected=enc_pt(want))
        if not aff_on(got, b):
            return dict(why="result not on curve", observed=enc_pt(got), expected="on curve")
        return None


def check_twist(cm, pt):
    m = cm.m
    res = m.twist(pt)
    w = m.w

    def emb(c):   # F_p2 -> F_p12 : a + b i  ->  (a - k b) + b w^6,  k = 9 (bn128), 1 (bls12-381)
        k = 9 if "bn128" in cm.name else 1
        a, bb = [int(v) for v in c.coeffs]
        return m.FQ12([(a - k * bb) % m.field_modulus] + [0] * 5 + [bb] + [0] * 5)
    # bn128: E' is the D-type twist  y^2 = x^3 + 3/(9+i):  tau(x,y) = (iota(x) w^2, iota(y) w^3)
    # bls12-381: E' is the M-type twist y^2 = x^3 + 4(1+i): tau(x,y) = (iota(x)/w^2, iota(y)/w^3)
    if "bn128" in cm.name:
        tau = lambda X, Y: (emb(X) * w ** 2, emb(Y) * w ** 3)
    else:
        tau = lambda X, Y: (emb(X) / w ** 2, emb(Y) / w ** 3)
    if cm.optimized:
        x, y, z = pt
        if z == z.__class__.zero():
            want = None
        else:
            want = tau(x / z, y / z)
        rx, ry, rz = res
        got = None if rz == m.FQ12.zero() else (rx / rz, ry / rz)
    else:
        want = None if pt is None else tau(pt[0], pt[1])
        got = res
    if not aff_eq(got, want):
        return dict(why="twist differs from (iota(x)/w^2, iota(y)/w^3)", observed=enc_pt(got), expected=enc_pt(want))
    if not aff_on(got, m.b12):
        return dict(why="twist result not on E(F_p^12)", observed=enc_pt(got), expected="on curve")
    return None


import closed  # noqa: E402,F401  (registers the closed-term facts)
