"""Concrete input families and executable contracts (run under /venv/bin/python on the real
code).  Each family: gen(function, rng, hint) yields JSON-able inputs; check(function, input)
returns None when the real function satisfies its contract on that input, else a dict with
`why`, `observed`, `expected`."""
from __future__ import annotations

import importlib
import random

FAMILIES = {}
MONITORS = {}


def family(*prefixes):
    def deco(cls):
        for p in prefixes:
            FAMILIES[p] = cls
        return cls
    return deco


def resolve(qualname):
    parts = qualname.split(".")
    for k in range(len(parts), 0, -1):
        try:
            mod = importlib.import_module(".".join(parts[:k]))
        except ImportError:
            continue
        obj = mod
        try:
            for nm in parts[k:]:
                obj = getattr(obj, nm)
            return obj
        except AttributeError:
            continue
    raise ImportError(qualname)

EVALS = {}


def monitor(name):
    def deco(f):
        MONITORS[name] = f
        return f
    return deco


def evaluator(name):
    def deco(f):
        EVALS[name] = f
        return f
    return deco


def run_monitor(doc, seed):
    f = MONITORS.get(doc.get("name"))
    if f is None:
        return dict(error=f"unknown monitor {doc.get('name')}")
    return f(doc, random.Random(seed))


def run_eval(doc):
    res = {}
    for name in doc.get("names", []):
        f = EVALS.get(name)
        if f is None:
            res[name] = dict(ok=False, detail="unknown closed fact")
            continue
        try:
            r = f()
            if isinstance(r, tuple):
                res[name] = dict(ok=bool(r[0]), detail=str(r[1])[:500])
            else:
                res[name] = dict(ok=bool(r), detail="")
        except Exception as e:
            import traceback
            res[name] = dict(ok=False, detail=traceback.format_exc()[-600:])
    return dict(results=res)


# ------------------------------------------------------------------------------------------
# (de)serialisation of field elements and points
# ------------------------------------------------------------------------------------------
def enc_f(x):
    if hasattr(x, "coeffs"):
        return [int(c) for c in x.coeffs]
    if hasattr(x, "n"):
        return int(x.n)
    return int(x)


def enc_pt(p):
    if p is None:
        return None
    return [enc_f(c) for c in p]


def dec_f(cls_by_len, v):
    if isinstance(v, list):
        return cls_by_len[len(v)](v)
    return cls_by_len[1](v)


# ------------------------------------------------------------------------------------------
# generic affine model over any field class with + - * / and ==  (independent of the curve
# modules; uses only the field classes)
# ------------------------------------------------------------------------------------------
def aff_add(P, Q):
    if P is None:
        return Q
    if Q is None:
        return P
    x1, y1 = P
    x2, y2 = Q
    if x1 == x2 and y1 == -y2:
        return None
    if x1 == x2:
        m = (3 * x1 * x1) / (2 * y1)
        x3 = m * m - 2 * x1
    else:
        m = (y2 - y1) / (x2 - x1)
        x3 = m * m - x1 - x2
    return (x3, -m * x3 + m * x1 - y1)


def aff_neg(P):
    return None if P is None else (P[0], -P[1])


def aff_mul(P, n):
    R = None
    Q = P
    while n > 0:
        if n & 1:
            R = aff_add(R, Q)
        Q = aff_add(Q, Q)
        n >>= 1
    return R


def aff_eq(P, Q):
    if P is None or Q is None:
        return P is None and Q is None
    return P[0] == Q[0] and P[1] == Q[1]


def aff_on(P, b):
    return P is None or P[1] * P[1] == P[0] * P[0] * P[0] + b


# ------------------------------------------------------------------------------------------
# curve module descriptors
# ------------------------------------------------------------------------------------------
class CurveMod:
    def __init__(self, modname):
        self.m = importlib.import_module(modname)
        self.name = modname
        self.optimized = "optimized" in modname
        m = self.m
        self.groups = {"G1": (m.FQ, m.b, m.G1), "G2": (m.FQ2, m.b2, m.G2), "G12": (m.FQ12, m.b12, m.G12)}
        self.cls_by_len = {1: m.FQ, 2: m.FQ2, 12: m.FQ12}

    def one(self, g):
        F = self.groups[g][0]
        return F.one() if hasattr(F, "one") else F(1)

    def zero(self, g):
        F = self.groups[g][0]
        return F.zero() if hasattr(F, "zero") else F(0)

    def rand_f(self, g, rng):
        F = self.groups[g][0]
        p = self.m.field_modulus
        if g == "G1":
            return F(rng.randrange(1, p))
        deg = 2 if g == "G2" else 12
        return F([rng.randrange(p) for _ in range(deg)])

    def gen_affine(self, g, rng):
        """an affine point of the group's curve as a pair of field elements"""
        G = self.groups[g][2]
        if self.optimized:
            x, y, z = G
            A = (x / z, y / z)
        else:
            A = G
        k = rng.choice([1, 2, 3, rng.randrange(1, 2 ** 64), rng.randrange(1, self.m.curve_order)])
        return aff_mul(A, k)

    def to_rep(self, g, A, rng, scale=True):
        """a representative of the affine point A in this module's coordinates"""
        if not self.optimized:
            return A
        if A is None:
            # every shape of a representative of infinity: (1,1,0), (0,1,0), (0,0,0), (x,0,0), (x,x,0), (x,y,0)
            ch = rng.randrange(7)
            one, zero = self.one(g), self.zero(g)
            if ch == 0:
                return (one, one, zero)
            if ch == 1:
                return (zero, one, zero)
            if ch == 2:
                return (zero, zero, zero)
            if ch == 3:
                return (self.rand_f(g, rng), zero, zero)
            if ch == 4:
                x = self.rand_f(g, rng)
                return (x, x, zero)
            return (self.rand_f(g, rng), self.rand_f(g, rng), zero)
        lam = self.rand_f(g, rng) if scale else self.one(g)
        return (A[0] * lam, A[1] * lam, lam)

    def abs(self, rep):
        if not self.optimized:
            return rep
        x, y, z = rep
        if z == self.m.FQ.zero() * 0 + z.__class__.zero():
            return None
        return (x / z, y / z)

    def dec_pt(self, v):
        if v is None:
            return None
        return tuple(dec_f(self.cls_by_len, c) for c in v)


_MODS = {}


def curve_mod(modname):
    if modname not in _MODS:
        _MODS[modname] = CurveMod(modname)
    return _MODS[modname]


def cube_root_of_unity(p):
    """a primitive cube root of unity modulo p (p = 1 mod 3), else None"""
    if p % 3 != 1:
        return None
    for g_ in range(2, 60):
        beta = pow(g_, (p - 1) // 3, p)
        if beta != 1:
            return beta
    return None


def same_y_partner(cm, A):
    """(beta x, y): a different point with the same y on y^2 = x^3 + b (a horizontal line meets the curve in x, beta x, beta^2 x)"""
    beta = cube_root_of_unity(cm.m.field_modulus)
    if A is None or beta is None:
        return None
    return (A[0] * beta, A[1])


def special_points(cm, g, rng):
    """points outside the prime-order subgroup / of small order, where constructible"""
    out = []
    F, b, G = cm.groups[g]
    p = cm.m.field_modulus
    if g == "G1" and "bls12_381" in cm.name:
        out.append((F(0), F(2)))                    # order 3
        # random x with a y on the curve (p = 3 mod 4)
        for _ in range(20):
            x = rng.randrange(p)
            rhs = (x ** 3 + 4) % p
            y = pow(rhs, (p + 1) // 4, p)
            if y * y % p == rhs:
                out.append((F(x), F(y)))
                break
    if g == "G12" and "bls12_381" in cm.name:
        w = cm.m.w
        out.append((w ** 8, w * 0))               # a point with y = 0: (w^8)^3 = -4
    return out


@family("py_ecc.optimized_bls12_381.optimized_curve.", "py_ecc.optimized_bn128.optimized_curve.",
        "py_ecc.bls12_381.bls12_381_curve.", "py_ecc.bn128.bn128_curve.")
class CurveFamily:
    """add / double / neg / eq / is_on_curve / is_inf / normalize / multiply / twist of the four
    curve modules against the independent affine model"""

    def gen(self, fn, rng, hint):
        modname, name = fn.rsplit(".", 1)
        cm = curve_mod(modname)
        groups = ["G1", "G2", "G12"] if name != "twist" else ["G2"]
        for rnd in range(6):
            for g in groups:
                if g == "G12" and rnd > 1:
                    continue
                A = cm.gen_affine(g, rng)
                B = cm.gen_affine(g, rng)
                sp = special_points(cm, g, rng)
                cands = [A, B, None] + sp
                if name in ("add", "eq"):
                    pairs = [(A, B), (A, A), (A, aff_neg(A)), (None, A), (A, None), (None, None)]
                    Ay = same_y_partner(cm, A)
                    if Ay is not None:
                        # distinct points with equal y, and with opposite y (neither equal nor inverse)
                        pairs += [(A, Ay), (Ay, A), (A, aff_neg(Ay)), (aff_neg(Ay), A)]
                    pairs += [(s, s) for s in sp] + [(s, A) for s in sp] + [(s, aff_neg(s)) for s in sp]
                    for P, Q in pairs:
                        for _ in range(2):
                            yield dict(group=g, args=[enc_pt(cm.to_rep(g, P, rng)), enc_pt(cm.to_rep(g, Q, rng))])
                    if cm.optimized:
                        # representatives sharing the same z != 1, and unscaled (z = 1) ones
                        lam = cm.rand_f(g, rng)
                        yield dict(group=g, args=[enc_pt((A[0] * lam, A[1] * lam, lam)), enc_pt((B[0] * lam, B[1] * lam, lam))])
                        yield dict(group=g, args=[enc_pt(cm.to_rep(g, A, rng, scale=False)), enc_pt(cm.to_rep(g, B, rng, scale=False))])
                        yield dict(group=g, args=[enc_pt(cm.to_rep(g, A, rng, scale=False)), enc_pt(cm.to_rep(g, A, rng))])
                    if cm.optimized and name == "eq":
                        zero = cm.zero(g)
                        yield dict(group=g, args=[enc_pt((zero, zero, zero)), enc_pt(cm.to_rep(g, A, rng))])
                        yield dict(group=g, args=[enc_pt(cm.to_rep(g, A, rng)), enc_pt((zero, zero, zero))])
                elif name in ("double", "neg", "is_inf", "normalize", "twist"):
                    for P in cands:
                        if name == "normalize" and P is None:
                            continue
                        yield dict(group=g, args=[enc_pt(cm.to_rep(g, P, rng))])
                    if name == "is_inf" and cm.optimized:
                        # is_inf is a statement about z alone: triples that are not curve points, with zero x and/or y
                        z_, o_, r_ = cm.zero(g), cm.one(g), cm.rand_f(g, rng)
                        for t in ((z_, z_, o_), (z_, z_, r_), (z_, o_, r_), (r_, z_, o_), (z_, z_, z_), (r_, z_, z_)):
                            yield dict(group=g, args=[enc_pt(t)])
                elif name == "is_on_curve":
                    for P in cands:
                        yield dict(group=g, args=[enc_pt(cm.to_rep(g, P, rng))], on=True)
                    if cm.optimized:
                        for _ in range(6):
                            yield dict(group=g, args=[enc_pt(cm.to_rep(g, None, rng))], on=True)
                    # off-curve points
                    r = cm.to_rep(g, A, rng)
                    if cm.optimized:
                        yield dict(group=g, args=[enc_pt((r[0], r[1] + cm.one(g), r[2]))], on=False)
                        yield dict(group=g, args=[enc_pt((r[0] + r[2], r[1], r[2]))], on=False)
                    else:
                        yield dict(group=g, args=[enc_pt((r[0], r[1] + cm.one(g)))], on=False)
                elif name == "multiply":
                    r_ = cm.m.curve_order
                    for n in [0, 1, 2, 3, 5, r_ - 1, r_, r_ + 1, rng.randrange(2 ** 64), rng.randrange(2 ** 300)]:
                        for P in ([A, None] + sp)[: (2 if g == "G12" else 4)]:
                            if g == "G12" and n > 2 ** 70:
                                continue
                            yield dict(group=g, args=[enc_pt(cm.to_rep(g, P, rng)), n])
                    if rnd == 0:
                        # the module's own generator constant, unscaled, and scalars that are long / have long runs of one bits
                        p_ = cm.m.field_modulus
                        big = [2 ** 49 - 1, 2 ** 53 + 1, 2 ** 64 - 1, 2 ** 128 - 1, 2 ** 255 - 19, 2 ** 256 - 189, 2 ** 256 - 1, 2 ** 256,
                               2 ** 256 + 1, 2 * p_ - r_, rng.randrange(2 ** 639, 2 ** 640), r_ - 1, r_ + 1, 5]
                        Gc = cm.groups[g][2]
                        for n in big:
                            if g == "G12" and n > 2 ** 130:
                                continue
                            yield dict(group=g, args=[enc_pt(Gc), n])
                            if g != "G12":
                                yield dict(group=g, args=[enc_pt(cm.to_rep(g, A, rng)), n])

    def check(self, fn, inp):
        modname, name = fn.rsplit(".", 1)
        cm = curve_mod(modname)
        g = inp["group"]
        F, b, G = cm.groups[g]
        f = getattr(cm.m, name)
        args = [cm.dec_pt(a) if not isinstance(a, int) else a for a in inp["args"]]

        def A(rep):
            if not cm.optimized:
                return rep
            x, y, z = rep
            if z == z.__class__.zero():
                return None
            return (x / z, y / z)

        def rep_ok(rep):
            if not cm.optimized:
                return rep is None or (isinstance(rep, tuple) and len(rep) == 2)
            return isinstance(rep, tuple) and len(rep) == 3

        try:
            if name == "add":
                res = f(args[0], args[1])
                want = aff_add(A(args[0]), A(args[1]))
            elif name == "double":
                res = f(args[0])
                want = aff_add(A(args[0]), A(args[0]))
            elif name == "neg":
                res = f(args[0])
                want = aff_neg(A(args[0]))
            elif name == "multiply":
                res = f(args[0], args[1])
                want = aff_mul(A(args[0]), args[1])
            elif name == "eq":
                res = f(args[0], args[1])
                want = aff_eq(A(args[0]), A(args[1]))
                if bool(res) != want:
                    return dict(why="eq(p1,p2) differs from abs(p1) = abs(p2)", observed=bool(res), expected=want)
                return None
            elif name == "is_inf":
                res = f(args[0])
                want = (args[0] is None) if not cm.optimized else (args[0][2] == args[0][2].__class__.zero())
                return None if bool(res) == want else dict(why="is_inf", observed=bool(res), expected=want)
            elif name == "is_on_curve":
                res = f(args[0], b)
                want = aff_on(A(args[0]), b)
                return None if bool(res) == want else dict(why="is_on_curve", observed=bool(res), expected=want)
            elif name == "normalize":
                res = f(args[0])
                want = A(args[0])
                ok = aff_eq(res, want)
                return None if ok else dict(why="normalize", observed=enc_pt(res), expected=enc_pt(want))
            elif name == "twist":
                return check_twist(cm, args[0])
            else:
                return None
        except Exception as e:
            return dict(why="raised", observed=f"{type(e).__name__}: {e}", expected="a point")
        if not rep_ok(res):
            return dict(why="result shape", observed=repr(res)[:200], expected="point representation")
        if res is not None and name in ("add", "double", "neg", "multiply") and any(type(c) is not F for c in res):
            # also for a result at infinity: feeding it back into add/double must work in the operands' field
            return dict(why=f"{name}: coordinates of the result are not elements of the operands' field class",
                        observed=[type(c).__name__ for c in res], expected=F.__name__)
        got = A(res)
        if not aff_eq(got, want):
            return dict(why=f"abs({name}(...)) differs from the affine law", observed=enc_pt(got), expected=enc_pt(want))
        if not aff_on(got, b):
            return dict(why="result not on curve", observed=enc_pt(got), expected="on curve")
        return None


def check_twist(cm, pt):
    m = cm.m
    res = m.twist(pt)
    w = m.w

    def emb(c):   # F_p2 -> F_p12 : a + b i  ->  (a - k b) + b w^6,  k = 9 (bn128), 1 (bls12-381)
        k = 9 if "bn128" in cm.name else 1
        a, bb = [int(v) for v in c.coeffs]
        return m.FQ12([(a - k * bb) % m.field_modulus] + [0] * 5 + [bb] + [0] * 5)
    # bn128: E' is the D-type twist  y^2 = x^3 + 3/(9+i):  tau(x,y) = (iota(x) w^2, iota(y) w^3)
    # bls12-381: E' is the M-type twist y^2 = x^3 + 4(1+i): tau(x,y) = (iota(x)/w^2, iota(y)/w^3)
    if "bn128" in cm.name:
        tau = lambda X, Y: (emb(X) * w ** 2, emb(Y) * w ** 3)
    else:
        tau = lambda X, Y: (emb(X) / w ** 2, emb(Y) / w ** 3)
    if cm.optimized:
        x, y, z = pt
        if z == z.__class__.zero():
            want = None
        else:
            want = tau(x / z, y / z)
        rx, ry, rz = res
        got = None if rz == m.FQ12.zero() else (rx / rz, ry / rz)
    else:
        want = None if pt is None else tau(pt[0], pt[1])
        got = res
    if not aff_eq(got, want):
        return dict(why="twist differs from (iota(x)/w^2, iota(y)/w^3)", observed=enc_pt(got), expected=enc_pt(want))
    if not aff_on(got, m.b12):
        return dict(why="twist result not on E(F_p^12)", observed=enc_pt(got), expected="on curve")
    return None


import closed  # noqa: E402,F401  (registers the closed-term facts)
import fieldmon  # noqa: E402,F401
import hashmon  # noqa: E402,F401
import codecmon  # noqa: E402,F401
import ecdsamon  # noqa: E402,F401
import blsmon  # noqa: E402,F401
import h2cmon  # noqa: E402,F401
import pairmon  # noqa: E402,F401


# ------------------------------------------------------------------------------------------
# line functions
# ------------------------------------------------------------------------------------------
def aff_line(P1, P2, T):
    (x1, y1), (x2, y2), (xt, yt) = P1, P2, T
    if not x1 == x2:
        m = (y2 - y1) / (x2 - x1)
        return m * (xt - x1) - (yt - y1)
    if y1 == y2:
        m = (3 * x1 * x1) / (2 * y1)
        return m * (xt - x1) - (yt - y1)
    return xt - x1


@family("py_ecc.optimized_bls12_381.optimized_pairing.linefunc", "py_ecc.optimized_bn128.optimized_pairing.linefunc",
        "py_ecc.bls12_381.bls12_381_pairing.linefunc", "py_ecc.bn128.bn128_pairing.linefunc")
class LineFamily:
    def _cm(self, fn):
        pm = fn.rsplit(".", 1)[0]
        return curve_mod(pm.replace("_pairing", "_curve")), importlib.import_module(pm)

    def gen(self, fn, rng, hint):
        cm, pm = self._cm(fn)
        for rnd in range(8):
            for g in ("G1", "G2"):
                A, B, T = cm.gen_affine(g, rng), cm.gen_affine(g, rng), cm.gen_affine(g, rng)
                Ay = same_y_partner(cm, A)
                extra = ((A, Ay), (Ay, A), (A, aff_neg(Ay))) if Ay is not None else ()
                for P1, P2 in ((A, B), (A, A), (A, aff_neg(A))) + extra:
                    yield dict(group=g, args=[enc_pt(cm.to_rep(g, P1, rng)), enc_pt(cm.to_rep(g, P2, rng)),
                                              enc_pt(cm.to_rep(g, T, rng))])

    def check(self, fn, inp):
        cm, pm = self._cm(fn)
        args = [cm.dec_pt(a) for a in inp["args"]]

        def A(rep):
            if not cm.optimized:
                return rep
            x, y, z = rep
            return (x / z, y / z)
        try:
            res = pm.linefunc(*args)
        except Exception as e:
            return dict(why="raised", observed=f"{type(e).__name__}: {e}", expected="a value")
        want = aff_line(A(args[0]), A(args[1]), A(args[2]))
        if cm.optimized:
            num, den = res
            if den == den.__class__.zero():
                return dict(why="denominator is zero", observed=enc_f(den), expected="non-zero")
            got = num / den
        else:
            got = res
        if not got == want:
            return dict(why="line function value differs from the affine line function", observed=enc_f(got), expected=enc_f(want))
        return None


# ------------------------------------------------------------------------------------------
# secp256k1
# ------------------------------------------------------------------------------------------
def _secp():
    return importlib.import_module("py_ecc.secp256k1.secp256k1")


def zp_add(P, Q, p):
    from closed import _zp_add
    return _zp_add(P, Q, p)


@family("py_ecc.secp256k1.secp256k1.jacobian_", "py_ecc.secp256k1.secp256k1.add", "py_ecc.secp256k1.secp256k1.multiply",
        "py_ecc.secp256k1.secp256k1.privtopub", "py_ecc.secp256k1.secp256k1.to_jacobian",
        "py_ecc.secp256k1.secp256k1.from_jacobian", "py_ecc.secp256k1.secp256k1.inv")
class SecpFamily:
    P = 2 ** 256 - 2 ** 32 - 977
    N = 0xFFFFFFFFFFFFFFFFFFFFFFFFFFFFFFFEBAAEDCE6AF48A03BBFD25E8CD0364141
    G = (0x79BE667EF9DCBBAC55A06295CE870B07029BFCDB2DCE28D959F2815B16F81798,
         0x483ADA7726A3C4655DA4FBFC0E1108A8FD17B448A68554199C47D08FFB10D4B8)

    def pt(self, rng):
        from closed import zp_mul
        k = rng.choice([1, 2, 3, rng.randrange(1, 2 ** 32), rng.randrange(1, self.N)])
        return zp_mul(self.G, k, self.P)

    def jac(self, A, rng):
        if A is None:
            return rng.choice([[0, 0, 1], [0, 0, 0]])
        z = rng.randrange(1, self.P)
        return [A[0] * z * z % self.P, A[1] * z * z * z % self.P, z]

    def aff(self, A):
        return [0, 0] if A is None else list(A)

    def scalars(self, rng, hint):
        N = self.N
        out = [0, 1, 2, 3, N - 1, N, N + 1, 2 * N + 5, -1, -2, -7, -N, -N - 1, rng.randrange(2 ** 512), -rng.randrange(2 ** 300),
               rng.randrange(N)]
        # a cube root of unity scalar (lambda) and neighbours: distinct points sharing a y coordinate
        lam = 0x5363ad4cc05c30e0a5261c028812645a122e22ea20816678df02967c1b23bd72
        out += [lam, lam + 1, lam * lam % N + 1]
        w = ((hint or {}).get("witness") or {}).get("z3_model") or {}
        for k, v in w.items():
            try:
                out.append(int(v))
            except Exception:
                pass
        return out

    def gen(self, fn, rng, hint):
        name = fn.rsplit(".", 1)[1]
        P = self.P
        beta = pow(2, (P - 1) // 3, P)
        for rnd in range(5):
            A, B = self.pt(rng), self.pt(rng)
            nA = (A[0], (-A[1]) % P)
            A_beta = (A[0] * beta % P, A[1])             # another curve point with the same y
            pairs = [(A, B), (A, A), (A, nA), (None, A), (A, None), (None, None), (A, A_beta)]
            if name == "jacobian_add":
                for X, Y in pairs:
                    for _ in range(2):
                        yield dict(args=[self.jac(X, rng), self.jac(Y, rng)])
                    # mixed representations: one operand affine-lifted (z = 1), the other with a general z, in both orders
                    if X is not None and Y is not None:
                        yield dict(args=[[X[0], X[1], 1], self.jac(Y, rng)])
                        yield dict(args=[self.jac(X, rng), [Y[0], Y[1], 1]])
                        yield dict(args=[[X[0], X[1], 1], [Y[0], Y[1], 1]])
                        # both operands on the same z != 1 (what a batch normalisation or a shared-z fast path produces)
                        for z_ in (2, P - 1, rng.randrange(2, P)):
                            z2_, z3_ = z_ * z_ % P, z_ * z_ * z_ % P
                            yield dict(args=[[X[0] * z2_ % P, X[1] * z3_ % P, z_], [Y[0] * z2_ % P, Y[1] * z3_ % P, z_]])
            elif name == "jacobian_double" or name == "from_jacobian":
                for X in (A, B, None):
                    yield dict(args=[self.jac(X, rng)])
            elif name == "to_jacobian":
                for X in (A, None):
                    yield dict(args=[self.aff(X)])
            elif name == "add":
                for X, Y in pairs:
                    yield dict(args=[self.aff(X), self.aff(Y)])
            elif name in ("multiply", "jacobian_multiply"):
                for n in self.scalars(rng, hint):
                    for X in (A, None):
                        yield dict(args=[self.aff(X) if name == "multiply" else self.jac(X, rng), n])
            elif name == "privtopub":
                for n in [1, 2, self.N - 1, self.N, self.N + 1, rng.randrange(2 ** 256), 0]:
                    yield dict(args=[n % 2 ** 256])
                # keys whose 32-byte encoding has zero bytes at either end / inside
                for n in [256, 2 ** 16, 0xff00, 2 ** 248, rng.randrange(1, 2 ** 200) << 8, rng.randrange(1, 2 ** 100) << 64,
                          rng.randrange(1, 2 ** 120), (rng.randrange(1, 2 ** 64) << 160) | rng.randrange(1, 2 ** 64)]:
                    yield dict(args=[n])
            elif name == "inv":
                for a in [0, 1, 2, P - 1, rng.randrange(P), rng.randrange(P)]:
                    yield dict(args=[a, P])
                for n_ in (P, self.N):
                    for a in [n_ + 1, n_ + 2, 2 * n_ + 3, n_ * n_ - 1, rng.randrange(n_, 2 ** 300), -1, -2, -n_ - 1, -rng.randrange(2, 2 ** 200)]:
                        yield dict(args=[a, n_])
                for a in [0, 1, self.N - 1, rng.randrange(self.N)]:
                    yield dict(args=[a, self.N])

    def check(self, fn, inp):
        from closed import zp_mul
        m = _secp()
        name = fn.rsplit(".", 1)[1]
        P, N = self.P, self.N
        f = getattr(m, name)
        a = inp["args"]

        def absj(j):
            x, y, z = j
            if y % P == 0:
                return None
            zi = pow(z, -1, P)
            return (x * zi * zi % P, y * zi * zi * zi % P)

        def absa(t):
            # affine results must be canonical: integers in [0, P), exactly (no reduction here)
            if not (isinstance(t[0], int) and isinstance(t[1], int) and 0 <= t[0] < P and 0 <= t[1] < P):
                return ("non-canonical", t[0], t[1])
            return None if (t[0], t[1]) == (0, 0) else (t[0], t[1])

        def on(A):
            return A is None or (A[1] ** 2 - A[0] ** 3 - 7) % P == 0
        try:
            if name == "jacobian_add":
                got, want = absj(f(tuple(a[0]), tuple(a[1]))), zp_add(absj(a[0]), absj(a[1]), P)
            elif name == "jacobian_double":
                got, want = absj(f(tuple(a[0]))), zp_add(absj(a[0]), absj(a[0]), P)
            elif name == "from_jacobian":
                r = f(tuple(a[0]))
                got, want = absa(r), absj(a[0])
                if not all(0 <= c < P for c in r):
                    return dict(why="coordinates not reduced", observed=list(r))
            elif name == "to_jacobian":
                got, want = absj(f(tuple(a[0]))), absa(a[0])
            elif name == "add":
                got, want = absa(f(tuple(a[0]), tuple(a[1]))), zp_add(absa(a[0]), absa(a[1]), P)
            elif name == "multiply":
                got, want = absa(f(tuple(a[0]), a[1])), (zp_mul(absa(a[0]), a[1] % N, P) if absa(a[0]) else None)
            elif name == "jacobian_multiply":
                got, want = absj(f(tuple(a[0]), a[1])), (zp_mul(absj(a[0]), a[1] % N, P) if absj(a[0]) else None)
            elif name == "privtopub":
                d = a[0]
                got, want = absa(f(d.to_bytes(32, "big"))), zp_mul(self.G, d % N, P)
            elif name == "inv":
                r = f(a[0], a[1])
                ok = 0 <= r < a[1] and ((a[0] % a[1] == 0 and r == 0) or (r * a[0]) % a[1] == 1)
                return None if ok else dict(why="inv(a, n) is not the inverse / inv0", observed=r)
            else:
                return None
        except Exception as e:
            return dict(why="raised", observed=f"{type(e).__name__}: {e}", expected="a point")
        if got != want:
            return dict(why=f"{name} differs from the affine group law", observed=got, expected=want)
        if not on(got):
            return dict(why="result not on curve", observed=got)
        return None


# ------------------------------------------------------------------------------------------
# subgroup_check / cofactor clearing (C17): verdicts on sequences of representatives
# ------------------------------------------------------------------------------------------
R_BLS = 52435875175126190479447740508185965837690552500527637822603658699938581184513


def _twist_point(cm, rng):
    """a random point of E'(F_p2) (almost surely outside the subgroup)"""
    from py_ecc.bls.point_compression import modular_squareroot_in_FQ2
    m = cm.m
    for _ in range(50):
        x = cm.rand_f("G2", rng)
        y = modular_squareroot_in_FQ2(x ** 3 + m.b2)
        if y is not None and y * y == x ** 3 + m.b2:
            return (x, y)
    return None


@family("py_ecc.bls.g2_primitives.subgroup_check", "py_ecc.optimized_bls12_381.optimized_clear_cofactor.")
class SubgroupFamily:
    def gen(self, fn, rng, hint):
        cm = curve_mod("py_ecc.optimized_bls12_381.optimized_curve")
        for rnd in range(4):
            for g in ("G1", "G2"):
                A = cm.gen_affine(g, rng)
                outs = [p for p in (special_points(cm, g, rng) if g == "G1" else [_twist_point(cm, rng)]) if p is not None]
                h1 = (0xd201000000010000 + 1) ** 2 // 3
                seqs = [[cm.to_rep(g, A, rng)], [cm.to_rep(g, None, rng)], [cm.to_rep(g, A, rng), cm.to_rep(g, A, rng)]]
                for T in outs:
                    seqs.append([cm.to_rep(g, T, rng)])
                    seqs.append([cm.to_rep(g, aff_add(A, T), rng)])
                    one, zero = cm.one(g), cm.zero(g)
                    # the identity written with the coordinates of T, after / before T itself
                    seqs.append([(T[0], T[1], one), (T[0], T[1], zero)])
                    seqs.append([(T[0], T[1], zero), (T[0], T[1], one)])
                    if g == "G1":
                        # cofactor-torsion component: r.T has order dividing h
                        seqs.append([cm.to_rep(g, aff_mul(T, R_BLS), rng)])
                for s in seqs:
                    yield dict(group=g, seq=[enc_pt(r) for r in s])

    def check(self, fn, inp):
        cm = curve_mod("py_ecc.optimized_bls12_381.optimized_curve")
        g = inp["group"]
        reps = [cm.dec_pt(r) for r in inp["seq"]]
        name = fn.rsplit(".", 1)[1]

        def A(rep):
            x, y, z = rep
            return None if z == z.__class__.zero() else (x / z, y / z)
        if name == "subgroup_check":
            from py_ecc.bls.g2_primitives import subgroup_check
            for i, rep in enumerate(reps):
                try:
                    got = subgroup_check(rep)
                except Exception as e:
                    return dict(why="raised", observed=f"{type(e).__name__}: {e}")
                want = aff_mul(A(rep), R_BLS) is None
                if bool(got) != want:
                    return dict(why=f"subgroup_check verdict wrong at position {i} of the sequence", observed=bool(got), expected=want)
            return None
        import py_ecc.optimized_bls12_381.optimized_clear_cofactor as cc
        X = 0xd201000000010000
        h = {"multiply_clear_cofactor_G1": 1 + X, "multiply_clear_cofactor_G2": None}.get(name)
        if name == "multiply_clear_cofactor_G2":
            from closed import H2_BLS
            h = H2_BLS * (3 * X * X - 3)
            if g != "G2":
                return None
        elif g != "G1":
            return None
        f = getattr(cc, name)
        for rep in reps:
            try:
                res = f(rep)
            except Exception as e:
                return dict(why="raised", observed=f"{type(e).__name__}: {e}")
            want = aff_mul(A(rep), h)
            b = cm.groups[g][1]
            if not (isinstance(res, tuple) and len(res) == 3):
                return dict(why="result shape", observed=repr(res)[:100])
            got = A(res)
            if not aff_eq(got, want):
                return dict(why="clear_cofactor(p) != h_eff . p", observed=enc_pt(got), expected=enc_pt(want))
            x, y, z = res
            if not (z == z.__class__.zero() or y * y * z == x * x * x + b * z * z * z):
                return dict(why="result is not a valid representative (not on the curve)", observed=enc_pt(res))
            if aff_mul(got, R_BLS) is not None:
                return dict(why="result not in the prime-order subgroup", observed=enc_pt(got))
        return None
