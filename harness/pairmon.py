"""pairings (C05 / C12): closed facts on the real modules, the bounded monitor that stands in for the assumed theorem
A-PAIRING (never counted as proved), and the concrete family used to replay failed obligations."""
from __future__ import annotations

import importlib
import time

from families import family, monitor, evaluator, aff_add, aff_mul, aff_neg

MODS = {"optimized_bls12_381": ("py_ecc.optimized_bls12_381", True), "optimized_bn128": ("py_ecc.optimized_bn128", True),
        "bls12_381": ("py_ecc.bls12_381", False), "bn128": ("py_ecc.bn128", False)}


def M(name):
    return importlib.import_module(name)


def _order_fact(key):
    pkg, opt = MODS[key]

    def f():
        m = M(pkg)
        e = m.pairing(m.G2, m.G1)
        one = m.FQ12.one()
        return (e ** m.curve_order == one) and not (e == one), f"pairing(G2, G1)^r = 1 and pairing(G2, G1) != 1 in {pkg}"
    return f


for _k in MODS:
    evaluator(f"pairing.order-r.{_k}")(_order_fact(_k))


@evaluator("pairing.exptable")
def _():
    m = M("py_ecc.optimized_bls12_381.optimized_pairing")
    p = m.field_modulus
    ok = len(m.exptable) == 12
    for i in (0, 1, 5, 11):
        wi = m.FQ12([0] * i + [1] + [0] * (11 - i))
        ok = ok and m.exptable[i] == wi ** p
    return ok, "exptable[i] = (w^i)^p (checked for i = 0, 1, 5, 11 by plain exponentiation; all 12 by construction expression)"


@evaluator("pairing.final-exponent-split")
def _():
    m = M("py_ecc.optimized_bls12_381.optimized_pairing")
    p, r = m.field_modulus, m.curve_order
    ok = (p ** 12 - 1) % r == 0 and (p ** 4 - p ** 2 + 1) % r == 0
    ok = ok and (p ** 2 + 1) * (p ** 6 - 1) * ((p ** 4 - p ** 2 + 1) // r) == (p ** 12 - 1) // r
    return ok, "(p^2+1)(p^6-1)((p^4-p^2+1)/r) = (p^12-1)/r"


def rep(m, pt, rng, opt, g2):
    """a random projective representative in the optimized modules"""
    if not opt or pt is None:
        return pt
    F = m.FQ2 if g2 else m.FQ
    style = rng.randrange(4)
    if g2 and style == 0:
        # scaling by a constant of the base field: z stays "real" (a shape fast paths like to recognise)
        lam = F([rng.choice([2, 3, m.field_modulus - 1, rng.randrange(2, m.field_modulus)]), 0])
    elif g2 and style == 1:
        lam = F([0, rng.randrange(1, m.field_modulus)])
    else:
        lam = F([rng.randrange(1, m.field_modulus), rng.randrange(m.field_modulus)]) if g2 else F(rng.randrange(1, m.field_modulus))
    x, y, z = pt
    return (x * lam, y * lam, z * lam)


def check_bilinear(key, rng, n_scalars):
    pkg, opt = MODS[key]
    m = M(pkg)
    r = m.curve_order
    one = m.FQ12.one()
    base = m.pairing(m.G2, m.G1)
    evals = 1
    scal = [(0, 3), (1, 1), (2, 5), (r - 1, 2), (r, 7), (rng.randrange(r), rng.randrange(r))][:n_scalars]
    for a, b in scal:
        Pa, Qb = m.multiply(m.G1, a), m.multiply(m.G2, b)
        got = m.pairing(rep(m, Qb, rng, opt, True), rep(m, Pa, rng, opt, False))
        evals += 1
        if not got == base ** (a * b):
            return evals, dict(why=f"{key}: pairing(bQ, aP) != pairing(Q, P)^(ab)", a=a, b=b)
    if opt:
        # the generators themselves under base-field scalings (2x, 2y, 2), (-x, -y, -1), and a G1 scaling
        for c in (2, m.field_modulus - 1):
            lam2 = m.FQ2([c, 0])
            Q_ = (m.G2[0] * lam2, m.G2[1] * lam2, m.G2[2] * lam2)
            P_ = (m.G1[0] * c, m.G1[1] * c, m.G1[2] * c)
            evals += 2
            if not m.pairing(Q_, m.G1) == base:
                return evals, dict(why=f"{key}: pairing depends on the projective representative of Q (scaled by the base-field constant {c})")
            if not m.pairing(m.G2, P_) == base:
                return evals, dict(why=f"{key}: pairing depends on the projective representative of P (scaled by {c})")
    # additivity and negation
    a, b = rng.randrange(1, r), rng.randrange(1, r)
    P1, P2 = m.multiply(m.G1, a), m.multiply(m.G1, b)
    lhs = m.pairing(m.G2, m.add(P1, P2))
    if not lhs == m.pairing(m.G2, P1) * m.pairing(m.G2, P2):
        return evals, dict(why=f"{key}: pairing(Q, P1 + P2) != pairing(Q, P1) pairing(Q, P2)")
    if not m.pairing(m.G2, m.neg(P1)) * m.pairing(m.G2, P1) == one:
        return evals, dict(why=f"{key}: pairing(Q, -P) is not the inverse")
    if not m.pairing(m.neg(m.G2), P1) * m.pairing(m.G2, P1) == one:
        return evals, dict(why=f"{key}: pairing(-Q, P) is not the inverse")
    evals += 7
    return evals, None


@monitor("pairing_bilinearity")
def mon_bilinearity(doc, rng):
    thorough = doc.get("tier") == "thorough"
    t0 = time.time()
    evals = 0
    for key in (["optimized_bls12_381", "optimized_bn128"] + (["bls12_381", "bn128"] if thorough else [])):
        n, bad = check_bilinear(key, rng, 6 if thorough or key.startswith("optimized") else 2)
        evals += n
        if bad:
            return dict(ok=False, evaluations=evals, failure=dict(function=f"py_ecc.{key}.pairing", **bad))
    # optimized = reference (one pair per curve in the quick tier), and the split final exponentiation
    for okey, rkey in (("optimized_bls12_381", "bls12_381"), ("optimized_bn128", "bn128")):
        mo, mr = M(MODS[okey][0]), M(MODS[rkey][0])
        for _ in range(1 if not thorough else 3):
            a, b = rng.randrange(1, mo.curve_order), rng.randrange(1, mo.curve_order)
            vo = mo.pairing(rep(mo, mo.multiply(mo.G2, b), rng, True, True), rep(mo, mo.multiply(mo.G1, a), rng, True, False))
            vr = mr.pairing(mr.multiply(mr.G2, b), mr.multiply(mr.G1, a))
            evals += 2
            if [int(c) for c in vo.coeffs] != [int(c) for c in vr.coeffs]:
                return dict(ok=False, evaluations=evals, failure=dict(function=f"py_ecc.{okey}.pairing", why=f"optimized {okey} pairing != reference pairing", a=a, b=b))
    mo = M("py_ecc.optimized_bls12_381")
    from py_ecc.optimized_bls12_381.optimized_pairing import final_exponentiate
    k = 3 if not thorough else 6
    ms, prod = [], mo.FQ12.one()
    want = mo.FQ12.one()
    for i in range(k):
        a, b = rng.randrange(1, mo.curve_order), rng.randrange(1, mo.curve_order)
        Pp, Qp = mo.multiply(mo.G1, a), mo.multiply(mo.G2, b)
        prod = prod * mo.pairing(Qp, Pp, final_exponentiate=False)
        want = want * mo.pairing(Qp, Pp)
        evals += 2
    if not final_exponentiate(prod) == want:
        return dict(ok=False, evaluations=evals, failure=dict(function="py_ecc.optimized_bls12_381.optimized_pairing.final_exponentiate",
                                                              why="final_exponentiate(prod of Miller values) != prod of pairings"))
    return dict(ok=True, evaluations=evals, distinct=evals, seconds=round(time.time() - t0, 1),
                bound="optimized modules: scalars (0,3),(1,1),(2,5),(r-1,2),(r,7),random; additivity, both negations; random projective representatives; "
                      "optimized = reference on 1 (quick) / 3 (thorough) random pairs per curve; product of 3 / 6 Miller values; "
                      "reference modules' bilinearity only in the thorough tier")


@family("py_ecc.optimized_bls12_381.optimized_pairing.", "py_ecc.optimized_bn128.optimized_pairing.", "py_ecc.bls12_381.bls12_381_pairing.",
        "py_ecc.bn128.bn128_pairing.")
class PairingFamily:
    def gen(self, fn, rng, hint):
        name = fn.rsplit(".", 1)[1].split("[")[0]
        if name == "linefunc":
            return
        key = fn.split(".")[1]
        if name in ("final_exponentiate", "exp_by_p"):
            for kind in ("zero", "one", "sparse06", "sparse", "random", "random"):
                yield dict(kind="fexp", key=key, elem=kind, seed=rng.randrange(10 ** 9))
            return
        yield dict(kind="gates", key=key, seed=rng.randrange(10 ** 9))
        yield dict(kind="rawmode", key=key, seed=rng.randrange(10 ** 9))
        yield dict(kind="bilinear", key=key, seed=rng.randrange(10 ** 9))

    def check(self, fn, inp):
        import random
        rng = random.Random(inp["seed"])
        key = inp["key"]
        pkg, opt = MODS[key]
        m = M(pkg)
        k = inp["kind"]
        if k == "fexp":
            pm = M(pkg + "." + key + "_pairing" if not opt else pkg + ".optimized_pairing")
            p, r = m.field_modulus, m.curve_order
            F = m.FQ12
            e = inp["elem"]
            if e == "zero":
                x = F.zero()
            elif e == "one":
                x = F.one()
            elif e == "sparse06":
                c = [0] * 12
                c[0], c[6] = rng.randrange(1, p), rng.randrange(1, p)
                x = F(c)
            elif e == "sparse":
                c = [0] * 12
                c[rng.randrange(12)] = rng.randrange(1, p)
                c[rng.randrange(12)] = rng.randrange(1, p)
                x = F(c)
            else:
                x = F([rng.randrange(p) for _ in range(12)])
            if hasattr(pm, "exp_by_p") and not pm.exp_by_p(x) == x ** p:
                return dict(why="exp_by_p(x) != x ** p", element=[int(c) for c in x.coeffs])
            if not pm.final_exponentiate(x) == x ** ((p ** 12 - 1) // r):
                return dict(why="final_exponentiate(x) != x ** ((p^12 - 1) / r)", element=[int(c) for c in x.coeffs])
            return None
        one = m.FQ12.one()
        if k == "rawmode":
            # two-step form: values obtained with final_exponentiate=False, exponentiated afterwards, equal the pairing
            if not opt:
                return None
            pm = M(pkg + ".optimized_pairing")
            import inspect
            if "final_exponentiate" not in inspect.signature(pm.pairing).parameters:
                return None
            for a, b in ((1, 1), (rng.randrange(2, 50), rng.randrange(2, 50))):
                Q, P = m.multiply(m.G2, b), m.multiply(m.G1, a)
                raw = pm.pairing(Q, P, final_exponentiate=False)
                full = pm.pairing(Q, P)
                if not pm.final_exponentiate(raw) == full:
                    return dict(why="final_exponentiate(pairing(Q, P, final_exponentiate=False)) != pairing(Q, P)", scalars=[a, b])
            return None
        if k == "gates":
            infs1 = [m.Z1] if not opt else [m.Z1, m.neg(m.Z1), m.double(m.Z1), m.multiply(m.Z1, 3), (m.FQ(5), m.FQ(7), m.FQ(0)),
                                             m.multiply(m.G1, m.curve_order), m.neg(m.multiply(m.G1, m.curve_order))]
            infs2 = [m.Z2] if not opt else [m.Z2, m.neg(m.Z2), m.double(m.Z2), m.multiply(m.G2, m.curve_order)]
            for z in infs1:
                try:
                    if not m.pairing(m.G2, z) == one:
                        return dict(why="pairing(Q, infinity) is not the unit", representative=str(z)[:80])
                except Exception as e:
                    return dict(why="pairing(Q, infinity) raised", observed=f"{type(e).__name__}: {e}")
            for z in infs2:
                try:
                    if not m.pairing(z, m.G1) == one:
                        return dict(why="pairing(infinity, P) is not the unit", representative=str(z)[:80])
                except Exception as e:
                    return dict(why="pairing(infinity, P) raised", observed=f"{type(e).__name__}: {e}")
            # history: verifications that end early (invalid key inside AggregateVerify, malformed signature, wrong key) must not
            # change how pairing treats its arguments afterwards: after every such call an off-curve point must still be refused
            if key == "optimized_bls12_381":
                from py_ecc.bls import G2Basic, G2MessageAugmentation, G2ProofOfPossession
                pk1, pk2 = G2Basic.SkToPk(3), G2Basic.SkToPk(5)
                sig = G2Basic.Sign(3, b"m1")
                bad_pk = b"\x00" * 48
                inf_pk = b"\xc0" + b"\x00" * 47
                badP_ = (m.G1[0], m.G1[1] + m.FQ.one(), m.G1[2])
                calls = []
                for S_ in (G2Basic, G2MessageAugmentation, G2ProofOfPossession):
                    calls += [(S_.__name__ + ".Verify(wrong key)", lambda S_=S_: S_.Verify(pk2, b"m1", sig)),
                              (S_.__name__ + ".Verify(malformed signature)", lambda S_=S_: S_.Verify(pk1, b"m1", b"\x00" * 96)),
                              (S_.__name__ + ".AggregateVerify(one invalid key)", lambda S_=S_: S_.AggregateVerify([pk1, bad_pk], [b"m1", b"m2"], sig)),
                              (S_.__name__ + ".AggregateVerify(identity key)", lambda S_=S_: S_.AggregateVerify([pk1, inf_pk], [b"m1", b"m2"], sig))]
                calls += [("FastAggregateVerify(one invalid key)", lambda: G2ProofOfPossession.FastAggregateVerify([pk1, bad_pk], b"m1", sig)),
                          ("PopVerify(invalid key)", lambda: G2ProofOfPossession.PopVerify(bad_pk, sig))]
                for label, f_ in calls:
                    try:
                        f_()
                    except Exception:
                        pass
                    try:
                        m.pairing(m.G2, badP_)
                        return dict(why=f"after {label} returned, pairing accepts a point that is not on the curve (call-history dependence)")
                    except Exception:
                        pass
            # off-curve arguments must be refused, also when the other argument is infinity
            if opt:
                badP = (m.G1[0], m.G1[1] + m.FQ.one(), m.G1[2])
                badQ = (m.G2[0], m.G2[1] + m.FQ2.one(), m.G2[2])
            else:
                badP = (m.G1[0], m.G1[1] + 1)
                badQ = (m.G2[0], m.G2[1] + m.FQ2.one())
            for Qa, Pa, what in ((m.G2, badP, "P off curve"), (badQ, m.G1, "Q off curve"), (infs2[0], badP, "P off curve, Q infinity"),
                                 (badQ, infs1[0], "Q off curve, P infinity"), (badQ, badP, "both off curve")):
                try:
                    m.pairing(Qa, Pa)
                    return dict(why=f"an argument that is not on its curve was paired instead of refused ({what})")
                except Exception:
                    pass
            return None
        n, bad = check_bilinear(key, rng, 4 if opt else 2)
        return bad
