#!/usr/bin/env python3
"""rewrites the 'units' and 'obligations' columns of the table in DESIGN.md section 0.2 from evidence/*.json
(units: own + dependency units of the check)"""
import json, os, re
HERE = os.path.dirname(os.path.dirname(os.path.abspath(__file__)))
p = os.path.join(HERE, "DESIGN.md")
s = open(p).read()


def ev(pid):
    e = json.load(open(os.path.join(HERE, "evidence", f"{pid}.json")))
    c = e["coverage"]
    dep = len(c.get("dependency_units", []))
    return f"{c['units'] - dep}+{dep}" if dep else str(c["units"]), str(c["obligations"])


out = []
for line in s.splitlines():
    m = re.match(r"^\| (C\d\d(?:, C\d\d)*) \| ([^|]*) \| ([^|]*) \|(.*)$", line)
    if m:
        ids = m.group(1).split(", ")
        us, os_ = zip(*[ev(i) for i in ids])
        line = f"| {m.group(1)} | {', '.join(us)} | {', '.join(os_)} |{m.group(4)}"
    out.append(line)
open(p, "w").write("\n".join(out) + "\n")
print("table updated")
