#!/usr/bin/env python3
"""applies every seeded defect under /verif/seeded to /repo in turn, runs the check of its property (and any
extra properties given in meta['also']), undoes the change, and records the outcome in seeded/RESULTS.json.
usage: tools/sweep_seeds.py [seed ids...]"""
import json, os, subprocess, sys, time
HERE = os.path.dirname(os.path.dirname(os.path.abspath(__file__)))
SD = os.path.join(HERE, "seeded")
res_path = os.path.join(SD, "RESULTS.json")
results = json.load(open(res_path)) if os.path.exists(res_path) else {}
ids = sys.argv[1:] or sorted(d for d in os.listdir(SD) if os.path.isdir(os.path.join(SD, d)))
claimed = {c["property_id"] for c in json.load(open(os.path.join(HERE, "MANIFEST.json")))["checks"]}
assert subprocess.run(["git", "-C", "/repo", "status", "--porcelain"], capture_output=True, text=True).stdout.strip() == "", "/repo not clean"
for sid in ids:
    d = os.path.join(SD, sid)
    meta = json.load(open(os.path.join(d, "meta.json")))
    props = [meta["property"]] + meta.get("also", [])
    r = subprocess.run(["git", "-C", "/repo", "apply", os.path.join(d, "patch.diff")])
    if r.returncode:
        results[sid] = dict(error="patch does not apply")
        continue
    out = {}
    try:
        for p in props:
            if p not in claimed:
                out[p] = dict(exit=None, note="property not claimed yet")
                continue
            t0 = time.time()
            env = dict(os.environ, VERIF_EVIDENCE_DIR="/tmp/verif-sweep-evidence", VERIF_REPLAY_DIR="/tmp/verif-sweep-replays")
            pr = subprocess.run(["./check", p], cwd=HERE, capture_output=True, text=True, env=env)
            lines = [l for l in pr.stdout.splitlines() if l.startswith(("VIOLATION", "UNDECIDED", "CHECKER"))]
            failed = [l.strip()[:260] for l in pr.stdout.splitlines() if l.strip().startswith("failed obligation")]
            out[p] = dict(exit=pr.returncode, seconds=round(time.time() - t0, 1), verdict_lines=lines[:6],
                          failed_obligations=failed[:4],
                          with_input=any("no-failing-input-found" not in l for l in lines if l.startswith("VIOLATION")))
    finally:
        subprocess.run(["git", "-C", "/repo", "checkout", "--", "."])
    results[sid] = out
    print(sid, {p: (v.get("exit"), "input" if v.get("with_input") else "") for p, v in out.items()}, flush=True)
json.dump(results, open(res_path, "w"), indent=1, sort_keys=True)
caught = sum(1 for v in results.values() if any(isinstance(x, dict) and x.get("exit") == 1 for x in v.values()))
print(f"{caught}/{len(results)} seeded defects reported as VIOLATION")
