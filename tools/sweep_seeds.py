#!/usr/bin/env python3
"""Runs every seeded defect under /verif/seeded against the check of its property.  Each seed is applied to a private scratch
copy of /repo/py_ecc (outside /repo and /verif, removed afterwards); the check runs with PY_ECC_REPO pointing at the copy and
writes its evidence/replays to a scratch directory, so neither /repo nor the committed evidence is touched.
usage: tools/sweep_seeds.py [-j N] [seed ids...]      -> seeded/RESULTS.json"""
import json, os, shutil, subprocess, sys, tempfile, time
from concurrent.futures import ThreadPoolExecutor
HERE = os.path.dirname(os.path.dirname(os.path.abspath(__file__)))
SD = os.path.join(HERE, "seeded")
res_path = os.path.join(SD, "RESULTS.json")
args = sys.argv[1:]
jobs = 3
if args[:1] == ["-j"]:
    jobs = int(args[1]); args = args[2:]
results = json.load(open(res_path)) if os.path.exists(res_path) else {}
ids = args or sorted(d for d in os.listdir(SD) if os.path.isdir(os.path.join(SD, d)))
claimed = {c["property_id"] for c in json.load(open(os.path.join(HERE, "MANIFEST.json")))["checks"]}


def one(sid):
    d = os.path.join(SD, sid)
    meta = json.load(open(os.path.join(d, "meta.json")))
    props = [meta["property"]] + meta.get("also", [])
    tmp = tempfile.mkdtemp(prefix=f"sweep-{sid}-")
    try:
        shutil.copytree("/repo/py_ecc", os.path.join(tmp, "py_ecc"))
        r = subprocess.run(["patch", "-p1", "-s", "-d", tmp, "-i", os.path.join(d, "patch.diff")], capture_output=True, text=True)
        if r.returncode:
            return sid, dict(error="patch does not apply: " + (r.stdout + r.stderr)[-300:])
        out = {}
        for p in props:
            if p not in claimed:
                out[p] = dict(exit=None, note="property not claimed")
                continue
            t0 = time.time()
            env = dict(os.environ, PY_ECC_REPO=tmp, VERIF_EVIDENCE_DIR=os.path.join(tmp, "evidence"), VERIF_REPLAY_DIR=os.path.join(tmp, "replays"))
            pr = subprocess.run(["./check", p, "--jobs", "6"], cwd=HERE, capture_output=True, text=True, env=env)
            lines = [l.replace(tmp, "<scratch>") for l in pr.stdout.splitlines() if l.startswith(("VIOLATION", "UNDECIDED", "CHECKER"))]
            failed = [l.strip()[:260] for l in pr.stdout.splitlines() if l.strip().startswith("failed obligation")]
            out[p] = dict(exit=pr.returncode, seconds=round(time.time() - t0, 1), verdict_lines=lines[:6], failed_obligations=failed[:4],
                          with_input=any("no-failing-input-found" not in l for l in lines if l.startswith("VIOLATION")))
        return sid, out
    finally:
        shutil.rmtree(tmp, ignore_errors=True)


with ThreadPoolExecutor(max_workers=jobs) as ex:
    for sid, out in ex.map(one, ids):
        results[sid] = out
        print(sid, {p: (v.get("exit"), "input" if v.get("with_input") else "") for p, v in out.items()} if "error" not in out else out, flush=True)
        json.dump(results, open(res_path, "w"), indent=1, sort_keys=True)
caught = sum(1 for v in results.values() if any(isinstance(x, dict) and x.get("exit") == 1 for x in v.values()))
print(f"{caught}/{len(results)} seeded defects reported as VIOLATION")
