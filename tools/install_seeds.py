#!/usr/bin/env python3
"""copies confirmed seeded defects from /tmp/seeds/<id>_<k> into /verif/seeded/<id>_<k>/ with a meta.json"""
import json, os, re, shutil, sys
SRC = "/tmp/seeds"
DST = os.path.join(os.path.dirname(os.path.dirname(os.path.abspath(__file__))), "seeded")
os.makedirs(DST, exist_ok=True)
for d in sorted(os.listdir(SRC)):
    if not re.fullmatch(r"C\d\d_\w+", d):
        continue
    sd = os.path.join(SRC, d)
    cf = os.path.join(sd, "confirm.txt")
    if not os.path.exists(cf):
        continue
    c = open(cf).read()
    ok = ("demo without patch: exit 0" in c and "apply: exit 0" in c and re.search(r"demo with patch: exit [1-9]", c)
          and re.search(r"\b196 passed", c) and "failed" not in c.split("demo with patch")[-1].splitlines()[-1])
    if not ok:
        print("NOT CONFIRMED", d)
        continue
    td = os.path.join(DST, d)
    os.makedirs(td, exist_ok=True)
    for f in ("patch.diff", "demo.py"):
        shutil.copy(os.path.join(sd, f), os.path.join(td, f))
    notes = open(os.path.join(sd, "notes.txt")).read() if os.path.exists(os.path.join(sd, "notes.txt")) else ""
    meta_path = os.path.join(td, "meta.json")
    old = json.load(open(meta_path)) if os.path.exists(meta_path) else {}
    meta = dict(old)
    meta.update(dict(
        id=d, property=d.split("_")[0],
        origin="written by an independent sub-agent that saw only the property text and a scratch worktree of /repo",
        breaks_and_needs=notes.strip()[:4000],
        confirmed=dict(
            how="tools/confirm_seed.sh in a private scratch worktree (removed afterwards): demo on the clean tree, "
                "git apply, demo again, then the full existing test-suite with the change applied",
            transcript=c.strip().splitlines()[:12]),
    ))
    json.dump(meta, open(meta_path, "w"), indent=1)
    print("installed", d)
