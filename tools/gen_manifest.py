#!/usr/bin/env python3
"""regenerates MANIFEST.json from pyvc.registry (claimed checks + not_applicable)"""
import json, os, sys
HERE = os.path.dirname(os.path.dirname(os.path.abspath(__file__)))
sys.path.insert(0, HERE)
from pyvc import registry

props = [json.loads(l) for l in open(os.path.join(HERE, "properties.jsonl"))]
byp = registry.units_by_property()
checks, na = [], []
for p in props:
    pid = p["id"]
    meta = registry.PROPS.get(pid)
    if meta is None or pid not in byp or not meta.get("claimed", True):
        na.append(dict(property_id=pid, reason=(meta or {}).get("na_reason", "check not built yet (build in progress; see DESIGN.md section 11)")))
        continue
    checks.append(dict(
        property_id=pid,
        quick_cmd=f"./check {pid} --tier quick",
        thorough_cmd=f"./check {pid} --tier thorough",
        evidence_file=f"/verif/evidence/{pid}.json",
        replay_cmd_template=f"./check {pid} --replay {{path}}",
        engine="pyvc",
        level_claimed=dict(category=meta.get("level", "proof"), text=meta["text"], design_ref=meta.get("design_ref", "DESIGN.md section 8")),
        level_note=meta["note"],
        technique=meta.get("technique", "contract-based deductive verification: sidecar contracts on the real functions, VCs generated from the AST of /repo on every run, discharged by polyid / z3 / cvc5 / eval"),
    ))
m = dict(
    version=1,
    setup_cmd="./check --setup",
    hooks=dict(guard="PY_ECC_VERIF",
               enable="no hooks: contracts are sidecar files under /verif/contracts and monitors wrap functions from outside; nothing in /repo is instrumented",
               baseline_off_cmd="cd /repo && /venv/bin/python -m pytest -ra -q -p no:cacheprovider --timeout=900 --continue-on-collection-errors",
               source_commits=registry.FIX_COMMITS, add_only=True),
    engines=[dict(name="pyvc", path="/verif/pyvc", serves_properties=[c["property_id"] for c in checks],
                  kind_free_text="home-made deductive verifier for a Python subset: AST symbolic executor with modular (contract-based) calls, loop invariants and induction; back ends: exact polynomial-identity kernel (polyid), z3, cvc5, closed-term evaluation on CPython; Lean 4/Mathlib for the code-independent lemma library")],
    checks=checks,
    notes="Exit codes: 0 held, 1 violation, 2 undecided (outside subset / contract no longer matches code shape), 3 checker failure. See DESIGN.md.",
    not_applicable=na,
)
json.dump(m, open(os.path.join(HERE, "MANIFEST.json"), "w"), indent=1)
print(f"{len(checks)} checks, {len(na)} not claimed")
