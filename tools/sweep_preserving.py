#!/usr/bin/env python3
"""property-preserving edits (/verif/preserving): every listed check must stay green (exit 0) on a scratch copy with the edit.
usage: tools/sweep_preserving.py [-j N] [edit ids...]   -> preserving/RESULTS.json"""
import json, os, shutil, subprocess, sys, tempfile
from concurrent.futures import ThreadPoolExecutor
HERE = os.path.dirname(os.path.dirname(os.path.abspath(__file__)))
PD = os.path.join(HERE, "preserving")
args = sys.argv[1:]
jobs = 3
if args[:1] == ["-j"]:
    jobs = int(args[1]); args = args[2:]
res_path = os.path.join(PD, "RESULTS.json")
res = json.load(open(res_path)) if (args and os.path.exists(res_path)) else {}
ids = args or sorted(d for d in os.listdir(PD) if os.path.isdir(os.path.join(PD, d)))


def one(pid):
    meta = json.load(open(os.path.join(PD, pid, "meta.json")))
    tmp = tempfile.mkdtemp(prefix=f"pres-{pid[:12]}-")
    out, logs = {}, []
    try:
        shutil.copytree("/repo/py_ecc", os.path.join(tmp, "py_ecc"))
        r = subprocess.run(["patch", "-p1", "-s", "-d", tmp, "-i", os.path.join(PD, pid, "patch.diff")], capture_output=True, text=True)
        assert r.returncode == 0, (pid, r.stdout, r.stderr)
        for p in meta["properties"]:
            env = dict(os.environ, PY_ECC_REPO=tmp, VERIF_EVIDENCE_DIR=os.path.join(tmp, "ev"), VERIF_REPLAY_DIR=os.path.join(tmp, "rp"))
            pr = subprocess.run(["./check", p, "--jobs", "6"], cwd=HERE, capture_output=True, text=True, env=env)
            out[p] = pr.returncode
            if pr.returncode != 0:
                logs.append(pr.stdout[-1500:])
    finally:
        shutil.rmtree(tmp, ignore_errors=True)
    return pid, out, logs


bad = 0
with ThreadPoolExecutor(max_workers=jobs) as ex:
    for pid, out, logs in ex.map(one, ids):
        res[pid] = out
        bad += sum(1 for v in out.values() if v != 0)
        for l in logs:
            print(l)
        print(pid, out, flush=True)
        json.dump(res, open(res_path, "w"), indent=1, sort_keys=True)
print("checks that did not exit 0:", bad)
sys.exit(1 if bad else 0)
