#!/usr/bin/env python3
"""property-preserving edits (/verif/preserving): every listed check must stay green (exit 0) on a scratch copy with the edit"""
import json, os, shutil, subprocess, sys, tempfile
HERE = os.path.dirname(os.path.dirname(os.path.abspath(__file__)))
PD = os.path.join(HERE, "preserving")
res = {}
bad = 0
for pid in sorted(d for d in os.listdir(PD) if os.path.isdir(os.path.join(PD, d))):
    meta = json.load(open(os.path.join(PD, pid, "meta.json")))
    tmp = tempfile.mkdtemp(prefix=f"pres-{pid}-")
    try:
        shutil.copytree("/repo/py_ecc", os.path.join(tmp, "py_ecc"))
        r = subprocess.run(["patch", "-p1", "-s", "-d", tmp, "-i", os.path.join(PD, pid, "patch.diff")], capture_output=True, text=True)
        assert r.returncode == 0, (pid, r.stdout, r.stderr)
        out = {}
        for p in meta["properties"]:
            env = dict(os.environ, PY_ECC_REPO=tmp, VERIF_EVIDENCE_DIR=os.path.join(tmp, "ev"), VERIF_REPLAY_DIR=os.path.join(tmp, "rp"))
            pr = subprocess.run(["./check", p], cwd=HERE, capture_output=True, text=True, env=env)
            out[p] = pr.returncode
            if pr.returncode != 0:
                bad += 1
                print(pr.stdout[-1500:])
        res[pid] = out
        print(pid, out, flush=True)
    finally:
        shutil.rmtree(tmp, ignore_errors=True)
json.dump(res, open(os.path.join(PD, "RESULTS.json"), "w"), indent=1, sort_keys=True)
print("false alarms:", bad)
sys.exit(1 if bad else 0)
