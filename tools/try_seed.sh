#!/usr/bin/env bash
# usage: tools/try_seed.sh <seed dir> <prop> [prop...]   applies the patch to /repo, runs checks, undoes it
d="$1"; shift
git -C /repo apply "$d/patch.diff" || { echo "APPLY FAILED $d"; exit 9; }
for p in "$@"; do
  out=$(cd /verif && VERIF_EVIDENCE_DIR=/tmp/verif-sweep-evidence VERIF_REPLAY_DIR=/tmp/verif-sweep-replays ./check "$p" 2>&1); rc=$?
  echo "== $(basename $d) on $p: exit=$rc"; echo "$out" | grep -E "VIOLATION|UNDECIDED|CHECKER|failed obligation|outside-subset|undecided:|crashed" | cut -c1-330 | head -8
done
git -C /repo checkout -- .
