#!/usr/bin/env bash
# usage: confirm_seed.sh <seed dir>   -- confirms in a private scratch worktree: patch applies, demo passes
# without it and fails with it, full existing test-suite still passes with it.  Writes <seed>/confirm.txt
d="$1"; id=$(basename "$d"); wt="/tmp/cwt/$id"
mkdir -p /tmp/cwt; rm -rf "$wt"; git -C /repo worktree add -q --detach "$wt" HEAD || exit 9
run() { (cd "$wt" && PYTHONPATH="$wt" timeout 1500 /venv/bin/python "$@"); }
{
  echo "seed $id  repo HEAD $(git -C /repo rev-parse --short HEAD)"
  run "$d/demo.py" >/dev/null 2>&1; echo "demo without patch: exit $?"
  git -C "$wt" apply "$d/patch.diff"; echo "apply: exit $?"
  run "$d/demo.py" >/tmp/cwt/$id.demo.out 2>&1; echo "demo with patch: exit $?"; tail -3 /tmp/cwt/$id.demo.out | cut -c1-300
  run -m pytest -q -p no:cacheprovider --timeout=900 tests 2>&1 | tail -1
} > "$d/confirm.txt" 2>&1
git -C /repo worktree remove --force "$wt"
cat "$d/confirm.txt" | tr '\n' '|'; echo
