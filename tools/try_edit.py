#!/usr/bin/env python3
"""usage: try_edit.py <dir with patch.diff> [Cxx ...]  -- applies the patch to a scratch copy of /repo/py_ecc and runs the checks
(default: chosen from the files the patch touches); prints one line per check; never touches /repo or committed evidence"""
import json, os, re, shutil, subprocess, sys, tempfile
HERE = os.path.dirname(os.path.dirname(os.path.abspath(__file__)))
BYFILE = [
    (r"bls/hash\.py", ["C15", "C16", "C10", "C01"]),
    (r"bls/ciphersuites\.py", ["C01", "C02", "C03", "C04", "C09", "C16"]),
    (r"bls/(point_compression|g2_primitives)\.py", ["C11", "C04", "C02", "C17", "C09"]),
    (r"bls/hash_to_curve\.py|optimized_swu|clear_cofactor", ["C10", "C17", "C09", "C15"]),
    (r"secp256k1", ["C18", "C19", "C06", "C13"]),
    (r"optimized_bls12_381/optimized_curve", ["C13", "C07", "C17", "C11", "C05"]),
    (r"optimized_bn128/optimized_curve", ["C13", "C07", "C05"]),
    (r"(bn128|bls12_381)/(bn128|bls12_381)_curve", ["C07", "C05", "C12"]),
    (r"pairing", ["C05", "C12", "C13"]),
    (r"fields/|utils\.py", ["C08", "C14"]),
]


def props_for(patch):
    files = re.findall(r"^\+\+\+ b/(\S+)", open(patch).read(), re.M)
    out = []
    for f in files:
        for pat, ps in BYFILE:
            if re.search(pat, f):
                out += [p for p in ps if p not in out]
    return out + (["C20"] if "C20" not in out else [])


def main():
    d = sys.argv[1].rstrip("/")
    patch = os.path.join(d, "patch.diff")
    props = sys.argv[2:] or props_for(patch)
    tmp = tempfile.mkdtemp(prefix="try-" + os.path.basename(d) + "-")
    res = {}
    try:
        shutil.copytree("/repo/py_ecc", os.path.join(tmp, "py_ecc"))
        r = subprocess.run(["patch", "-p1", "-s", "-d", tmp, "-i", patch], capture_output=True, text=True)
        if r.returncode:
            print(os.path.basename(d), "PATCH FAILED", r.stdout, r.stderr)
            return 9
        for p in props:
            env = dict(os.environ, PY_ECC_REPO=tmp, VERIF_EVIDENCE_DIR=os.path.join(tmp, "ev"), VERIF_REPLAY_DIR=os.path.join(tmp, "rp"))
            pr = subprocess.run(["./check", p], cwd=HERE, capture_output=True, text=True, env=env)
            res[p] = pr.returncode
            if pr.returncode:
                lines = [l for l in pr.stdout.splitlines() if re.search(r"VIOLATION|UNDECIDED|CHECKER|failed obligation|outside|undecided", l)]
                print(f"--- {os.path.basename(d)} {p} exit {pr.returncode}")
                print("\n".join(l[:400] for l in lines[:12])); print("\n".join(l[:300] for l in pr.stdout.splitlines() if "no longer generated" in l))
                # keep the replay files' concrete part short
                for l in lines:
                    m = re.search(r"replay=(\S+)", l)
                    if m and os.path.exists(m.group(1)):
                        try:
                            rp = json.load(open(m.group(1)))
                            print("   replay:", json.dumps(rp.get("concrete") or rp.get("witness") or rp)[:600])
                        except Exception:
                            pass
        print("RESULT", os.path.basename(d), json.dumps(res), flush=True)
    finally:
        shutil.rmtree(tmp, ignore_errors=True)
    return 0


sys.exit(main())
