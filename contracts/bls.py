"""L6 BLS ciphersuite contracts (DESIGN §8 C01-C04, C09): every method of the three IETF suites is executed
symbolically from the real source, for ARBITRARY byte strings (of any length) as keys, messages and signatures,
against the contracts of its callees (codecs C11, subgroup_check C17, hash_to_G2 C10, curve ops C13, pairing
A-PAIRING).  z3 (UF + LIA + sequences)."""
from __future__ import annotations

import z3

from pyvc import blsdom as D
from pyvc.blsdom import (BPoint, GTVal, R, ok1, pt1, ok2, pt2, enc1, enc2, isO, sub, dl, H2, mulP, G1gen, O1, O2)
from pyvc.core import ZAtom, Unsupported, cur
from pyvc.interp import PyRaise, ValidationError
from pyvc.sym import SInt, SBytes, zt, bt, bytes_const
from pyvc.unit import Unit
from contracts.curves import mk_interp

UNITS = {}
CS = "py_ecc.bls.ciphersuites"
G2P = "py_ecc.bls.g2_primitives"
OPTC = "py_ecc.optimized_bls12_381.optimized_curve"
OPTP = "py_ecc.optimized_bls12_381.optimized_pairing"
OFE = "py_ecc.fields.optimized_field_elements"
H2C = "py_ecc.bls.hash_to_curve"
SUITES = ["G2Basic", "G2MessageAugmentation", "G2ProofOfPossession"]
# the draft-v4 tags, pinned (C09)
TAGS = {"G2Basic": b"BLS_SIG_BLS12381G2_XMD:SHA-256_SSWU_RO_NUL_",
        "G2MessageAugmentation": b"BLS_SIG_BLS12381G2_XMD:SHA-256_SSWU_RO_AUG_",
        "G2ProofOfPossession": b"BLS_SIG_BLS12381G2_XMD:SHA-256_SSWU_RO_POP_"}
POP_TAG = b"BLS_POP_BLS12381G2_XMD:SHA-256_SSWU_RO_POP_"


def bls_interp(ctx, top):
    it = mk_interp(ctx, top)
    c = it.cfg.contracts
    c[f"{G2P}.pubkey_to_G1"] = D.DecodeContract(top, "G1")
    c[f"{G2P}.signature_to_G2"] = D.DecodeContract(top, "G2")
    c[f"{G2P}.G1_to_pubkey"] = D.EncodeContract("G1")
    c[f"{G2P}.G2_to_signature"] = D.EncodeContract("G2")
    c[f"{G2P}.subgroup_check"] = D.SubgroupCheckContract()
    for op in ("multiply", "add", "neg", "is_inf"):
        c[f"{OPTC}.{op}"] = D.GroupOpContract(op)
    hc = D.HashToG2Contract(top)
    c[f"{H2C}.hash_to_G2"] = hc
    pc = D.PairingContract(top)
    c[f"{OPTP}.pairing"] = pc
    c[f"{OPTP}.final_exponentiate"] = D.FinalExpContract()
    c[f"{OFE}.FQP.one"] = D.FQ12OneContract()
    g = it.cfg.globals
    g[(CS, "G1")] = BPoint("G1", G1gen)
    g[(CS, "Z1")] = BPoint("G1", O1)
    g[(CS, "Z2")] = BPoint("G2", O2)
    it.hash_contract, it.pairing_contract = hc, pc
    return it


def suite_class(it, name):
    return it.module_value(it.prog.load(CS), name)


def call_cls(it, cls, meth, args):
    """call cls.<meth>(*args) through the MRO; returns ('ret', v) / ('raise', exc class)"""
    f, owner = cls.lookup(meth)
    if f is None:
        raise Unsupported(f"{cls.name}.{meth} no longer exists")
    it.cfg.top = f.qualname
    a = list(args)
    if "staticmethod" not in f.decorators:
        a = [cls] + a
    try:
        return "ret", it.call_function(f, a, {}, recv=cls, force_inline=True), f.qualname
    except PyRaise as pr:
        return "raise", pr.exc_cls, f.qualname


def as_formula(path, v):
    """z3 formula of a boolean result"""
    if isinstance(v, bool):
        return z3.BoolVal(v)
    if isinstance(v, ZAtom):
        return v.t
    raise Unsupported(f"boolean result expected, got {type(v).__name__}")


def key_ok(pk):
    """PK is the canonical 48-byte encoding of a non-identity point of the prime-order subgroup of G1"""
    t = pt1(pk)
    return z3.And(z3.Length(pk) == 48, ok1(pk), z3.Not(isO(t)), sub(t))


def sig_ok(sg):
    t = pt2(sg)
    return z3.And(z3.Length(sg) == 96, ok2(sg), sub(t))


def prelude(path):
    D.facts_generator(path)


# ---------------------------------------------------------------------------------------------------
# KeyValidate (C04)
# ---------------------------------------------------------------------------------------------------
def u_keyvalidate(ctx, suite):
    name = f"{CS}.{suite}.KeyValidate"

    def body(path):
        prelude(path)
        it = bls_interp(ctx, name)
        cls = suite_class(it, suite)
        PK = SBytes.var("PK")
        kind, res, q = call_cls(it, cls, "KeyValidate", [PK])
        if kind == "raise":
            path.prove(f"{name}/raises.never", False, detail=f"raised {res.__name__} on a byte string")
            return
        path.prove(f"{name}/ensures.bool", isinstance(res, (bool, ZAtom)), detail="returns a boolean")
        path.prove(f"{name}/ensures.iff", ZAtom(as_formula(path, res) == key_ok(PK.t)),
                   detail="True exactly for the canonical 48-byte encoding of a non-identity subgroup point")
    ctx.ex.run(body, name)


# ---------------------------------------------------------------------------------------------------
# Verify / PopVerify (C04, C02)
# ---------------------------------------------------------------------------------------------------
def check_verdict(path, name, res, gates, spec_exp, detail):
    """obligation  res <=> gates and [spec_exp = 0 in Z/r]   where `gates` is a z3 formula and spec_exp a polyid
    exponent (the two domains meet only here: the code's final comparison is a polyid atom)"""
    from pyvc.core import FAtom
    if isinstance(res, FAtom):
        verdict = path.case(res, "pairing product == 1?")
        path.prove(f"{name}/ensures.iff", ZAtom(gates), detail="reached the pairing check: all gates hold. " + detail)
        path.prove(f"{name}/ensures.iff", FAtom(spec_exp.r.n, verdict),
                   detail=("accepted: " if verdict else "rejected: ") + "the spec's verification exponent is "
                          + ("zero" if verdict else "non-zero") + " in Z/r. " + detail)
        return
    f = as_formula(path, res)
    # a boolean decided before the pairing check: it must be False and some gate must have failed
    path.prove(f"{name}/ensures.iff", ZAtom(z3.And(z3.Not(f), z3.Not(gates))),
               detail="returned without evaluating pairings: must be False because a gate failed. " + detail)


def u_verify(ctx, suite, meth):
    name = f"{CS}.{suite}.{meth}"

    def body(path):
        prelude(path)
        it = bls_interp(ctx, name)
        cls = suite_class(it, suite)
        PK, sg = SBytes.var("PK"), SBytes.var("signature")
        if meth == "PopVerify":
            args = [PK, sg]
            mprime, DST = PK.t, bytes_const(POP_TAG)
        else:
            msg = SBytes.var("message")
            args = [PK, msg, sg]
            mprime = z3.Concat(PK.t, msg.t) if suite == "G2MessageAugmentation" else msg.t
            DST = bytes_const(TAGS[suite])
        kind, res, q = call_cls(it, cls, meth, args)
        if kind == "raise":
            path.prove(f"{name}/raises.never", False, detail=f"raised {res.__name__}: verification must be total on byte strings")
            return
        from pyvc.core import FAtom
        path.prove(f"{name}/ensures.bool", isinstance(res, (bool, ZAtom, FAtom)), detail="returns a boolean")
        # spec (A-PAIRING form):  True  <=>  key_ok(PK) and sig_ok(sig) and dl(S) = dl(H(m', DST)) * dl(P)  in Z/r
        spec_exp = D.dlR(path, pt2(sg.t)) - D.dlR(path, H2(mprime, DST)) * D.dlR(path, pt1(PK.t))
        check_verdict(path, name, res, z3.And(key_ok(PK.t), sig_ok(sg.t)), spec_exp,
                      "spec: dl(S) = dl(H(m', DST)) dl(P) mod r with m', DST those of this suite")
        # domain separation / augmentation: every hash_to_G2 call used exactly this suite's (m', DST) and sha256
        for (m_, d_, hf) in it.hash_contract.calls:
            path.prove(f"{name}/ensures.hash-input", ZAtom(z3.And(bt(m_) == mprime, bt(d_) == DST)),
                       detail="hash_to_G2 is called on this suite's message encoding and tag")
    ctx.ex.run(body, name)
    ctx.assume("A-PAIRING: the product of pairing(Q_i, P_i, False) passes final_exponentiate(.) == 1 iff sum dl(Q_i) dl(P_i) = 0 (mod r), "
               "for valid subgroup points (bilinearity + non-degeneracy of the ate pairing; bounded monitor under C05)")
    ctx.assume("contract of hash_to_G2: lands in the prime-order subgroup of G2 (C10; point counts forced by Hasse + computed facts, C17)")


for _s in SUITES:
    UNITS[f"bls.{_s}.KeyValidate"] = Unit(f"bls.{_s}.KeyValidate", u_keyvalidate, [f"{CS}.BaseG2Ciphersuite.KeyValidate"],
                                          props=("C04",), args=(_s,))
    UNITS[f"bls.{_s}.Verify"] = Unit(f"bls.{_s}.Verify", u_verify,
                                     [f"{CS}.BaseG2Ciphersuite._CoreVerify", f"{CS}.{_s}.Verify" if _s == "G2MessageAugmentation" else f"{CS}.BaseG2Ciphersuite.Verify"],
                                     props=("C04", "C02", "C01"), args=(_s, "Verify"))
UNITS["bls.G2ProofOfPossession.PopVerify"] = Unit("bls.G2ProofOfPossession.PopVerify", u_verify,
                                                  [f"{CS}.G2ProofOfPossession.PopVerify", f"{CS}.BaseG2Ciphersuite._CoreVerify"],
                                                  props=("C04", "C02", "C01"), args=("G2ProofOfPossession", "PopVerify"))


# ---------------------------------------------------------------------------------------------------
# loops over symbolic-length lists of byte strings
# ---------------------------------------------------------------------------------------------------
import ast as _ast                                          # noqa: E402
from pyvc.core import PathAbort, FAtom                      # noqa: E402
from pyvc.pymodel import SymBytesList, SymListZip           # noqa: E402

IntS = z3.IntSort()


class ElemLoop:
    """Hoare rule for `for x in L` / `for a, b in zip(A, B)` over symbolic lists (no break in the body):
       invariant  ALL(i): every element of index < i satisfies elem_fact (an uninterpreted predicate defined by
                  ALL(0), ALL(k+1) = ALL(k) and elem_fact(k));  plus an optional accumulator equal to the spec prefix value
       one symbolic iteration i is executed (0 <= i < n); a raise inside it is an outcome of the function;
       exit: ALL(n) and the accumulator at n."""

    def __init__(self, name, all_uf=None, elem_fact=None, acc=None, needs=()):
        self.name, self.all_uf, self.elem_fact, self.acc, self.needs = name, all_uf, elem_fact, acc, list(needs)
        self.info = {}

    def run_for(self, interp, st, fr):
        path = cur()
        if any(isinstance(n, _ast.Break) for n in _ast.walk(st)):
            raise Unsupported("break inside a loop under an element-wise contract")
        prev, path.in_source = path.in_source, False
        try:
            from pyvc.loops import require_declared
            require_declared(st, fr, {n.id for n in _ast.walk(st.target) if isinstance(n, _ast.Name)} |
                             ({self.acc.var} if self.acc is not None else set()), self.name)
            it = interp.eval(st.iter, fr)
            parts = it.parts if isinstance(it, SymListZip) else [it]
            if not all(isinstance(p, SymBytesList) for p in parts):
                raise Unsupported("element-wise loop contract on something that is not a symbolic list")
            n = zt(it.length()) if isinstance(it, SymListZip) else zt(it.n)
            self.info = dict(parts=parts, n=n)
            path.ghost[f"elemloop:{self.name}"] = self.info
            ALL = self.all_uf
            if ALL is not None:
                path.zc.append(ALL(0))
            if self.acc is not None:
                self.acc.entry(path, self.name, fr.env.get(self.acc.var))
            i = z3.Int(f"i!{next(path.fresh_id)}")
            if path.choose(2, "loop") == 0:
                path.sig[-1] = f"{self.name.split('/')[-1]}:iteration"
                path.zc.append(z3.And(i >= 0, i < n))
                elems = [z3.Select(p.arr, i) for p in parts]
                if ALL is not None:
                    path.zc.append(ALL(i))
                    # elimination instance of the definition of ALL at this index
                    path.zc.append(z3.Implies(ALL(n), self.elem_fact(elems)))
                for need in self.needs:
                    need(path, i, elems)
                tg = st.target
                vals = [SBytes(e) for e in elems]
                if isinstance(tg, _ast.Name) and len(vals) == 1:
                    fr.env[tg.id] = vals[0]
                elif isinstance(tg, _ast.Tuple) and len(tg.elts) == len(vals) and all(isinstance(e, _ast.Name) for e in tg.elts):
                    for e, v in zip(tg.elts, vals):
                        fr.env[e.id] = v
                else:
                    raise Unsupported("loop target shape")
                if self.acc is not None:
                    fr.env[self.acc.var] = self.acc.at(path, i)
                path.in_source = True
                interp.exec_block(st.body, fr)
                path.in_source = False
                if ALL is not None:
                    path.prove(f"{self.name}/preserve.elem-fact", ZAtom(self.elem_fact(elems)), kind="invariant",
                               detail="an iteration that completes normally has established the per-element fact")
                if self.acc is not None:
                    self.acc.check(path, self.name, i, fr.env[self.acc.var], elems)
                raise PathAbort()
            path.sig[-1] = f"{self.name.split('/')[-1]}:exit"
            if ALL is not None:
                path.zc.append(ALL(n))
            if self.acc is not None:
                fr.env[self.acc.var] = self.acc.at(path, n)
        finally:
            path.in_source = prev


class PointSumAcc:
    """accumulator `aggregate` holding a point: equals SUM(i) = fold of addP over the decoded first i elements"""

    def __init__(self, var, g, SUM, dec, zero):
        self.var, self.g, self.SUM, self.dec, self.zero = var, g, SUM, dec, zero

    def entry(self, path, name, v):
        path.zc.append(self.SUM(0) == self.zero)
        path.prove(f"{name}/entry.acc", isinstance(v, BPoint) and ZAtom(v.t == self.SUM(0)), kind="invariant",
                   detail="seeded with the point at infinity")

    def at(self, path, i):
        t = self.SUM(i)
        D.dl_facts(path, t)
        return BPoint(self.g, t, D.dlR(path, z3.simplify(t)))

    def check(self, path, name, i, v, elems):
        path.prove(f"{name}/preserve.acc", isinstance(v, BPoint) and ZAtom(v.t == z3.simplify(D.addP(self.SUM(i), self.dec(elems[0])))),
                   kind="invariant", detail="aggregate' = aggregate (+) decode(element)  (definition of the fold SUM(i+1))")


SUM2 = z3.Function("sum_sigs", IntS, D.Pt)
SUM1 = z3.Function("sum_keys", IntS, D.Pt)
ALL_LEN96 = z3.Function("all_len96", IntS, z3.BoolSort())
ALL_DEC2 = z3.Function("all_decode2", IntS, z3.BoolSort())


def sym_list(path, name):
    return SymBytesList.fresh(path, name)


def u_aggregate(ctx, suite):
    name = f"{CS}.{suite}.Aggregate"
    qn = f"{CS}.BaseG2Ciphersuite.Aggregate"

    def body(path):
        prelude(path)
        it = bls_interp(ctx, name)
        cls = suite_class(it, suite)
        sigs = sym_list(path, "signatures")
        n = zt(sigs.n)
        l0 = ElemLoop(f"{name}/loop0", ALL_LEN96, lambda e: z3.Length(e[0]) == 96)

        def need_len(p_, i, elems):
            p_.zc.append(z3.Implies(ALL_LEN96(n), z3.Length(elems[0]) == 96))
        l1 = ElemLoop(f"{name}/loop1", ALL_DEC2, lambda e: ok2(e[0]), acc=PointSumAcc("aggregate", "G2", SUM2, pt2, O2),
                      needs=[need_len])
        it.cfg.loops[(qn, 0)] = l0
        it.cfg.loops[(qn, 1)] = l1
        kind, res, q = call_cls(it, cls, "Aggregate", [sigs])
        all_ok = z3.And(n >= 1, ALL_LEN96(n), ALL_DEC2(n))
        if kind == "raise":
            path.prove(f"{name}/raises.only-if", ZAtom(z3.Not(all_ok)),
                       detail=f"raised {res.__name__}: only for an empty list, a wrongly sized entry or an entry that does not decode")
            return
        path.prove(f"{name}/raises.if", ZAtom(all_ok), detail="returned: at least one signature, all 96 bytes, all decode")
        path.prove(f"{name}/ensures.sum", isinstance(res, SBytes) and ZAtom(res.t == enc2(SUM2(n))),
                   detail="result = compressed encoding of the fold of (+) over the decoded signatures (the group sum)")
    ctx.ex.run(body, name)
    ctx.trust("order/grouping independence of the sum: commutativity and associativity of (+) (L-GROUP, Lean) and canonicity of the encoding (C11)")


for _s in SUITES:
    UNITS[f"bls.{_s}.Aggregate"] = Unit(f"bls.{_s}.Aggregate", u_aggregate, [f"{CS}.BaseG2Ciphersuite.Aggregate"],
                                        props=("C03", "C09"), args=(_s,))


# ---------------------------------------------------------------------------------------------------
# AggregateVerify (three suites) and FastAggregateVerify  (C03, C04)
# ---------------------------------------------------------------------------------------------------
ALL_KEYGATE = z3.Function("all_keys_pass_input_validation", IntS, z3.BoolSort())
ALL_KEYOK = z3.Function("all_keys_valid", IntS, z3.BoolSort())
ALL_MSG = z3.Function("all_messages_bytes", IntS, z3.BoolSort())


class PairingProductAcc:
    """accumulator `aggregate` of _CoreAggregateVerify: a GT value whose exponent is the spec prefix sum
    S(i) = sum_{j<i} dl(H(m'_j, DST)) dl(P_j)  in Z/r  (one opaque polyid variable per prefix)"""

    def __init__(self, var, DST, mprime_of, hash_contract, name):
        self.var, self.DST, self.mprime_of, self.hc, self.name = var, DST, mprime_of, hash_contract, name

    def S(self, path, i):
        key = "S:" + z3.simplify(i).sexpr() if isinstance(i, z3.ExprRef) else f"S:{i}"
        tab = path.ghost.setdefault("pairing-prefix", {})
        if key not in tab:
            from pyvc.poly import Poly, R as PR
            from pyvc.core import Fld
            tab[key] = Fld(PR(Poly.var(f"S{len(tab)}")), D.KR)
        return tab[key]

    def entry(self, path, name, v):
        path.pc.char = R
        path.prove(f"{name}/entry.acc", isinstance(v, GTVal) and FAtom(v.exp.r.n, True), kind="invariant",
                   detail="product seeded with 1 (exponent 0)")

    def at(self, path, i):
        if isinstance(i, z3.ExprRef) and z3.is_int_value(z3.simplify(i)) and z3.simplify(i).as_long() == 0:
            return GTVal(D.KR(0), False)
        return GTVal(self.S(path, i), False)

    def check(self, path, name, i, v, elems):
        pk, m = elems[0], elems[1]
        mp = self.mprime_of(pk, m)
        want = self.S(path, i) + D.dlR(path, H2(mp, self.DST)) * D.dlR(path, pt1(pk))
        path.prove(f"{name}/preserve.acc", isinstance(v, GTVal) and FAtom((v.exp - want).r.n, True), kind="invariant",
                   detail="aggregate' = aggregate * e(H(m'_i, DST), P_i): exponent S(i) + dl(H_i) dl(P_i)")
        calls = self.hc.calls[-1:] if self.hc.calls else []
        for (m_, d_, hf) in calls:
            path.prove(f"{name}/preserve.hash-input", ZAtom(z3.And(bt(m_) == mp, bt(d_) == self.DST)),
                       detail="hash_to_G2 on this suite's message encoding and tag")


def u_aggregate_verify(ctx, suite):
    name = f"{CS}.{suite}.AggregateVerify"
    qn = f"{CS}.BaseG2Ciphersuite._CoreAggregateVerify"

    def body(path):
        prelude(path)
        path.pc.char = R
        it = bls_interp(ctx, name)
        cls = suite_class(it, suite)
        PKs, msgs = sym_list(path, "PKs"), sym_list(path, "messages")
        sg = SBytes.var("signature")
        nk, nm = zt(PKs.n), zt(msgs.n)
        DST = bytes_const(TAGS[suite])
        aug = suite == "G2MessageAugmentation"
        pop = suite == "G2ProofOfPossession"
        mprime_of = (lambda pk, m: z3.Concat(pk, m)) if aug else (lambda pk, m: m)
        # the list the core routine iterates over as messages: for AUG the comprehension's lambda list
        gate_fact = (lambda e: key_ok(e[0])) if pop else (lambda e: z3.Length(e[0]) == 48)
        def elim_keyok(p_, i, elems):
            # elimination instance of the definition of ALL_KEYOK at this index (same list, same index)
            p_.zc.append(z3.Implies(ALL_KEYOK(nk), key_ok(elems[0])))
        l0 = ElemLoop(f"{name}/loop0", ALL_KEYGATE, gate_fact, needs=[elim_keyok])
        l1 = ElemLoop(f"{name}/loop1", ALL_MSG, lambda e: z3.BoolVal(True))

        def need_gate(p_, i, elems):
            p_.zc.append(z3.Implies(ALL_KEYGATE(nk), gate_fact(elems)))
        # in the main loop the second zip component is the (possibly augmented) message list; recover the raw message
        def mp_main(pk, m):
            return m                       # the list iterated already holds m' (AUG: pk || msg built by the caller)
        acc = PairingProductAcc("aggregate", DST, mp_main, it.hash_contract, name)
        l2 = ElemLoop(f"{name}/loop2", ALL_KEYOK, lambda e: key_ok(e[0]), acc=acc, needs=[need_gate])
        it.cfg.loops[(qn, 0)] = l0
        it.cfg.loops[(qn, 1)] = l1
        it.cfg.loops[(qn, 2)] = l2
        kind, res, q = call_cls(it, cls, "AggregateVerify", [PKs, msgs, sg])
        if kind == "raise":
            path.prove(f"{name}/raises.never", False, detail=f"raised {res.__name__}: verification must be total")
            return
        path.prove(f"{name}/ensures.bool", isinstance(res, (bool, ZAtom, FAtom)), detail="returns a boolean")
        from pyvc.pymodel import pairwise_distinct
        n = nk
        gates = [n >= 1, nk == nm, ALL_KEYOK(n), sig_ok(sg.t)]
        if suite == "G2Basic":
            gates.append(pairwise_distinct(msgs))
        # the main loop ran over zip(PKs, messages'): when lengths agree its length is n
        info = path.ghost.get(f"elemloop:{name}/loop2")
        if info is not None:
            path.zc.append(z3.Implies(nk == nm, info["n"] == n))
        spec_exp = D.dlR(path, pt2(sg.t)) - acc.S(path, info["n"] if info is not None else n)
        check_verdict(path, name, res, z3.And(*gates), spec_exp,
                      "spec: >= 1 signer, as many keys as messages, every key valid"
                      + (", messages pairwise distinct" if suite == "G2Basic" else "")
                      + ", signature canonical, and dl(S) = sum_i dl(H(m'_i)) dl(P_i)")
    ctx.ex.run(body, name)
    ctx.assume("A-PAIRING (see Verify)")
    ctx.note("ALL_*(k) are uninterpreted predicates defined by ALL(0), ALL(k+1) = ALL(k) and fact(k); S(i) is the spec prefix sum")


ALL_FAVGATE = z3.Function("all_keys_pass_validation_FAV", IntS, z3.BoolSort())
ALL_DEC1 = z3.Function("all_keys_decode", IntS, z3.BoolSort())


def u_fast_aggregate_verify(ctx):
    suite = "G2ProofOfPossession"
    name = f"{CS}.{suite}.FastAggregateVerify"
    qf = f"{CS}.G2ProofOfPossession.FastAggregateVerify"
    qa = f"{CS}.G2ProofOfPossession._AggregatePKs"

    def body(path):
        prelude(path)
        path.pc.char = R
        it = bls_interp(ctx, name)
        cls = suite_class(it, suite)
        PKs = sym_list(path, "PKs")
        msg, sg = SBytes.var("message"), SBytes.var("signature")
        n = zt(PKs.n)
        DST = bytes_const(TAGS[suite])
        l0 = ElemLoop(f"{name}/loop0", ALL_FAVGATE, lambda e: key_ok(e[0]))

        def need_ok(p_, i, elems):
            p_.zc.append(z3.Implies(ALL_FAVGATE(n), key_ok(elems[0])))

        class KeySum(PointSumAcc):
            def at(self2, p_, i):
                b = PointSumAcc.at(self2, p_, i)
                # the subgroup is closed under finite sums (induction on the fold; L-GROUP)
                p_.zc.append(z3.Implies(ALL_FAVGATE(n), sub(self2.SUM(i))))
                return b
        la = ElemLoop(f"{name}/_AggregatePKs.loop0", ALL_DEC1, lambda e: ok1(e[0]),
                      acc=KeySum("aggregate", "G1", SUM1, pt1, O1), needs=[need_ok])
        it.cfg.loops[(qf, 0)] = l0
        it.cfg.loops[(qa, 0)] = la
        # KNOWN FINDING K1 (DESIGN section 9): when the aggregate key is the identity (sum of the secret keys = 0 mod r)
        # Verify's KeyValidate rejects it although the signature may be the sum of the signers' signatures.  Mandated by the
        # IETF draft.  Excluded here; re-executed concretely by the unit bls.known-K1.
        path.assume(ZAtom(z3.Not(isO(SUM1(n)))), "known finding K1 excluded: aggregate public key is not the identity")
        kind, res, q = call_cls(it, cls, "FastAggregateVerify", [PKs, msg, sg])
        if kind == "raise":
            path.prove(f"{name}/raises.never", False, detail=f"raised {res.__name__}: verification must be total")
            return
        path.prove(f"{name}/ensures.bool", isinstance(res, (bool, ZAtom, FAtom)), detail="returns a boolean")
        gates = z3.And(n >= 1, ALL_FAVGATE(n), sig_ok(sg.t))
        agg = SUM1(n)
        spec_exp = D.dlR(path, pt2(sg.t)) - D.dlR(path, H2(msg.t, DST)) * D.dlR(path, z3.simplify(agg))
        check_verdict(path, name, res, gates, spec_exp,
                      "spec: >= 1 signer, every key valid, signature canonical, dl(S) = dl(H(m)) * sum_i dl(P_i)")
    ctx.ex.run(body, name)
    ctx.assume("A-PAIRING (see Verify); sums of subgroup points are subgroup points (L-GROUP)")
    # the excluded region of known finding K1, concretely on the real code
    import json
    from pyvc.report import harness
    ans = harness(["monitor", "--seed", str(ctx.seed)], stdin=json.dumps(dict(name="known_K1")))
    if ans.get("reproduced"):
        ctx.extra.setdefault("known_findings", []).append(dict(
            id="K1", reproduced=True,
            what="FastAggregateVerify([pk, -pk], m, identity signature) returns False although the identity is the sum of the two "
                 "signers' signatures (AggregateVerify returns True): the aggregate public key is the identity and KeyValidate rejects it"))
    elif "error" in ans:
        raise RuntimeError(f"known-finding monitor failed: {ans['error']}")


for _s in SUITES:
    UNITS[f"bls.{_s}.AggregateVerify"] = Unit(f"bls.{_s}.AggregateVerify", u_aggregate_verify,
                                              [f"{CS}.BaseG2Ciphersuite._CoreAggregateVerify", f"{CS}.{_s}.AggregateVerify"],
                                              props=("C03", "C04"), args=(_s,))
UNITS["bls.FastAggregateVerify"] = Unit("bls.FastAggregateVerify", u_fast_aggregate_verify,
                                        [f"{CS}.G2ProofOfPossession.FastAggregateVerify", f"{CS}.G2ProofOfPossession._AggregatePKs",
                                         f"{CS}.G2ProofOfPossession._is_valid_pubkey"], props=("C03", "C04"))


# ---------------------------------------------------------------------------------------------------
# SkToPk / Sign / PopProve  (C01, C09)
# ---------------------------------------------------------------------------------------------------
def sk_input(path):
    """a secret key argument: any Python int, or a value that is not an int at all"""
    if path.choose(2, "sk-kind") == 0:
        path.sig[-1] = "sk:int"
        return SInt(z3.Int("sk")), True
    path.sig[-1] = "sk:non-int"
    return D.NonInt(), False


def valid_sk(sk):
    return z3.And(zt(sk) >= 1, zt(sk) < R)


def u_signing(ctx, suite, meth):
    name = f"{CS}.{suite}.{meth}"

    def body(path):
        prelude(path)
        it = bls_interp(ctx, name)
        cls = suite_class(it, suite)
        sk, is_int = sk_input(path)
        msg = SBytes.var("message")
        args = [sk] if meth in ("SkToPk", "PopProve") else [sk, msg]
        kind, res, q = call_cls(it, cls, meth, args)
        if kind == "raise":
            path.prove(f"{name}/raises.type", res is ValidationError, detail=f"refusal must be a validation error, got {res.__name__}")
            path.prove(f"{name}/raises.only-if", (not is_int) or ZAtom(z3.Not(valid_sk(sk))),
                       detail="raises only for a non-integer or an integer outside [1, r-1]")
            return
        path.prove(f"{name}/raises.if", is_int and ZAtom(valid_sk(sk)), detail="returned: the key must be an integer in [1, r-1]")
        if not is_int:
            return
        pkpt = mulP(zt(sk), G1gen)
        pk = enc1(pkpt)
        if meth == "SkToPk":
            want = pk
        else:
            if meth == "PopProve":
                mprime, DST = pk, bytes_const(POP_TAG)
            else:
                mprime = z3.Concat(pk, msg.t) if suite == "G2MessageAugmentation" else msg.t
                DST = bytes_const(TAGS[suite])
            want = enc2(mulP(zt(sk), H2(mprime, DST)))
            for (m_, d_, hf) in it.hash_contract.calls:
                from pyvc.pymodel import HashFn
                path.prove(f"{name}/ensures.hash", ZAtom(z3.And(bt(m_) == mprime, bt(d_) == DST)) and isinstance(hf, HashFn) and hf.name == "sha256",
                           detail="hash_to_G2(m', tag, sha256) with this suite's message encoding and tag")
        path.prove(f"{name}/ensures.bytes", isinstance(res, SBytes) and ZAtom(res.t == want),
                   detail={"SkToPk": "PK = compress(sk . G1)", "PopProve": "proof = compress(sk . H(PK, POP tag))"}.get(
                       meth, "signature = compress(sk . H(m', tag)), m' = PK || m in the augmentation suite"))
    ctx.ex.run(body, name)


def u_tags(ctx):
    """C09: the four domain-separation tags are the draft-v4 literals (pinned), pairwise different; sha256 is the XMD hash"""
    name = f"{CS}/tags"

    def body(path):
        it = bls_interp(ctx, name)
        vals = {}
        for s_ in SUITES:
            cls = suite_class(it, s_)
            v, _ = cls.lookup("DST")
            vals[s_] = v
            path.prove(f"{name}/literal[{s_}.DST]", v == TAGS[s_], detail=f"{TAGS[s_].decode()}")
            h, _ = cls.lookup("xmd_hash_function")
            from pyvc.pymodel import HashFn
            path.prove(f"{name}/hash[{s_}]", isinstance(h, HashFn) and h.name == "sha256", detail="xmd_hash_function = sha256")
        pt, _ = suite_class(it, "G2ProofOfPossession").lookup("POP_TAG")
        path.prove(f"{name}/literal[POP_TAG]", pt == POP_TAG, detail=POP_TAG.decode())
        allv = list(vals.values()) + [pt]
        path.prove(f"{name}/distinct", len(set(allv)) == 4, detail="the four tags are pairwise different byte strings")
    ctx.ex.run(body, name)


for _s in SUITES:
    for _m in ("SkToPk", "Sign"):
        fl = [f"{CS}.BaseG2Ciphersuite.SkToPk", f"{CS}.BaseG2Ciphersuite._is_valid_privkey"]
        if _m == "Sign":
            fl += [f"{CS}.BaseG2Ciphersuite._CoreSign", f"{CS}.{_s}.Sign" if _s == "G2MessageAugmentation" else f"{CS}.BaseG2Ciphersuite.Sign"]
        UNITS[f"bls.{_s}.{_m}"] = Unit(f"bls.{_s}.{_m}", u_signing, fl, props=("C01", "C09", "C02"), args=(_s, _m))
UNITS["bls.G2ProofOfPossession.PopProve"] = Unit("bls.G2ProofOfPossession.PopProve", u_signing,
                                                 [f"{CS}.G2ProofOfPossession.PopProve", f"{CS}.BaseG2Ciphersuite._CoreSign"],
                                                 props=("C01", "C09", "C02"), args=("G2ProofOfPossession", "PopProve"))
UNITS["bls.tags"] = Unit("bls.tags", u_tags, [], kind="closed", props=("C09", "C02"))


# ---------------------------------------------------------------------------------------------------
# property-level lemmas over the contracts above
# ---------------------------------------------------------------------------------------------------
def u_lemma_c02(ctx):
    """C02 / C01:  for pk = SkToPk(sk), 1 <= sk < r:  Verify(pk, m, c) = True  <=>  c = Sign(sk, m)   (per suite, and PopVerify / PopProve).
    From the contracts: Verify <=> key_ok(pk) and sig_ok(c) and E,  E := [dl(pt2 c) = dl(H) * dl(pt1 pk) mod r];
    SkToPk: pk = enc1(sk.G1);  Sign: enc2(sk.H).  L-CYCLIC (Lean Cyclic.lean bls_verify_iff): for subgroup points a, b with
    dl(b) = sk dl(H):  E <=> a = b."""
    name = "C02/verify-iff-canonical-signature"

    def body(path):
        prelude(path)
        sk = z3.Int("sk")
        m, c, DST = (z3.Const(n_, z3.SeqSort(z3.BitVecSort(8))) for n_ in ("mprime", "c", "DST"))
        E = z3.Bool("E_dlog_equation")
        Hm = H2(m, DST)
        P_ = mulP(sk, G1gen)
        pk = enc1(P_)
        S_ = mulP(sk, Hm)
        sign = enc2(S_)
        hyp = [sk >= 1, sk < R,
               # group-op contract instances (GroupOpContract) and hash contract
               sub(Hm), sub(P_), dl(P_) == sk % R, sub(S_),
               z3.Implies(sub(P_), isO(P_) == (dl(P_) == 0)),
               # encoder contract instances (EncodeContract)
               z3.Length(pk) == 48, ok1(pk), pt1(pk) == P_, z3.Length(sign) == 96, ok2(sign), pt2(sign) == S_,
               # decoder canonicity instance for the candidate c (DecodeContract)
               z3.Implies(z3.And(z3.Length(c) == 96, ok2(c)), enc2(pt2(c)) == c),
               # L-CYCLIC instance: subgroup points with the same discrete log are equal; dl(S_) = sk dl(H) by the multiply contract
               z3.Implies(z3.And(sub(pt2(c)), sub(S_)), E == (pt2(c) == S_))]
        for h in hyp:
            path.zc.append(h)
        verify = z3.And(key_ok(pk), sig_ok(c), E)
        path.prove(f"{name}/honest-signature-verifies", ZAtom(z3.Implies(c == sign, verify)),
                   detail="C01: Verify(SkToPk(sk), m, Sign(sk, m)) = True (and PopVerify(SkToPk(sk), PopProve(sk)))")
        path.prove(f"{name}/only-the-canonical-signature", ZAtom(z3.Implies(verify, c == sign)),
                   detail="C02: a 96-byte string that verifies is byte-for-byte Sign(sk, m)")
    ctx.ex.run(body, name)
    from contracts.closed import lean_cite
    lean_cite(ctx, [("Cyclic.lean", "bls_verify_iff", "dl(S) = sk dl(H) iff S = sk.H in a group of prime order"),
                    ("Cyclic.lean", "bls_sk_unique", "uniqueness"), ("Cyclic.lean", "zsmul_ne_zero_of_lt", "sk.G != O for 0 < sk < r"),
                    ("Cyclic.lean", "bls_aggregate_exponent", "aggregate exponent"), ("Cyclic.lean", "bls_group_level", "group-level statement")])
    ctx.assume("A-HASH (cross-tag clause of C02): H(m, DST1) != H(m, DST2) for different tags is a random-oracle fact; what is proved is that "
               "each suite uses its own pinned tag on both the signing and the verifying side")


UNITS["bls.lemma.verify-iff-sign"] = Unit("bls.lemma.verify-iff-sign", u_lemma_c02, [], kind="lemma", props=("C02", "C01"))
