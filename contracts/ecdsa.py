"""L6 ECDSA contracts (DESIGN §8 C19, C06): ecdsa_raw_recover, ecdsa_raw_sign, deterministic_generate_k,
bytes_to_int.  Integers modulo P (coordinates) are handled by z3; scalars are read modulo the prime group
order N and compared by polyid in the field Z/N; points are kept in module normal form over the atoms G
(generator) and R (the lifted point), whose order divides N (A-ORDER for secp256k1: forced by Hasse, eval)."""
from __future__ import annotations

import z3

from pyvc.core import FAtom, Fld, FldKind, ZAtom, Unsupported, cur, fsym
from pyvc.interp import PyRaise
from pyvc.poly import Poly, R as PR
from pyvc.pymodel import hmac_uf
from pyvc.sym import SInt, SBytes, zt, bt, sdivmod, implied, _os2ip, os2ip_sym, bytes_const
from pyvc.unit import Unit
from contracts.curves import get_function, mk_interp, call_top, SECP

UNITS = {}
P = 2 ** 256 - 2 ** 32 - 977
N = 0xFFFFFFFFFFFFFFFFFFFFFFFFFFFFFFFEBAAEDCE6AF48A03BBFD25E8CD0364141
GX = 0x79BE667EF9DCBBAC55A06295CE870B07029BFCDB2DCE28D959F2815B16F81798
GY = 0x483ADA7726A3C4655DA4FBFC0E1108A8FD17B448A68554199C47D08FFB10D4B8
KN = FldKind("ZmodN")           # scalars: the field Z/N (N prime: A-PRIME); no `reduced` tracking needed here


# ---- translation of integer terms to their residue in Z/N ------------------------------------------
def to_modN(path, v):
    """the residue class modulo N of an integer-valued symbolic term, as a polyid field element.
    Purified `a % N` remainders translate to the class of a; opaque terms become variables."""
    if isinstance(v, ScalarN):
        return v.f
    if isinstance(v, bool):
        v = int(v)
    if isinstance(v, int):
        return KN(v % N)
    if isinstance(v, SInt):
        return _tr(path, v.t)
    raise Unsupported(f"scalar of type {type(v).__name__}")


def _tr(path, t):
    defs = path.ghost.get("divmod-defs", {})
    if z3.is_int_value(t):
        return KN(t.as_long() % N)
    if z3.is_app(t):
        k = t.decl().kind()
        ch = t.children()
        if k == z3.Z3_OP_ADD:
            acc = _tr(path, ch[0])
            for c in ch[1:]:
                acc = acc + _tr(path, c)
            return acc
        if k == z3.Z3_OP_SUB:
            acc = _tr(path, ch[0])
            for c in ch[1:]:
                acc = acc - _tr(path, c)
            return acc
        if k == z3.Z3_OP_MUL:
            acc = _tr(path, ch[0])
            for c in ch[1:]:
                acc = acc * _tr(path, c)
            return acc
        if k == z3.Z3_OP_UMINUS:
            return -_tr(path, ch[0])
        if k == z3.Z3_OP_UNINTERPRETED and not ch:
            bound = path.ghost.get("modN-bind", {}).get(str(t))
            if bound is not None:
                return bound                            # an integer introduced by a contract with a known residue
            d = defs.get(str(t))
            if d is not None and d[0] == "rem" and z3.is_int_value(d[2]) and d[2].as_long() == N:
                return _tr(path, d[1])              # (a % N) has the residue of a
            return Fld(PR(Poly.var("i_" + str(t).replace("!", "_"))), KN)
        # opaque integer-valued term (os2ip(...), HMAC-derived, If(...)): one variable per distinct term
        tab = path.ghost.setdefault("modN-opaque", {})
        key = t.sexpr()
        if key not in tab:
            tab[key] = Fld(PR(Poly.var(f"o{len(tab)}")), KN)
        return tab[key]
    raise Unsupported("integer term that cannot be read modulo N")


class ScalarN:
    """an integer known only through its residue modulo N (result of inv(., N))"""

    def __init__(self, f):
        self.f = f


class GPtN:
    """a point of the secp256k1 group in module normal form with coefficients in Z/N"""

    def __init__(self, lin):
        self.lin = {a: c for a, c in lin.items()}

    def add(self, o):
        lin = dict(self.lin)
        for a, c in o.lin.items():
            lin[a] = lin[a] + c if a in lin else c
        return GPtN(lin)

    def smul(self, c):
        return GPtN({a: c * v for a, v in self.lin.items()})

    def neg(self):
        return GPtN({a: -v for a, v in self.lin.items()})


def same_point(path, name, got, want, detail=""):
    ok = True
    for a in sorted(set(got.lin) | set(want.lin)):
        c1 = got.lin.get(a, KN(0))
        c2 = want.lin.get(a, KN(0))
        ok = path.prove(name, FAtom((c1 - c2).r.n, True), detail=f"{detail}: coefficient of {a} in Z/N") and ok
    return ok


# ---- bytes_to_int ---------------------------------------------------------------------------------
class BytesToInt:
    """bytes_to_int(x) = OS2IP(x)  (unit secp.bytes_to_int proves the loop)"""

    def apply(self, interp, fv, env):
        x = list(env.values())[0]
        return os2ip_sym(x) if isinstance(x, SBytes) else int.from_bytes(bytes(x), "big")


class BytesLoop:
    """for b in x: o = (o << 8) + safe_ord(b)   invariant  o = OS2IP(x[:i]),  0 <= i <= len(x)
    lemma (definition of big-endian value):  OS2IP(s || [b]) = 256 * OS2IP(s) + b"""

    def __init__(self, name):
        self.name = name

    def run_for(self, interp, st, fr):
        import ast
        path = cur()
        prev, path.in_source = path.in_source, False
        try:
            x = fr.env["x"]
            if not isinstance(x, SBytes) or not isinstance(st.target, ast.Name):
                raise Unsupported("bytes_to_int loop shape")
            from pyvc.loops import require_declared
            require_declared(st, fr, {"o", st.target.id}, self.name)
            o0 = fr.env["o"]
            path.prove(f"{self.name}/loop0/entry", ZAtom(zt(o0) == 0), kind="invariant", detail="o = OS2IP(empty) = 0")
            i = z3.Int(f"i!{next(path.fresh_id)}")
            o = SInt(z3.Int(f"o!{next(path.fresh_id)}"))
            L = z3.Length(x.t)
            path.assume(ZAtom(z3.And(i >= 0, i <= L)), "invariant: 0 <= i <= len(x)")
            path.assume(ZAtom(o.t == _os2ip(z3.SubSeq(x.t, 0, i))), "invariant: o = OS2IP(x[:i])")
            path.assume(ZAtom(_os2ip(z3.SubSeq(x.t, 0, 0)) == 0), "OS2IP(empty) = 0")
            if path.case(ZAtom(i < L), "more bytes?"):
                b = SInt(z3.BV2Int(x.t[i]))
                path.assume(ZAtom(_os2ip(z3.SubSeq(x.t, 0, i + 1)) == 256 * _os2ip(z3.SubSeq(x.t, 0, i)) + b.t),
                            "OS2IP(s || [b]) = 256 OS2IP(s) + b")
                fr.env["o"] = o
                fr.env[st.target.id] = b
                path.in_source = True
                interp.exec_block(st.body, fr)
                path.in_source = False
                path.prove(f"{self.name}/loop0/preserve", ZAtom(zt(fr.env["o"]) == _os2ip(z3.SubSeq(x.t, 0, i + 1))),
                           kind="invariant", detail="o' = OS2IP(x[:i+1])")
                from pyvc.core import PathAbort
                raise PathAbort()
            path.assume(ZAtom(z3.SubSeq(x.t, 0, i) == x.t), "x[:len(x)] = x")
            fr.env["o"] = o
        finally:
            path.in_source = prev


def u_bytes_to_int(ctx):
    q = f"{SECP}.bytes_to_int"
    fv = get_function(ctx.prog, q)

    def body(path):
        x = SBytes.var("x")
        it = mk_interp(ctx, q, loops={(q, 0): BytesLoop(q)})
        kind, res = call_top(it, fv, [x])
        if kind == "raise":
            path.prove(f"{q}/raises.none", False, detail=res.__name__)
            return
        path.prove(f"{q}/ensures.os2ip", ZAtom(zt(res) == _os2ip(x.t)), detail="bytes_to_int(x) = OS2IP(x) (big endian)")
    ctx.ex.run(body, q)


UNITS["secp.bytes_to_int"] = Unit("secp.bytes_to_int", u_bytes_to_int, [f"{SECP}.bytes_to_int", f"{SECP}.safe_ord"],
                                  props=("C18", "C06", "C19"))


# ---- deterministic_generate_k (RFC 6979 section 3.2, hash octets used as given) ----------------------
def rfc6979_first_candidate(priv, h):
    Hm = hmac_uf("sha256")
    V = bytes_const(b"\x01" * 32)
    K = bytes_const(b"\x00" * 32)
    K = Hm(K, z3.Concat(V, bytes_const(b"\x00"), priv, h))      # d.
    V = Hm(K, V)                                                 # e.
    K = Hm(K, z3.Concat(V, bytes_const(b"\x01"), priv, h))      # f.
    V = Hm(K, V)                                                 # g.
    T = Hm(K, V)                                                 # h.2: V = HMAC_K(V); T = T || V  (qlen = hlen = 256: one block)
    return _os2ip(T)


def u_generate_k(ctx):
    q = f"{SECP}.deterministic_generate_k"
    fv = get_function(ctx.prog, q)

    def body(path):
        h, priv = SBytes.var("msghash"), SBytes.var("priv")
        it = mk_interp(ctx, q, contracts={f"{SECP}.bytes_to_int": BytesToInt()})
        kind, res = call_top(it, fv, [h, priv])
        if kind == "raise":
            path.prove(f"{q}/raises.none", False, detail=res.__name__)
            return
        path.prove(f"{q}/ensures.rfc6979", ZAtom(zt(res) == rfc6979_first_candidate(priv.t, h.t)),
                   detail="k = OS2IP of the first RFC 6979 section 3.2 candidate (steps b-h, HMAC-SHA256, hash bytes as given)")
    ctx.ex.run(body, q)
    ctx.note("reading adopted (DESIGN section 8 C06, observation O1): the hash octets are used as given; strict RFC 6979 "
             "bits2octets would reduce them modulo N when OS2IP(msghash) >= N")


UNITS["secp.deterministic_generate_k"] = Unit("secp.deterministic_generate_k", u_generate_k,
                                              [f"{SECP}.deterministic_generate_k"], props=("C06",))


# ---- call-site contracts at the mixed integer / scalar / group level -----------------------------------
def _z(v):
    return v if isinstance(v, z3.ExprRef) else zt(v)


class JMulN:
    """jacobian_multiply(a, n) at a call site: requires valid(a); ensures abs(res) = (n mod N) . abs(a).
    A literal/symbolic triple (x, y, 1) is a valid representative of the affine point (x, y) when its
    coordinates are reduced, y != 0 and y^2 = x^3 + 7 (mod P): obligations of the caller."""

    def __init__(self, top, atoms):
        self.top, self.atoms = top, atoms     # atoms: list of (name, x term/int, y term/int)

    def point(self, path, a):
        if isinstance(a, GPtN):
            return a
        if isinstance(a, tuple) and len(a) == 3:
            x, y, z = a
            if all(isinstance(c, int) for c in a) and (x, y, z) == (GX, GY, 1):
                return GPtN({"G": KN(1)})
            if isinstance(z, int) and z == 1:
                for nm, ax, ay in self.atoms:
                    if nm != "G" and implied(path, z3.And(zt(x) == _z(ax), zt(y) == _z(ay))):
                        # requires valid((x, y, 1)): reduced coordinates on the curve, y != 0
                        xt, yt = zt(x), zt(y)
                        path.prove(f"{self.top}/call[jacobian_multiply]/requires.reduced",
                                   ZAtom(z3.And(xt >= 0, xt < P, yt > 0, yt < P)), kind="requires",
                                   detail="lifted point has reduced coordinates and y != 0")
                        # explicit congruence witness: a signed sum of the quotient witnesses of the code's own `% P`
                        quos = [z3.Int(nm_) for nm_, d in path.ghost.get("divmod-defs", {}).items()
                                if d[0] == "quo" and z3.is_int_value(d[2]) and d[2].as_long() == P][:4]
                        import itertools
                        alts = []
                        for eps in itertools.product((1, -1, 0), repeat=len(quos)):
                            w = sum((e * q_ for e, q_ in zip(eps, quos)), z3.IntVal(0))
                            alts.append(ZAtom(yt * yt - (xt * xt * xt + 7) == P * w))
                        # the code may test the residue on the root b it computed and then pass y = P - b: (P - b)^2 = b^2 + P (P - 2 b)
                        # is a ring identity (checked below), so a witness for b is a witness for y
                        ys = z3.simplify(yt)
                        b_ = None
                        if z3.is_add(ys) and len(ys.children()) == 2:
                            c0, c1 = ys.children()
                            for cst, oth in ((c0, c1), (c1, c0)):
                                if z3.is_int_value(cst) and cst.as_long() == P and z3.is_mul(oth) and len(oth.children()) == 2 \
                                        and z3.is_int_value(oth.children()[0]) and oth.children()[0].as_long() == -1:
                                    b_ = oth.children()[1]
                        if b_ is not None:
                            ident = z3.simplify((P - b_) * (P - b_) - (b_ * b_ + P * (P - 2 * b_)), som=True)
                            if z3.is_int_value(ident) and ident.as_long() == 0:
                                for eps in itertools.product((1, -1, 0), repeat=len(quos)):
                                    w = sum((e * q_ for e, q_ in zip(eps, quos)), z3.IntVal(0))
                                    alts.append(ZAtom(z3.And(yt == P - b_, b_ * b_ - (xt * xt * xt + 7) == P * w)))
                        path.prove_any(f"{self.top}/call[jacobian_multiply]/requires.on-curve", alts, kind="requires",
                                       detail="lifted point satisfies y^2 = x^3 + 7 (mod P) (explicit witness from the code's own residue test)")
                        return GPtN({nm: KN(1)})
        raise Unsupported(f"argument {a!r} is not a recognisable point")

    def apply(self, interp, fv, env):
        path = cur()
        a, n = env["a"], env["n"]
        return self.point(path, a).smul(to_modN(path, n))


class JAddN:
    def __init__(self, jm):
        self.jm = jm

    def apply(self, interp, fv, env):
        path = cur()
        vals = list(env.values())
        return self.jm.point(path, vals[0]).add(self.jm.point(path, vals[1]))


class IdN:
    def __init__(self, jm):
        self.jm = jm

    def apply(self, interp, fv, env):
        return self.jm.point(cur(), list(env.values())[0])


class InvN:
    """secp256k1.inv(a, N) at a call site: requires a == 0 or N does not divide a (unit secp.inv); ensures the
    result is the inverse of a in Z/N (N prime)"""

    def __init__(self, top):
        self.top = top

    def apply(self, interp, fv, env):
        path = cur()
        a, n = env["a"], env["n"]
        if not (isinstance(n, int) and n == N):
            raise Unsupported("inv with a modulus other than N at the scalar level")
        at = zt(a)
        nz = implied(path, at % N != 0) or _rem_nonzero(path, a)
        path.prove(f"{self.top}/call[inv]/requires", nz, kind="requires",
                   detail="inv(a, N) is only the modular inverse when N does not divide a (it tests a == 0 unreduced)")
        f = to_modN(path, a)
        path.assume(FAtom(f.r.n, False), "a != 0 (mod N): established by the caller (z3 side)")
        t = z3.Int(f"inv!{next(path.fresh_id)}")
        path.zc.append(z3.And(t >= 1, t < N))           # the inverse of a unit, as a canonical representative
        path.ghost.setdefault("modN-bind", {})[str(t)] = KN(1) / f
        return SInt(t)


def _rem_nonzero(path, a):
    """is `a % N != 0` known on this path through the purified remainder of a % N ?"""
    q_, r_ = sdivmod(a, N)
    return implied(path, zt(r_) != 0)


# ---- ecdsa_raw_recover (C19) ---------------------------------------------------------------------------
_powP = z3.Function("pow_mod_P", z3.IntSort(), z3.IntSort())


class PowP:
    """pow(a, (P+1)//4, P): havocked to 'some value in [0, P)'; lemma L-SQRT34 (Lean Fields.lean
    sqrt34_of_isSquare, P = 3 mod 4: closed fact) relates it to the ghost flag `qr` = 'a is a quadratic residue':
    qr -> beta^2 = a (mod P)."""

    def __init__(self, qr):
        self.qr = qr
        self.calls = []

    def apply(self, interp, fv, env):
        from pyvc.sym import spowmod
        a, e, m = env["a"], env["e"], env["m"]
        if isinstance(e, int) and e <= 3:
            return spowmod(a, e, m)
        if not (isinstance(m, int) and m == P and e == (P + 1) // 4):
            raise Unsupported("unexpected modular exponentiation")
        path = cur()
        t = _powP(zt(a))
        k = z3.Int(f"ksq!{next(path.fresh_id)}")
        path.zc.append(z3.And(t >= 0, t < P))
        path.zc.append(z3.Implies(self.qr, t * t - zt(a) == P * k))
        self.calls.append((a, t))
        return SInt(t)


def u_recover(ctx):
    q = f"{SECP}.ecdsa_raw_recover"
    fv = get_function(ctx.prog, q)

    def body(path):
        path.pc.char = N            # scalar arithmetic is in the field Z/N
        h = SBytes.var("msghash")
        v, r, s = SInt(z3.Int("v")), SInt(z3.Int("r")), SInt(z3.Int("s"))
        path.assume(ZAtom(z3.And(zt(r) >= 0, zt(r) < P, zt(s) >= 0)), "0 <= r < P, s >= 0")
        qr = z3.Bool("r3_plus_7_is_a_residue")
        powc = PowP(qr)
        # the lifted point R = (x, y): atom R with the coordinates the code computes
        yv = z3.Int("y_lift")
        jm = JMulN(q, [("R", zt(r), yv)])
        cons = {"builtins.pow": powc, f"{SECP}.bytes_to_int": BytesToInt(), f"{SECP}.jacobian_multiply": jm,
                f"{SECP}.jacobian_add": JAddN(jm), f"{SECP}.from_jacobian": IdN(jm), f"{SECP}.inv": InvN(q)}
        it = mk_interp(ctx, q, contracts=cons)

        def on_call(interp, qual, env):
            # bind the ghost y_lift to the y the code passes in the triple (x, y, 1)
            if qual.endswith("jacobian_multiply") and isinstance(env.get("a"), tuple) and isinstance(env["a"][1], SInt):
                cur().zc.append(yv == env["a"][1].t)
        it.cfg.on_call = on_call
        # closed fact: x^3 + 7 is never 0 mod P (-7 is a non-cube): instantiated at x = r
        xx = r * r * r + 7
        path.assume(ZAtom(zt(sdivmod(r * r * r + 0 * r + 7, P)[1]) != 0), "closed fact secp.no-y0-point: r^3 + 7 != 0 (mod P)")
        kind, res = call_top(it, fv, [h, (v, r, s)])
        bad_v = z3.And(zt(v) != 27, zt(v) != 28)
        r0 = zt(sdivmod(r, N)[1]) == 0
        s0 = zt(sdivmod(s, N)[1]) == 0
        if kind == "raise":
            path.prove(f"{q}/raises.type", res is ValueError, detail=f"refusal must be ValueError, got {res.__name__}")
            path.prove(f"{q}/raises.only-if", ZAtom(z3.Or(bad_v, r0, s0, z3.Not(qr))),
                       detail="raises only for v outside {27,28}, r or s = 0 (mod N), or r^3+7 a non-residue (no point with x = r)")
            return
        path.prove(f"{q}/raises.if", ZAtom(z3.Not(z3.Or(bad_v, r0, s0))),
                   detail="returned a key: v in {27,28}, r and s non-zero modulo N")
        if not isinstance(res, GPtN):
            path.prove(f"{q}/ensures.shape", False, detail=f"result is not a point: {res!r}"[:100])
            return
        # parity of the lifted point: even for v = 27, odd for v = 28
        path.prove(f"{q}/ensures.parity", ZAtom(yv % 2 == zt(v) - 27),
                   detail="R is the point with x = r whose y is even for v = 27 and odd for v = 28 (never the other parity)")
        # (r mod N) . Q = s . R - z . G   in module normal form over Z/N
        rN, sN, zN = to_modN(path, r), to_modN(path, s), to_modN(path, os2ip_sym(h))
        if __import__("os").environ.get("PYVC_DEBUG"):
            print("DEBUG recover:", {a: str(c) for a, c in res.lin.items()}, "r", rN, "s", sN, "z", zN)
        same_point(path, f"{q}/ensures.equation", res.smul(rN), GPtN({"R": sN, "G": -zN}),
                   detail="(r mod N) . Q = s . R - z . G")
    ctx.ex.run(body, q)
    ctx.assume("A-ORDER(secp256k1): every curve point has order dividing N (#E = N: forced by Hasse, closed fact secp.hasse), "
               "so scalars act modulo N")
    ctx.assume("L-SQRT34 (Lean): P = 3 mod 4, a a residue -> (a^((P+1)/4))^2 = a; used only for 'raises ONLY for non-residues'")
    ctx.trust("uniqueness of Q and 'the signature verifies for Q': Lean lean/Ecdsa.lean ecdsa_recover, ecdsa_key_unique, ecdsa_verify")


UNITS["secp.ecdsa_raw_recover"] = Unit("secp.ecdsa_raw_recover", u_recover, [f"{SECP}.ecdsa_raw_recover"], props=("C19", "C06"))


# ---- ecdsa_raw_sign (C06) ---------------------------------------------------------------------------------
_kspec = z3.Function("rfc6979_k", z3.SeqSort(z3.BitVecSort(8)), z3.SeqSort(z3.BitVecSort(8)), z3.IntSort())


class GenKContract:
    """deterministic_generate_k at a call site: the RFC 6979 first candidate (unit secp.deterministic_generate_k)"""

    def apply(self, interp, fv, env):
        path = cur()
        t = _kspec(bt(env["msghash"]), bt(env["priv"]))
        path.zc.append(t >= 0)
        return SInt(t)


class MultiplyGContract:
    """secp256k1.multiply(G, k) at a call site (units secp.multiply, secp.jacobian_multiply, secp.from_jacobian):
    the affine point (k mod N) . G.  Under good(k) (k != 0 mod N) it is finite: reduced coordinates on the curve."""

    def __init__(self, top):
        self.top = top
        self.calls = []

    def apply(self, interp, fv, env):
        path = cur()
        a, n = env["a"], env["n"]
        ok = isinstance(a, tuple) and tuple(a) == (GX, GY)
        path.prove(f"{self.top}/call[multiply]/requires.generator", ok, kind="requires", detail="multiplies the SEC 2 generator")
        x, y = SInt(z3.Int("xR")), SInt(z3.Int("yR"))
        kq = z3.Int(f"kR!{next(path.fresh_id)}")
        path.zc.append(z3.And(x.t >= 0, x.t < P, y.t > 0, y.t < P, y.t * y.t - (x.t * x.t * x.t + 7) == P * kq))
        self.calls.append((n, x, y))
        return (x, y)


def u_sign(ctx):
    q = f"{SECP}.ecdsa_raw_sign"
    fv = get_function(ctx.prog, q)

    def body(path):
        path.pc.char = N
        h, priv = SBytes.var("msghash"), SBytes.var("priv")
        mg = MultiplyGContract(q)
        cons = {f"{SECP}.bytes_to_int": BytesToInt(), f"{SECP}.deterministic_generate_k": GenKContract(),
                f"{SECP}.multiply": mg, f"{SECP}.inv": InvN(q)}
        it = mk_interp(ctx, q, contracts=cons)
        d, z = os2ip_sym(priv), os2ip_sym(h)
        k = SInt(_kspec(h.t, priv.t))
        # ghost precondition good(k) (DESIGN section 8 C06): not established by the code (no retry loop); its failure set
        # has density ~2^-127 and no element of it can be exhibited without inverting HMAC-SHA256  -> assumption A-HASH
        path.assume(ZAtom(zt(sdivmod(k, N)[1]) != 0), "good(k): k != 0 (mod N)")
        path.assume(ZAtom(z3.And(zt(d) >= 1, zt(d) < N)), "requires 1 <= d < N")
        kind, res = call_top(it, fv, [h, priv])
        if kind == "raise":
            path.prove(f"{q}/raises.none", False, detail=res.__name__)
            return
        ok = isinstance(res, tuple) and len(res) == 3 and len(mg.calls) == 1
        path.prove(f"{q}/ensures.shape", ok)
        if not ok:
            return
        v, r, s = res
        n_arg, xR, yR = mg.calls[0]
        path.prove(f"{q}/ensures.nonce", ZAtom(zt(n_arg) == k.t), detail="R = k . G with k the RFC 6979 nonce of (priv, msghash)")
        path.prove(f"{q}/ensures.r", ZAtom(zt(r) == xR.t), detail="r = x-coordinate of R (as computed: not reduced modulo N)")
        # s0 = k^-1 (z + r d) mod N as the code computes it (same purified witnesses);  flipped <=> 2 s0 >= N
        binds = list(path.ghost.get("modN-bind", {}))
        if len(binds) != 1:
            path.prove(f"{q}/ensures.s", False, detail="expected exactly one modular inverse (inv(k, N)) in ecdsa_raw_sign")
            return
        kinv = SInt(z3.Int(binds[0]))
        s0 = sdivmod(kinv * (z + xR * d), N)[1]
        kN, zN, rN, dN = to_modN(path, k), to_modN(path, z), to_modN(path, xR), to_modN(path, d)
        path.assume(FAtom(kN.r.n, False), "good(k)")
        path.prove(f"{q}/ensures.s0", FAtom((to_modN(path, s0) - (zN + rN * dN) / kN).r.n, True),
                   detail="s0 = k^-1 (z + r d) in Z/N")
        flipped = 2 * zt(s0) >= N
        par = yR.t % 2
        path.prove(f"{q}/ensures.s", ZAtom(zt(s) == z3.If(flipped, N - zt(s0), zt(s0))),
                   detail="s = s0 if 2 s0 < N else N - s0 (low-s normalisation)")
        path.prove(f"{q}/ensures.v", ZAtom(z3.Or(zt(v) == 27, zt(v) == 28)), detail="v in {27, 28}")
        path.prove(f"{q}/ensures.v-parity", ZAtom(zt(v) - 27 == z3.If(flipped, 1 - par, par)),
                   detail="v - 27 = parity(y_R) xor [s was flipped]: the flip of s and of v go together")
        # low-s and range, under good: s0 != 0
        path.assume(ZAtom(zt(s0) != 0), "good(k): s != 0 (i.e. z + r d != 0 mod N)")
        path.prove(f"{q}/ensures.low-s", ZAtom(z3.And(zt(s) >= 1, 2 * zt(s) <= N - 1)), detail="1 <= s <= N/2")
    ctx.ex.run(body, q)
    ctx.assume("good(k) (A-HASH): k mod N != 0, x_R < N, r != 0, s != 0 — hash-output facts the code does not establish (no retry loop)")


def u_sign_recover_lemma(ctx):
    """C06 property-level lemma over the contracts of sign and recover, in Z/N (polyid):
       recover(h, sign(h, d)) = d . G,  the other v gives a different key,  the verification equation holds."""
    name = "C06/sign-then-recover"

    def body(path):
        path.pc.char = N
        k, d, z, r = (fsym(n, KN) for n in ("k", "d", "z", "r"))
        for t, why in ((k, "good(k): k != 0"), (r, "good(k): r != 0 (mod N)")):
            path.assume(FAtom(t.r.n, False), why)
        s0 = (z + r * d) / k
        path.assume(FAtom(s0.r.n, False), "good(k): s != 0")
        flip = path.choose(2, "flip") == 1
        path.sig[-1] = "flipped" if flip else "not flipped"
        s = -s0 if flip else s0                       # sign: ensures.s
        # sign: v - 27 = parity(y_R) xor flip.  recover lifts R* with parity v - 27:  R* = R if not flipped else -R
        # (the two points with x = r are R and -R, with opposite parities since P is odd and y != 0)
        Rstar = k * (-1 if flip else 1)               # R* = Rstar . G
        Q = (s * Rstar - z) / r                       # recover: (r) . Q = s . R* - z . G
        path.prove(f"{name}/recovers-signer", FAtom((Q - d).r.n, True), detail="ecdsa_raw_recover(h, sign(h, d)) = d . G")
        Qother = (s * (-Rstar) - z) / r
        path.prove(f"{name}/other-v-differs", FAtom((Qother - d).r.n, False), detail="the other v value gives a different key (needs s k != 0)")
        u = (z + r * d) / s                           # u1 . G + u2 . (d . G) = ((z + r d)/s) . G
        path.prove(f"{name}/verification-equation", FAtom((u - Rstar).r.n, True),
                   detail="(z/s) . G + (r/s) . Q = R* = +-R, whose x-coordinate is r")
    ctx.ex.run(body, name)
    from contracts.closed import lean_cite
    lean_cite(ctx, [("Ecdsa.lean", "ecdsa_recover", "r Q = s R - z G determines Q"), ("Ecdsa.lean", "ecdsa_verify", "verification equation"),
                    ("Ecdsa.lean", "ecdsa_other_parity", "the other parity gives another key when s k != 0"),
                    ("Ecdsa.lean", "ecdsa_neg_s", "low-s flip"), ("Fields.lean", "sq_eq_sq_cases", "same x means +-y")])


UNITS["secp.ecdsa_raw_sign"] = Unit("secp.ecdsa_raw_sign", u_sign, [f"{SECP}.ecdsa_raw_sign"], props=("C06",))
UNITS["secp.sign_recover_lemma"] = Unit("secp.sign_recover_lemma", u_sign_recover_lemma, [], kind="lemma", props=("C06",))
