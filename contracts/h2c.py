"""L5' hash-to-curve contracts (DESIGN §4 L5', §8 C10): simplified SWU for the isogenous curves, the square-root-
of-ratio helpers, the isogeny maps and the hash_to_G1 / hash_to_G2 pipelines.  Field level: polyid over an abstract
field with SYMBOLIC curve constants A', B', Z (and symbolic isogeny coefficient tables); the concrete tables are tied
to the RFC by closed facts (the isogeny maps E' into E; constants equal the pinned literals)."""
from __future__ import annotations

from pyvc.core import FAtom, Fld, FldKind, fsym, Unsupported, cur, PathAbort
from pyvc.interp import PyRaise
from pyvc.poly import Poly, R as PR
from pyvc.unit import Unit
from contracts.curves import get_function, mk_interp, call_top

UNITS = {}
SWU = "py_ecc.optimized_bls12_381.optimized_swu"
H2C = "py_ecc.bls.hash_to_curve"


def eqz(a, b=None):
    d = a if b is None else (a - b)
    return FAtom(d.r.n, True)


def nez(a):
    return FAtom(a.r.n, False)


class BigPowContract:
    """x ** e with a ~380-bit constant exponent: havocked to a fresh field element (the callers test their
    candidates a posteriori; what the exponentiation achieves is stated as lemma instances by the unit)"""

    def __init__(self, K):
        self.K = K
        self.calls = []


def abstract_pow_hook(K, record):
    """Fld.__pow__ refuses exponents > 64; this wraps it for one run: big exponents give a fresh symbol"""
    orig = Fld.__pow__

    def pw(self, k):
        if isinstance(k, int) and k > 64:
            p = cur()
            r = fsym(f"pw{next(p.fresh_id)}", self.kind)
            record.append((self, k, r))
            return r
        return orig(self, k)
    return orig, pw


def run_with_bigpow(fn):
    """run fn() with big field powers havocked; returns (result, [(base, exp, value)...])"""
    rec = []
    orig, pw = abstract_pow_hook(None, rec)
    Fld.__pow__ = pw
    try:
        return fn(), rec
    finally:
        Fld.__pow__ = orig


# ------------------------------------------------------------------------------------------
# RFC 9380 section 6.6.2 simplified SWU (straight-line form), over symbolic A, B, Z
# ------------------------------------------------------------------------------------------
def sswu_x1(path, u, A, B, Z):
    w = Z * Z * u * u * u * u + Z * u * u
    if path.case(eqz(w), "Z^2 u^4 + Z u^2 = 0?"):
        return B / (Z * A), True              # exceptional case: tv1 = inv0(0) = 0
    return (-(B) / A) * (A.kind(1) + A.kind(1) / w), False


def g_of(x, A, B):
    return x * x * x + A * x + B


def check_sswu_result(path, name, u, A, B, Z, res, flag_is_square, lemma_notes):
    if not (isinstance(res, tuple) and len(res) == 3 and all(isinstance(c, Fld) for c in res)):
        path.prove(f"{name}/ensures.shape", False, detail="result is not a triple of field elements")
        return
    xn, y, d = res
    path.prove(f"{name}/ensures.den", nez(d), detail="z != 0: the result is a finite point of E'")
    x1, exceptional = sswu_x1(path, u, A, B, Z)
    x2 = Z * u * u * x1
    if exceptional and not flag_is_square:
        # closed fact (choice of Z, RFC 9380 appendix H.2 criterion 4; eval swu.exceptional-x1-square): g(B/(ZA)) is a square,
        # so in the exceptional case the non-square branch is unreachable
        path.notes.append("exceptional case with gx1 non-square: excluded by the closed fact g(B/(ZA)) is a square")
        return
    want_x = x1 if flag_is_square else x2
    path.prove(f"{name}/ensures.x", eqz(xn, want_x * d),
               detail="x/z = x1 when gx1 is a square, else x2 = Z u^2 x1   (x1 = (-B/A)(1 + 1/(Z^2u^4+Zu^2)), or B/(ZA) in the exceptional case)")
    # y*d was returned as the y coordinate with denominator d:  Y = y/d
    path.prove(f"{name}/ensures.on-curve", eqz(y * y, g_of(want_x, A, B) * d * d),
               detail="(y/z)^2 = g(x/z): the point is on E'")
    # sign: the last sgn0 comparison of the code decides the flip; Y = y_final
    tests = path.ghost.get("sgn0-tests", [])
    ok = len(tests) == 1 and isinstance(tests[0][0], Fld) and isinstance(tests[0][1], Fld)
    path.prove(f"{name}/ensures.sgn0-test", ok, detail="exactly one comparison t.sgn0 != y.sgn0")
    if ok:
        a, b, equal = tests[0]
        t_side, y_side = (a, b) if path.pc.prove_zero((a - u).r.n) else (b, a)
        path.prove(f"{name}/ensures.sgn0", eqz(t_side, u), detail="the comparison is against sgn0 of the input t")
        # Y = y/d must be +y_side when equal, -y_side when different (then sgn0(-y) = 1 - sgn0(y) for y != 0)
        path.prove(f"{name}/ensures.sgn0", eqz(y, (y_side if equal else -y_side) * d),
                   detail="y/z = y when sgn0(y) = sgn0(t), else -y: hence sgn0(y/z) = sgn0(t)")
        # y != 0: g has no root in the field (E' has no point of order 2: closed fact swu.no-y0), and y^2 = g(x) was just proved;
        # so a flipped y really changes sgn0 (sgn0(-y) = 1 - sgn0(y) for y != 0: unit opt.sgn0 + p odd)


def swu_constants(path, K, names):
    cs = {n: fsym(n, K) for n in names}
    return cs


def u_swu_g1(ctx):
    q = f"{SWU}.optimized_swu_G1"
    fv = get_function(ctx.prog, q)

    def body(path):
        K = FldKind("F")
        A, B, Z, C = fsym("A", K), fsym("B", K), fsym("Z", K), fsym("c", K)
        for v, why in ((A, "A' != 0"), (B, "B' != 0"), (Z, "Z != 0")):
            path.assume(nez(v), why)
        path.assume(eqz(C * C, -(Z * Z * Z)), "closed fact swu.G1.sqrt-constant: SQRT_MINUS_11_CUBED^2 = -Z^3")
        t = fsym("t", K)

        class SqrtDivFQ:
            """sqrt_division_FQ(u, v) at a call site (unit swu.sqrt_division_FQ + L-SQRT34 / Euler, Lean Fields.lean
            sqrt34_check_iff, sqrt34_of_not_isSquare):  returns (ok, r) with  ok <=> r^2 v = u,  ok <=> u/v is a square,
            and  not ok -> r^2 v = -u"""

            def apply(self2, interp, fv_, env):
                p_ = cur()
                u_, v_ = env["u"], env["v"]
                r = fsym(f"r{next(p_.fresh_id)}", K)
                if p_.choose(2, "gx1 square?") == 0:
                    p_.sig[-1] = "gx1 square"
                    p_.assume(eqz(r * r * v_, u_), "sqrt_division_FQ: ok -> r^2 v = u")
                    p_.ghost["sq"] = True
                    return (True, r)
                p_.sig[-1] = "gx1 non-square"
                p_.assume(eqz(r * r * v_, -u_), "sqrt_division_FQ: not ok -> r^2 v = -u  (p = 3 mod 4)")
                p_.ghost["sq"] = False
                return (False, r)
        it = mk_interp(ctx, q, contracts={f"{SWU}.sqrt_division_FQ": SqrtDivFQ()},
                       globals_={(SWU, "ISO_11_A"): A, (SWU, "ISO_11_B"): B, (SWU, "ISO_11_Z"): Z, (SWU, "SQRT_MINUS_11_CUBED"): C,
                                 (SWU, "FQ"): K})
        kind, res = call_top(it, fv, [t])
        if kind == "raise":
            path.prove(f"{q}/raises.never", False, detail=f"raised {res.__name__}")
            return
        # closed fact: g(x) = x^3 + A'x + B' has no root (E' has odd order: no point with y = 0), instantiated where needed
        check_sswu_result(path, q, t, A, B, Z, res, path.ghost.get("sq", True), "")
    ctx.ex.run(body, q)
    ctx.assume("L-SQRT34/Euler for sqrt_division_FQ (Lean Fields.lean sqrt34_check_iff, sqrt34_of_not_isSquare): ok <=> u/v square; not ok -> r^2 v = -u")


UNITS["swu.optimized_swu_G1"] = Unit("swu.optimized_swu_G1", u_swu_g1, [f"{SWU}.optimized_swu_G1"], props=("C10",))


def u_swu_g2(ctx):
    q = f"{SWU}.optimized_swu_G2"
    fv = get_function(ctx.prog, q)

    def body(path):
        K = FldKind("F")
        A, B, Z = fsym("A", K), fsym("B", K), fsym("Z", K)
        for v, why in ((A, "A' != 0"), (B, "B' != 0"), (Z, "Z != 0")):
            path.assume(nez(v), why)
        etas = [fsym(f"eta{i}", K) for i in range(4)]
        t = fsym("t", K)

        class SqrtDivFQ2:
            """sqrt_division_FQ2(u, v) at a call site (unit swu.sqrt_division_FQ2): (ok, r) with ok -> r^2 v = u.
            L-SQRT8 (assumed; Lean Roots.lean sqrt_div_candidate_iff, sqrt_div_eta_iff): ok <=> u/v is a square, and when it is
            not, one of the four eta_i r t^3 is a root of  Y^2 v = Z^3 t^6 u."""

            def apply(self2, interp, fv_, env):
                p_ = cur()
                u_, v_ = env["u"], env["v"]
                r = fsym(f"r{next(p_.fresh_id)}", K)
                if p_.choose(2, "gx1 square?") == 0:
                    p_.sig[-1] = "gx1 square"
                    p_.assume(eqz(r * r * v_, u_), "sqrt_division_FQ2: ok -> r^2 v = u")
                    p_.ghost["sq"] = True
                    return (True, r)
                i = p_.choose(4, "which eta")
                p_.sig[-1] = f"gx1 non-square, eta{i} is the first that works"
                # closed facts (eval swu.G2.etas): the eta_i^2 are pairwise different; r, t, u != 0 on this branch
                # (t = 0 is the exceptional case, where gx1 is a square; u = v^3... g(x1) has no root; r is a candidate root of +-u/v)
                for a_ in range(4):
                    for b_ in range(a_ + 1, 4):
                        p_.assume(nez(etas[a_] * etas[a_] - etas[b_] * etas[b_]), "eta_a^2 != eta_b^2")
                for w_, why in ((r, "r != 0"), (t, "t != 0 off the exceptional case"), (u_, "g(x1) != 0")):
                    p_.assume(nez(w_), why)
                rhs = Z * Z * Z * t * t * t * t * t * t * u_
                for j in range(i):
                    cj = etas[j] * r * t * t * t
                    p_.assume(nez(cj * cj * v_ - rhs), "earlier candidates fail")
                c = etas[i] * r * t * t * t
                p_.assume(eqz(c * c * v_, rhs), "L-SQRT8(eta): (eta_i r t^3)^2 v = Z^3 t^6 u")
                p_.ghost["sq"] = False
                return (False, r)
        it = mk_interp(ctx, q, contracts={f"{SWU}.sqrt_division_FQ2": SqrtDivFQ2()},
                       globals_={(SWU, "ISO_3_A"): A, (SWU, "ISO_3_B"): B, (SWU, "ISO_3_Z"): Z, (SWU, "ETAS"): list(etas), (SWU, "FQ2"): K})
        kind, res = call_top(it, fv, [t])
        if kind == "raise":
            path.prove(f"{q}/raises.never", False, detail=f"raised {res.__name__}: the 'SWU failure' must be unreachable")
            return
        check_sswu_result(path, q, t, A, B, Z, res, path.ghost.get("sq", True), "")
    ctx.ex.run(body, q)
    ctx.assume("L-SQRT8 for sqrt_division_FQ2 and the eta candidates (assumed; core steps Lean-checked in Roots.lean): "
               "ok <=> u/v square; otherwise one eta_i candidate is a root")


def u_sqrt_divisions(ctx):
    for fname, nroots in (("sqrt_division_FQ", 0), ("sqrt_division_FQ2", 4)):
        q = f"{SWU}.{fname}"
        fv = get_function(ctx.prog, q)

        def body(path, q=q, fv=fv, nroots=nroots):
            K = FldKind("F")
            u, v = fsym("u", K), fsym("v", K)
            path.assume(nez(v), "requires v != 0")
            roots = [fsym(f"rt{i}", K) for i in range(4)]
            it = mk_interp(ctx, q, globals_={(SWU, "POSITIVE_EIGHTH_ROOTS_OF_UNITY"): tuple(roots), (SWU, "FQ"): K, (SWU, "FQ2"): K})
            (kind, res), pows = run_with_bigpow(lambda: call_top(it, fv, [u, v]))
            if kind == "raise":
                path.prove(f"{q}/raises.never", False, detail=res.__name__)
                return
            ok = isinstance(res, tuple) and len(res) == 2 and isinstance(res[1], Fld)
            path.prove(f"{q}/ensures.shape", ok)
            if not ok:
                return
            flag, r = res
            got = flag if isinstance(flag, bool) else path.case(flag, "is_valid_root")
            if got:
                path.prove(f"{q}/ensures.root", eqz(r * r * v, u), detail="ok -> result^2 * v = u (the code's own a-posteriori test)")
            else:
                path.prove(f"{q}/ensures.not-root", True, detail="not ok: no candidate passed the test (completeness is lemma L-SQRT34 / L-SQRT8)")
            path.prove(f"{q}/ensures.one-bigpow", len(pows) == 1, detail="exactly one large exponentiation (the candidate)")
        ctx.ex.run(body, q)


UNITS["swu.optimized_swu_G2"] = Unit("swu.optimized_swu_G2", u_swu_g2, [f"{SWU}.optimized_swu_G2"], props=("C10",))
UNITS["swu.sqrt_divisions"] = Unit("swu.sqrt_divisions", u_sqrt_divisions, [f"{SWU}.sqrt_division_FQ", f"{SWU}.sqrt_division_FQ2"],
                                   props=("C10",))


# ------------------------------------------------------------------------------------------
# isogeny maps: Horner evaluation with symbolic coefficient tables
# ------------------------------------------------------------------------------------------
def u_iso_map(ctx, which):
    q = f"{SWU}.iso_map_{which}"
    fv = get_function(ctx.prog, q)
    cname = "ISO_11_MAP_COEFFICIENTS" if which == "G1" else "ISO_3_MAP_COEFFICIENTS"

    def body(path):
        K = FldKind("F")
        it0 = mk_interp(ctx, q)
        real = it0.module_value(it0.prog.load(SWU), cname)
        shape = [len(row) for row in real]
        path.prove(f"{q}/tables.shape", len(shape) == 4, detail=f"four coefficient rows (x_num, x_den, y_num, y_den): lengths {shape}")
        tab = tuple(tuple(fsym(f"k{i}_{j}", K) for j in range(n)) for i, n in enumerate(shape))
        x, y, z = fsym("x", K), fsym("y", K), fsym("z", K)
        path.assume(nez(z), "requires z != 0")
        it = mk_interp(ctx, q, globals_={(SWU, cname): tab, (SWU, "FQ"): K, (SWU, "FQ2"): K})
        kind, res = call_top(it, fv, [x, y, z])
        if kind == "raise":
            path.prove(f"{q}/raises.never", False, detail=res.__name__)
            return
        ok = isinstance(res, tuple) and len(res) == 3 and all(isinstance(c, Fld) for c in res)
        path.prove(f"{q}/ensures.shape", ok)
        if not ok:
            return
        X, Y = x / z, y / z

        def ev(row):
            acc = K(0)
            p_ = K(1)
            for c in row:
                acc = acc + c * p_
                p_ = p_ * X
            return acc
        xn, xd, yn, yd = [ev(r) for r in tab]
        path.assume(nez(xd), "x denominator non-zero at this point (the kernel of the isogeny is excluded by the caller: closed fact)")
        path.assume(nez(yd), "y denominator non-zero at this point")
        rx, ry, rz = res
        path.prove(f"{q}/ensures.den", nez(rz), detail="result z != 0 away from the isogeny's kernel")
        path.prove(f"{q}/ensures.x", eqz(rx * xd, xn * rz), detail="x/z = x_num(X) / x_den(X)  with X = x/z, coefficient rows low-to-high")
        path.prove(f"{q}/ensures.y", eqz(ry * yd, Y * yn * rz), detail="y/z = Y * y_num(X) / y_den(X)")
    ctx.ex.run(body, q)
    ctx.note("the tables are symbolic here; that the pinned tables are THE RFC isogeny is the closed fact 'maps E' into E' (eval) + the RFC vectors in tests/bls")


for _w in ("G1", "G2"):
    UNITS[f"swu.iso_map_{_w}"] = Unit(f"swu.iso_map_{_w}", u_iso_map, [f"{SWU}.iso_map_{_w}"], props=("C10",), args=(_w,))


# ------------------------------------------------------------------------------------------
# pipelines: map_to_curve and hash_to_G1 / hash_to_G2 (structure of RFC 9380 section 3 hash_to_curve)
# ------------------------------------------------------------------------------------------
class Rec:
    def __init__(self, name, ret):
        self.name, self.ret, self.calls = name, ret, []

    def apply(self, interp, fv, env):
        self.calls.append(list(env.values()))
        return self.ret(self, list(env.values()))


def u_pipelines(ctx):
    for which, fld, cc in (("G1", "FQ", "multiply_clear_cofactor_G1"), ("G2", "FQ2", "multiply_clear_cofactor_G2")):
        qm = f"{H2C}.map_to_curve_{which}"
        qh = f"{H2C}.hash_to_{which}"

        def body_m(path, qm=qm, which=which):
            swu = Rec("swu", lambda s_, a: ("x", "y", "z"))
            iso = Rec("iso", lambda s_, a: ("iso", tuple(a)))
            it = mk_interp(ctx, qm, contracts={f"{SWU}.optimized_swu_{which}": swu, f"{SWU}.iso_map_{which}": iso})
            kind, res = call_top(it, get_function(ctx.prog, qm), ["u"])
            ok = kind == "ret" and res == ("iso", ("x", "y", "z")) and swu.calls == [["u"]]
            path.prove(f"{qm}/ensures.composition", ok, detail="map_to_curve(u) = iso_map(*optimized_swu(u))")
        ctx.ex.run(body_m, qm)

        def body_h(path, qh=qh, which=which, cc=cc):
            htf = Rec("htf", lambda s_, a: ("u0", "u1"))
            mp = Rec("map", lambda s_, a: ("M", a[0]))
            ad = Rec("add", lambda s_, a: ("add", a[0], a[1]))
            clr = Rec("clear", lambda s_, a: ("clear", a[0]))
            cons = {f"{H2C}.hash_to_field_{'FQ2' if which == 'G2' else 'FQ'}": htf, f"{H2C}.map_to_curve_{which}": mp,
                    "py_ecc.optimized_bls12_381.optimized_curve.add": ad,
                    f"py_ecc.optimized_bls12_381.optimized_clear_cofactor.{cc}": clr}
            it = mk_interp(ctx, qh, contracts=cons)
            kind, res = call_top(it, get_function(ctx.prog, qh), ["msg", "DST", "H"])
            ok = kind == "ret" and res == ("clear", ("add", ("M", "u0"), ("M", "u1"))) and htf.calls == [["msg", 2, "DST", "H"]]
            path.prove(f"{qh}/ensures.composition", ok,
                       detail="hash_to_curve(msg) = clear_cofactor(map_to_curve(u0) + map_to_curve(u1)), (u0, u1) = hash_to_field(msg, 2, DST, H)")
        ctx.ex.run(body_h, qh)


UNITS["h2c.pipelines"] = Unit("h2c.pipelines", u_pipelines,
                              [f"{H2C}.map_to_curve_G1", f"{H2C}.map_to_curve_G2", f"{H2C}.hash_to_G1", f"{H2C}.hash_to_G2",
                               f"{H2C}.clear_cofactor_G1", f"{H2C}.clear_cofactor_G2"], props=("C10", "C09"))


def u_h2c_closed(ctx):
    from contracts.closed import eval_facts, lean_cite
    eval_facts(ctx, ["swu.constants", "swu.G1.sqrt-constant", "swu.exceptional-x1-square", "swu.no-y0", "swu.G2.etas",
                     "swu.isogeny-G1-maps-Eprime-into-E", "swu.isogeny-G2-maps-Eprime-into-E", "bls.cofactors", "swu.sgn0-flip",
                     "h2c.cofactor-kills-twist-cofactor"])
    lean_cite(ctx, [("Fields.lean", "sqrt34_check_iff", "sqrt_division_FQ: the test succeeds iff u/v is a square"),
                    ("Fields.lean", "sqrt34_of_not_isSquare", "otherwise result^2 v = -u"),
                    ("Roots.lean", "sqrt_div_candidate_iff", "sqrt_division_FQ2 candidates"), ("Roots.lean", "sqrt_div_eta_iff", "eta candidates"),
                    ("Roots.lean", "isSquare_mul_pow15_iff", "u v^15 square iff u/v square")])


UNITS["h2c.closed"] = Unit("h2c.closed", u_h2c_closed, [], kind="closed", props=("C10",))
