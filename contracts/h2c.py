"""L5' hash-to-curve contracts (DESIGN §4 L5', §8 C10): simplified SWU for the isogenous curves, the square-root-
of-ratio helpers, the isogeny maps and the hash_to_G1 / hash_to_G2 pipelines.  Field level: polyid over an abstract
field with SYMBOLIC curve constants A', B', Z (and symbolic isogeny coefficient tables); the concrete tables are tied
to the RFC by closed facts (the isogeny maps E' into E; constants equal the pinned literals)."""
from __future__ import annotations

from pyvc.core import FAtom, Fld, FldKind, fsym, Unsupported, cur, PathAbort
from pyvc.interp import PyRaise
from pyvc.poly import Poly, R as PR
from pyvc.unit import Unit
from contracts.curves import get_function, mk_interp, call_top

UNITS = {}
SWU = "py_ecc.optimized_bls12_381.optimized_swu"
H2C = "py_ecc.bls.hash_to_curve"


def eqz(a, b=None):
    d = a if b is None else (a - b)
    return FAtom(d.r.n, True)


def nez(a):
    return FAtom(a.r.n, False)


class BigPowContract:
    """x ** e with a ~380-bit constant exponent: havocked to a fresh field element (the callers test their
    candidates a posteriori; what the exponentiation achieves is stated as lemma instances by the unit)"""

    def __init__(self, K):
        self.K = K
        self.calls = []


def abstract_pow_hook(K, record):
    """Fld.__pow__ refuses exponents > 64; this wraps it for one run: big exponents give a fresh symbol"""
    orig = Fld.__pow__

    def pw(self, k):
        if isinstance(k, int) and k > 64:
            p = cur()
            r = fsym(f"pw{next(p.fresh_id)}", self.kind)
            record.append((self, k, r))
            return r
        return orig(self, k)
    return orig, pw


def run_with_bigpow(fn):
    """run fn() with big field powers havocked; returns (result, [(base, exp, value)...])"""
    rec = []
    orig, pw = abstract_pow_hook(None, rec)
    Fld.__pow__ = pw
    try:
        return fn(), rec
    finally:
        Fld.__pow__ = orig


# ------------------------------------------------------------------------------------------
# RFC 9380 section 6.6.2 simplified SWU (straight-line form), over symbolic A, B, Z
# ------------------------------------------------------------------------------------------
def sswu_x1(path, u, A, B, Z):
    w = Z * Z * u * u * u * u + Z * u * u
    if path.case(eqz(w), "Z^2 u^4 + Z u^2 = 0?"):
        return B / (Z * A), True              # exceptional case: tv1 = inv0(0) = 0
    return (-(B) / A) * (A.kind(1) + A.kind(1) / w), False


def g_of(x, A, B):
    return x * x * x + A * x + B


def check_sswu_result(path, name, u, A, B, Z, res, flag_is_square, lemma_notes):
    if not (isinstance(res, tuple) and len(res) == 3 and all(isinstance(c, Fld) for c in res)):
        path.prove(f"{name}/ensures.shape", False, detail="result is not a triple of field elements")
        return
    xn, y, d = res
    path.prove(f"{name}/ensures.den", nez(d), detail="z != 0: the result is a finite point of E'")
    x1, exceptional = sswu_x1(path, u, A, B, Z)
    x2 = Z * u * u * x1
    if exceptional and not flag_is_square:
        # closed fact (choice of Z, RFC 9380 appendix H.2 criterion 4; eval swu.exceptional-x1-square): g(B/(ZA)) is a square,
        # so in the exceptional case the non-square branch is unreachable
        path.notes.append("exceptional case with gx1 non-square: excluded by the closed fact g(B/(ZA)) is a square")
        return
    want_x = x1 if flag_is_square else x2
    path.prove(f"{name}/ensures.x", eqz(xn, want_x * d),
               detail="x/z = x1 when gx1 is a square, else x2 = Z u^2 x1   (x1 = (-B/A)(1 + 1/(Z^2u^4+Zu^2)), or B/(ZA) in the exceptional case)")
    # y*d was returned as the y coordinate with denominator d:  Y = y/d
    path.prove(f"{name}/ensures.on-curve", eqz(y * y, g_of(want_x, A, B) * d * d),
               detail="(y/z)^2 = g(x/z): the point is on E'")
    # sign: the last sgn0 comparison of the code decides the flip; Y = y_final
    tests = path.ghost.get("sgn0-tests", [])
    ok = len(tests) == 1 and isinstance(tests[0][0], Fld) and isinstance(tests[0][1], Fld)
    path.prove(f"{name}/ensures.sgn0-test", ok, detail="exactly one comparison t.sgn0 != y.sgn0")
    if ok:
        a, b, equal = tests[0]
        t_side, y_side = (a, b) if path.pc.prove_zero((a - u).r.n) else (b, a)
        path.prove(f"{name}/ensures.sgn0", eqz(t_side, u), detail="the comparison is against sgn0 of the input t")
        # Y = y/d must be +y_side when equal, -y_side when different (then sgn0(-y) = 1 - sgn0(y) for y != 0)
        path.prove(f"{name}/ensures.sgn0", eqz(y, (y_side if equal else -y_side) * d),
                   detail="y/z = y when sgn0(y) = sgn0(t), else -y: hence sgn0(y/z) = sgn0(t)")
        # y != 0: g has no root in the field (E' has no point of order 2: closed fact swu.no-y0), and y^2 = g(x) was just proved;
        # so a flipped y really changes sgn0 (sgn0(-y) = 1 - sgn0(y) for y != 0: unit opt.sgn0 + p odd)


def swu_constants(path, K, names):
    cs = {n: fsym(n, K) for n in names}
    return cs


def u_swu_g1(ctx):
    q = f"{SWU}.optimized_swu_G1"
    fv = get_function(ctx.prog, q)

    def body(path):
        K = FldKind("F")
        A, B, Z, C = fsym("A", K), fsym("B", K), fsym("Z", K), fsym("c", K)
        for v, why in ((A, "A' != 0"), (B, "B' != 0"), (Z, "Z != 0")):
            path.assume(nez(v), why)
        path.assume(eqz(C * C, -(Z * Z * Z)), "closed fact swu.G1.sqrt-constant: SQRT_MINUS_11_CUBED^2 = -Z^3")
        t = fsym("t", K)

        class SqrtDivFQ:
            """sqrt_division_FQ(u, v) at a call site (unit swu.sqrt_division_FQ + L-SQRT34 / Euler, Lean Fields.lean
            sqrt34_check_iff, sqrt34_of_not_isSquare):  returns (ok, r) with  ok <=> r^2 v = u,  ok <=> u/v is a square,
            and  not ok -> r^2 v = -u"""

            def apply(self2, interp, fv_, env):
                p_ = cur()
                u_, v_ = env["u"], env["v"]
                r = fsym(f"r{next(p_.fresh_id)}", K)
                if p_.choose(2, "gx1 square?") == 0:
                    p_.sig[-1] = "gx1 square"
                    p_.assume(eqz(r * r * v_, u_), "sqrt_division_FQ: ok -> r^2 v = u")
                    p_.ghost["sq"] = True
                    return (True, r)
                p_.sig[-1] = "gx1 non-square"
                p_.assume(eqz(r * r * v_, -u_), "sqrt_division_FQ: not ok -> r^2 v = -u  (p = 3 mod 4)")
                p_.ghost["sq"] = False
                return (False, r)
        it = mk_interp(ctx, q, contracts={f"{SWU}.sqrt_division_FQ": SqrtDivFQ()},
                       globals_={(SWU, "ISO_11_A"): A, (SWU, "ISO_11_B"): B, (SWU, "ISO_11_Z"): Z, (SWU, "SQRT_MINUS_11_CUBED"): C,
                                 (SWU, "FQ"): K})
        kind, res = call_top(it, fv, [t])
        if kind == "raise":
            path.prove(f"{q}/raises.never", False, detail=f"raised {res.__name__}")
            return
        # closed fact: g(x) = x^3 + A'x + B' has no root (E' has odd order: no point with y = 0), instantiated where needed
        check_sswu_result(path, q, t, A, B, Z, res, path.ghost.get("sq", True), "")
    ctx.ex.run(body, q)
    ctx.trust("contract of sqrt_division_FQ at the call site (ok <=> u/v square; not ok -> r^2 v = -u): proved from the real source by unit "
              "swu.sqrt_division_FQ.complete with Euler's criterion (Lean Fields.lean)")


UNITS["swu.optimized_swu_G1"] = Unit("swu.optimized_swu_G1", u_swu_g1, [f"{SWU}.optimized_swu_G1"], props=("C10",))


def u_swu_g2(ctx):
    q = f"{SWU}.optimized_swu_G2"
    fv = get_function(ctx.prog, q)

    def body(path):
        K = FldKind("F")
        A, B, Z = fsym("A", K), fsym("B", K), fsym("Z", K)
        for v, why in ((A, "A' != 0"), (B, "B' != 0"), (Z, "Z != 0")):
            path.assume(nez(v), why)
        etas = [fsym(f"eta{i}", K) for i in range(4)]
        t = fsym("t", K)

        class SqrtDivFQ2:
            """sqrt_division_FQ2(u, v) at a call site — the contract proved by unit swu.sqrt_division_FQ2.complete:
               u/v a square      ->  (True, r)   with r^2 v = u
               u/v a non-square  ->  (False, r)  with r^2 v = u chk,  chk^4 = -1     (chk = (u v^15)^((q^2-1)/8))
            Nothing is assumed about the eta candidates: the loop of the real code is executed, and the path on which none of
            them passes is shown contradictory from the table facts (closed fact swu.G2.root-tables)."""

            def apply(self2, interp, fv_, env):
                p_ = cur()
                u_, v_ = env["u"], env["v"]
                r = fsym(f"r{next(p_.fresh_id)}", K)
                if p_.choose(2, "gx1 square?") == 0:
                    p_.sig[-1] = "gx1 square"
                    p_.assume(eqz(r * r * v_, u_), "sqrt_division_FQ2: square -> r^2 v = u")
                    p_.ghost["sq"] = True
                    return (True, r)
                p_.sig[-1] = "gx1 non-square"
                chk = fsym(f"chk{next(p_.fresh_id)}", K)
                p_.assume(nez(u_), "g(x1) != 0 (closed fact swu.no-y0)")
                # chk^4 = -1 is part of the contract too; it is used only in the final case analysis (not needed by polyid)
                p_.assume(eqz(r * r * v_, u_ * chk), "sqrt_division_FQ2: non-square -> r^2 v = u chk  (and chk^4 = -1)")
                p_.ghost["sq"] = False
                p_.ghost["nonsq"] = (r, chk, u_, v_)
                return (False, r)
        it = mk_interp(ctx, q, contracts={f"{SWU}.sqrt_division_FQ2": SqrtDivFQ2()},
                       globals_={(SWU, "ISO_3_A"): A, (SWU, "ISO_3_B"): B, (SWU, "ISO_3_Z"): Z, (SWU, "ETAS"): list(etas), (SWU, "FQ2"): K})
        kind, res = call_top(it, fv, [t])
        if kind == "raise":
            ns = path.ghost.get("nonsq")
            if ns is None:
                path.prove(f"{q}/raises.never", False, detail=f"raised {res.__name__} although gx1 is a square")
                return
            # the 'SWU failure' path.  Each failed test is  f_k = (eta_k r t^3)^2 v - Z^3 t^6 u != 0; polyid shows
            # f_k = t^6 u (eta_k^2 chk - Z^3), so eta_k^2 chk != Z^3 for all four k — but chk^4 = -1 (contract of
            # sqrt_division_FQ2) and the table fact  'for every w with w^4 = -1 some eta_k^2 w = Z^3'  (closed fact
            # swu.G2.root-tables, checked on the four roots of X^4 + 1) say one of them is: the path is contradictory.
            r, chk, u_, v_ = ns
            t3 = t * t * t
            rhs = Z * Z * Z * t3 * t3 * u_
            ok = True
            for e in etas:
                f_k = (e * r * t3) * (e * r * t3) * v_ - rhs
                ok = ok and path.pc.prove_nonzero(f_k.r.n) and path.pc.prove_zero((f_k - t3 * t3 * u_ * (e * e * chk - Z * Z * Z)).r.n)
            path.prove(f"{q}/raises.never", ok, via="polyid",
                       detail="'SWU failure': all four tests f_k = t^6 u (eta_k^2 chk - Z^3) fail, i.e. eta_k^2 chk != Z^3 for every k, "
                              "although chk^4 = -1 — excluded by the table fact swu.G2.root-tables: unreachable")
            return
        check_sswu_result(path, q, t, A, B, Z, res, path.ghost.get("sq", True), "")
    ctx.ex.run(body, q)
    ctx.trust("contract of sqrt_division_FQ2 at the call site (square: r^2 v = u; non-square: r^2 v = u chk, chk^4 = -1): "
              "proved from the real source by unit swu.sqrt_division_FQ2.complete")


def u_sqrt_divisions(ctx):
    for fname, nroots in (("sqrt_division_FQ", 0), ("sqrt_division_FQ2", 4)):
        q = f"{SWU}.{fname}"
        fv = get_function(ctx.prog, q)

        def body(path, q=q, fv=fv, nroots=nroots):
            K = FldKind("F")
            u, v = fsym("u", K), fsym("v", K)
            path.assume(nez(v), "requires v != 0")
            roots = [fsym(f"rt{i}", K) for i in range(4)]
            it = mk_interp(ctx, q, globals_={(SWU, "POSITIVE_EIGHTH_ROOTS_OF_UNITY"): tuple(roots), (SWU, "FQ"): K, (SWU, "FQ2"): K})
            (kind, res), pows = run_with_bigpow(lambda: call_top(it, fv, [u, v]))
            if kind == "raise":
                path.prove(f"{q}/raises.never", False, detail=res.__name__)
                return
            ok = isinstance(res, tuple) and len(res) == 2 and isinstance(res[1], Fld)
            path.prove(f"{q}/ensures.shape", ok)
            if not ok:
                return
            flag, r = res
            got = flag if isinstance(flag, bool) else path.case(flag, "is_valid_root")
            if got:
                path.prove(f"{q}/ensures.root", eqz(r * r * v, u), detail="ok -> result^2 * v = u (the code's own a-posteriori test)")
            else:
                path.prove(f"{q}/ensures.not-root", True, detail="not ok: no candidate passed the test (completeness is lemma L-SQRT34 / L-SQRT8)")
            path.prove(f"{q}/ensures.one-bigpow", len(pows) == 1, detail="exactly one large exponentiation (the candidate)")
        ctx.ex.run(body, q)


def u_sqrt_division_fq2_complete(ctx):
    """the contract of sqrt_division_FQ2 that optimized_swu_G2 relies on (v != 0, u != 0):
         u/v square      ->  (True, r),  r^2 v = u
         u/v non-square  ->  (False, r), r^2 v = u chk  with chk^4 = -1
    chk := c^2 (u v^15) for the havocked candidate power c = (u v^15)^((q^2-9)/16), so chk = (u v^15)^((q^2-1)/8)
    (Lean Roots.lean sqrt_div_gamma_sq), chk^4 = (u v^15)^((q^2-1)/2) = +1 / -1 according to u v^15 — equivalently u/v —
    being a square or not (Lean check_pow_four, Fields.lean euler_isSquare_iff / euler_not_isSquare_iff, isSquare_mul_pow15_iff).
    polyid proves, for symbolic roots rho_k, that the k-th test of the loop is  f_k = u (rho_k^2 chk - 1);  the case analysis
    then uses the table facts T1, T2 of the closed fact swu.G2.root-tables."""
    q = f"{SWU}.sqrt_division_FQ2"
    fv = get_function(ctx.prog, q)

    def body(path):
        K = FldKind("F")
        square = path.choose(2, "u/v") == 0
        path.sig[-1] = "u/v square" if square else "u/v non-square"
        u, v = fsym("u", K), fsym("v", K)
        path.assume(nez(v), "requires v != 0")
        path.assume(nez(u), "requires u != 0 (g has no root: closed fact swu.no-y0)")
        roots = [fsym(f"rho{i}", K) for i in range(4)]
        it = mk_interp(ctx, q, globals_={(SWU, "POSITIVE_EIGHTH_ROOTS_OF_UNITY"): tuple(roots), (SWU, "FQ2"): K})
        (kind, res), pows = run_with_bigpow(lambda: call_top(it, fv, [u, v]))
        if kind == "raise":
            path.prove(f"{q}/raises.never", False, detail=res.__name__)
            return
        a = u * v ** 15
        okp = len(pows) == 1 and path.pc.prove_zero((pows[0][0] - a).r.n)
        path.prove(f"{q}/ensures.one-bigpow", okp, detail="exactly one large exponentiation, of u v^15")
        ok = isinstance(res, tuple) and len(res) == 2 and isinstance(res[1], Fld)
        path.prove(f"{q}/ensures.shape", ok)
        if not (ok and okp):
            return
        c = pows[0][2]
        chk = c * c * a
        gamma = c * u * v ** 7
        flag, r = res
        got = flag if isinstance(flag, bool) else path.case(flag, "is_valid_root")
        f = [(rho * gamma) * (rho * gamma) * v - u for rho in roots]
        ident = all(path.pc.prove_zero((f[k] - u * (roots[k] * roots[k] * chk - K(1))).r.n) for k in range(4))
        path.prove(f"{q}/lemma.tests", ident, via="polyid", detail="the k-th test of the loop is f_k = u (rho_k^2 chk - 1), gamma = c u v^7, chk = c^2 u v^15")
        matched = [k for k in range(4) if path.pc.prove_zero(f[k].r.n)]
        failed = [k for k in range(4) if path.pc.prove_nonzero(f[k].r.n)]
        if square:
            # chk^4 = 1.  T1: some rho_k^2 chk = 1, i.e. some f_k = 0: the path on which all four tests fail is contradictory
            if not got:
                path.prove(f"{q}/ensures.complete", ident and len(failed) == 4, via="polyid",
                           detail="u/v square but no candidate accepted: all rho_k^2 chk != 1 although chk^4 = 1 — excluded by table fact T1: unreachable")
                return
            path.prove(f"{q}/ensures.root", eqz(r * r * v, u), detail="square: (True, r) with r^2 v = u")
        else:
            # chk^4 = -1.  A passed test f_k = 0 gives rho_k^2 chk = 1 (u != 0), hence chk^4 = rho_k^-8 = 1 (T2): contradiction
            if got:
                path.prove(f"{q}/ensures.exact", ident and len(matched) >= 1, via="polyid",
                           detail="u/v non-square but a candidate accepted: rho_k^2 chk = 1 forces chk^4 = 1 (T2), not -1: unreachable")
                return
            path.prove(f"{q}/ensures.gamma", eqz(r * r * v, u * chk), detail="non-square: (False, r) with r^2 v = u chk, chk^4 = -1")
    ctx.ex.run(body, q + "[complete]")
    from contracts.closed import lean_cite
    lean_cite(ctx, [("Roots.lean", "sqrt_div_gamma_sq", "gamma^2 v = u (u v^15)^((q^2-1)/8)"),
                    ("Roots.lean", "check_pow_four", "chk^4 is Euler's symbol of u v^15"),
                    ("Fields.lean", "euler_isSquare_iff", "a^((Q-1)/2) = 1 iff a is a square"),
                    ("Fields.lean", "euler_not_isSquare_iff", "a^((Q-1)/2) = -1 iff a is not a square"),
                    ("Roots.lean", "isSquare_mul_pow15_iff", "u v^15 square iff u/v square")])


def u_sqrt_division_fq_complete(ctx):
    """the contract of sqrt_division_FQ that optimized_swu_G1 relies on (v != 0, u != 0):
         u/v square -> (True, r), r^2 v = u;     u/v non-square -> (False, r), r^2 v = -u.
    With c = (u v^3)^((p-3)/4) havocked, chi := c^2 (u v^3) = (u v^3)^((p-1)/2) is Euler's symbol of u v^3 = (u/v) v^4
    (Lean Fields.lean euler_isSquare_iff / euler_not_isSquare_iff): +1 or -1; polyid proves r^2 v = u chi."""
    q = f"{SWU}.sqrt_division_FQ"
    fv = get_function(ctx.prog, q)

    def body(path):
        K = FldKind("F")
        square = path.choose(2, "u/v") == 0
        path.sig[-1] = "u/v square" if square else "u/v non-square"
        u, v = fsym("u", K), fsym("v", K)
        path.assume(nez(v), "requires v != 0")
        path.assume(nez(u), "requires u != 0 (g has no root: closed fact swu.no-y0)")
        it = mk_interp(ctx, q, globals_={(SWU, "FQ"): K})
        (kind, res), pows = run_with_bigpow(lambda: call_top(it, fv, [u, v]))
        if kind == "raise":
            path.prove(f"{q}/raises.never", False, detail=res.__name__)
            return
        a = u * v * v * v
        okp = len(pows) == 1 and path.pc.prove_zero((pows[0][0] - a).r.n)
        path.prove(f"{q}/ensures.one-bigpow", okp, detail="exactly one large exponentiation, of u v^3")
        ok = isinstance(res, tuple) and len(res) == 2 and isinstance(res[1], Fld)
        path.prove(f"{q}/ensures.shape", ok)
        if not (ok and okp):
            return
        c = pows[0][2]
        chi = c * c * a
        path.assume(eqz(chi, K(1) if square else -K(1)), "Euler: (u v^3)^((p-1)/2) = +1 for a square, -1 for a non-square")
        flag, r = res
        got = flag if isinstance(flag, bool) else path.case(flag, "is_valid_root")
        path.prove(f"{q}/ensures.flag", got == square, detail="the test r^2 v - u = u (chi - 1) = 0 succeeds exactly for squares (char != 2, u != 0)")
        path.prove(f"{q}/ensures.root", eqz(r * r * v, u if square else -u), detail="r^2 v = u for squares, -u for non-squares")
    ctx.ex.run(body, q + "[complete]")
    from contracts.closed import lean_cite
    lean_cite(ctx, [("Fields.lean", "euler_isSquare_iff", "a^((p-1)/2) = 1 iff a is a square"),
                    ("Fields.lean", "euler_not_isSquare_iff", "a^((p-1)/2) = -1 iff a is not a square")])


UNITS["swu.sqrt_division_FQ.complete"] = Unit("swu.sqrt_division_FQ.complete", u_sqrt_division_fq_complete,
                                               [f"{SWU}.sqrt_division_FQ"], props=("C10",))
UNITS["swu.sqrt_division_FQ2.complete"] = Unit("swu.sqrt_division_FQ2.complete", u_sqrt_division_fq2_complete,
                                                [f"{SWU}.sqrt_division_FQ2"], props=("C10",))
UNITS["swu.optimized_swu_G2"] = Unit("swu.optimized_swu_G2", u_swu_g2, [f"{SWU}.optimized_swu_G2"], props=("C10",))
UNITS["swu.sqrt_divisions"] = Unit("swu.sqrt_divisions", u_sqrt_divisions, [f"{SWU}.sqrt_division_FQ", f"{SWU}.sqrt_division_FQ2"],
                                   props=("C10",))


# ------------------------------------------------------------------------------------------
# isogeny maps: Horner evaluation with symbolic coefficient tables
# ------------------------------------------------------------------------------------------
def u_iso_map(ctx, which):
    q = f"{SWU}.iso_map_{which}"
    fv = get_function(ctx.prog, q)
    cname = "ISO_11_MAP_COEFFICIENTS" if which == "G1" else "ISO_3_MAP_COEFFICIENTS"

    def body(path):
        K = FldKind("F")
        it0 = mk_interp(ctx, q)
        real = it0.module_value(it0.prog.load(SWU), cname)
        shape = [len(row) for row in real]
        path.prove(f"{q}/tables.shape", len(shape) == 4, detail=f"four coefficient rows (x_num, x_den, y_num, y_den): lengths {shape}")
        tab = tuple(tuple(fsym(f"k{i}_{j}", K) for j in range(n)) for i, n in enumerate(shape))
        x, y, z = fsym("x", K), fsym("y", K), fsym("z", K)
        path.assume(nez(z), "requires z != 0")
        it = mk_interp(ctx, q, globals_={(SWU, cname): tab, (SWU, "FQ"): K, (SWU, "FQ2"): K})
        kind, res = call_top(it, fv, [x, y, z])
        if kind == "raise":
            path.prove(f"{q}/raises.never", False, detail=res.__name__)
            return
        ok = isinstance(res, tuple) and len(res) == 3 and all(isinstance(c, Fld) for c in res)
        path.prove(f"{q}/ensures.shape", ok)
        if not ok:
            return
        X, Y = x / z, y / z

        def ev(row):
            acc = K(0)
            p_ = K(1)
            for c in row:
                acc = acc + c * p_
                p_ = p_ * X
            return acc
        xn, xd, yn, yd = [ev(r) for r in tab]
        path.assume(nez(xd), "x denominator non-zero at this point (the kernel of the isogeny is excluded by the caller: closed fact)")
        path.assume(nez(yd), "y denominator non-zero at this point")
        rx, ry, rz = res
        path.prove(f"{q}/ensures.den", nez(rz), detail="result z != 0 away from the isogeny's kernel")
        path.prove(f"{q}/ensures.x", eqz(rx * xd, xn * rz), detail="x/z = x_num(X) / x_den(X)  with X = x/z, coefficient rows low-to-high")
        path.prove(f"{q}/ensures.y", eqz(ry * yd, Y * yn * rz), detail="y/z = Y * y_num(X) / y_den(X)")
    ctx.ex.run(body, q)
    ctx.note("the tables are symbolic here; that the pinned tables are THE RFC isogeny is the closed fact 'maps E' into E' (eval) + the RFC vectors in tests/bls")


for _w in ("G1", "G2"):
    UNITS[f"swu.iso_map_{_w}"] = Unit(f"swu.iso_map_{_w}", u_iso_map, [f"{SWU}.iso_map_{_w}"], props=("C10",), args=(_w,), budget_s=900)


# ------------------------------------------------------------------------------------------
# pipelines: map_to_curve and hash_to_G1 / hash_to_G2 (structure of RFC 9380 section 3 hash_to_curve)
# ------------------------------------------------------------------------------------------
class Rec:
    def __init__(self, name, ret):
        self.name, self.ret, self.calls = name, ret, []

    def apply(self, interp, fv, env):
        self.calls.append(list(env.values()))
        return self.ret(self, list(env.values()))


def u_pipelines(ctx):
    for which, fld, cc in (("G1", "FQ", "multiply_clear_cofactor_G1"), ("G2", "FQ2", "multiply_clear_cofactor_G2")):
        qm = f"{H2C}.map_to_curve_{which}"
        qh = f"{H2C}.hash_to_{which}"

        def body_m(path, qm=qm, which=which):
            swu = Rec("swu", lambda s_, a: ("x", "y", "z"))
            iso = Rec("iso", lambda s_, a: ("iso", tuple(a)))
            it = mk_interp(ctx, qm, contracts={f"{SWU}.optimized_swu_{which}": swu, f"{SWU}.iso_map_{which}": iso})
            kind, res = call_top(it, get_function(ctx.prog, qm), ["u"])
            ok = kind == "ret" and res == ("iso", ("x", "y", "z")) and swu.calls == [["u"]]
            path.prove(f"{qm}/ensures.composition", ok, detail="map_to_curve(u) = iso_map(*optimized_swu(u))")
        ctx.ex.run(body_m, qm)

        def body_h(path, qh=qh, which=which, cc=cc):
            htf = Rec("htf", lambda s_, a: ("u0", "u1"))
            mp = Rec("map", lambda s_, a: ("M", a[0]))
            ad = Rec("add", lambda s_, a: ("add", a[0], a[1]))
            clr = Rec("clear", lambda s_, a: ("clear", a[0]))
            cons = {f"{H2C}.hash_to_field_{'FQ2' if which == 'G2' else 'FQ'}": htf, f"{H2C}.map_to_curve_{which}": mp,
                    "py_ecc.optimized_bls12_381.optimized_curve.add": ad,
                    f"py_ecc.optimized_bls12_381.optimized_clear_cofactor.{cc}": clr}
            it = mk_interp(ctx, qh, contracts=cons)
            kind, res = call_top(it, get_function(ctx.prog, qh), ["msg", "DST", "H"])
            ok = kind == "ret" and res == ("clear", ("add", ("M", "u0"), ("M", "u1"))) and htf.calls == [["msg", 2, "DST", "H"]]
            path.prove(f"{qh}/ensures.composition", ok,
                       detail="hash_to_curve(msg) = clear_cofactor(map_to_curve(u0) + map_to_curve(u1)), (u0, u1) = hash_to_field(msg, 2, DST, H)")
        ctx.ex.run(body_h, qh)


UNITS["h2c.pipelines"] = Unit("h2c.pipelines", u_pipelines,
                              [f"{H2C}.map_to_curve_G1", f"{H2C}.map_to_curve_G2", f"{H2C}.hash_to_G1", f"{H2C}.hash_to_G2",
                               f"{H2C}.clear_cofactor_G1", f"{H2C}.clear_cofactor_G2"], props=("C10", "C09"))


def u_h2c_closed(ctx):
    from contracts.closed import eval_facts, lean_cite
    eval_facts(ctx, ["swu.constants", "swu.G1.sqrt-constant", "swu.exceptional-x1-square", "swu.no-y0", "swu.G2.etas",
                     "swu.isogeny-G1-maps-Eprime-into-E", "swu.isogeny-G2-maps-Eprime-into-E", "bls.cofactors", "swu.sgn0-flip",
                     "h2c.cofactor-kills-twist-cofactor", "swu.G2.root-tables"])
    lean_cite(ctx, [("Fields.lean", "sqrt34_check_iff", "sqrt_division_FQ: the test succeeds iff u/v is a square"),
                    ("Fields.lean", "sqrt34_of_not_isSquare", "otherwise result^2 v = -u"),
                    ("Roots.lean", "sqrt_div_candidate_iff", "sqrt_division_FQ2 candidates"), ("Roots.lean", "sqrt_div_eta_iff", "eta candidates"),
                    ("Roots.lean", "isSquare_mul_pow15_iff", "u v^15 square iff u/v square")])


UNITS["h2c.closed"] = Unit("h2c.closed", u_h2c_closed, [], kind="closed", props=("C10",))
