"""L3 pairing contracts (DESIGN §4 L3, §8 C05, C12): the four `pairing` gates, the four Miller loops against the
textbook Miller recurrence MillerSpec_T, final_exponentiate and exp_by_p.  Bilinearity / non-degeneracy of MillerSpec
(A-PAIRING) is an assumed theorem; a bounded run-time monitor on the real code stands in for it (never counted as proved)."""
from __future__ import annotations

import z3

from pyvc.core import FAtom, Fld, FldKind, ZAtom, fsym, Unsupported, cur
from pyvc.group import GroupCtx, GPt, abs_of, frob_point
from pyvc.interp import PyRaise
from pyvc.poly import Poly, R as PR
from pyvc.unit import Unit
from contracts.curves import get_function, mk_interp, call_top
from contracts.h2c import run_with_bigpow, eqz, nez

UNITS = {}
P_BLS = 0x1a0111ea397fe69a4b1ba7b6434bacd764774b84f38512bf6730d2a0f6b0f6241eabfffeb153ffffb9feffffffffaaab
R_BLS = 0x73eda753299d7d483339d80809a1d80553bda402fffe5bfeffffffff00000001
P_BN = 21888242871839275222246405745257275088696311157297823662689037894645226208583
R_BN = 21888242871839275222246405745257275088548364400416034343698204186575808495617
T_BLS = 0xd201000000010000            # |x|
T_BN = 6 * 4965661367192848881 + 2   # 6u + 2

MODS = {
    "py_ecc.optimized_bls12_381.optimized_pairing": dict(curve="py_ecc.optimized_bls12_381.optimized_curve", style="proj", p=P_BLS, r=R_BLS, T=T_BLS, bn=False, opt=True),
    "py_ecc.optimized_bn128.optimized_pairing": dict(curve="py_ecc.optimized_bn128.optimized_curve", style="proj", p=P_BN, r=R_BN, T=T_BN, bn=True, opt=True),
    "py_ecc.bls12_381.bls12_381_pairing": dict(curve="py_ecc.bls12_381.bls12_381_curve", style="none", p=P_BLS, r=R_BLS, T=T_BLS, bn=False, opt=False),
    "py_ecc.bn128.bn128_pairing": dict(curve="py_ecc.bn128.bn128_curve", style="none", p=P_BN, r=R_BN, T=T_BN, bn=True, opt=False),
}
KF = FldKind("FQ12")        # abstract elements of the degree-12 field (only ring operations and inv0 are used on them)


# ------------------------------------------------------------------------------------------
# Miller loops
# ------------------------------------------------------------------------------------------
def pt_key(p):
    return tuple(sorted((a, z3.simplify(c).as_long()) for a, c in p.lin.items()))


class LineTable:
    """line-function values as symbols indexed by the abstract points involved: l_{A,B}(P).  The optimized linefunc returns
    (numerator, denominator) with denominator != 0 (C13 contract), the reference one a single value."""

    def __init__(self, path, opt, grp, r, top):
        self.path, self.opt, self.grp, self.r, self.top = path, opt, grp, r, top
        self.tab = {}
        self.calls = 0

    def value(self, A, B):
        key = (pt_key(A), pt_key(B))
        if key not in self.tab:
            k = len(self.tab)
            n = fsym(f"ln{k}", KF)
            if self.opt:
                d = fsym(f"ld{k}", KF)
                self.path.assume(nez(d), "linefunc contract: denominator != 0")
                self.tab[key] = (n, d)
            else:
                self.tab[key] = (n, KF(1))
        return self.tab[key]

    def apply(self, interp, fv, env):
        path = cur()
        self.calls += 1
        vals = list(env.values())
        A, B = abs_of(self.grp, vals[0]), abs_of(self.grp, vals[1])
        T = vals[2]
        ok = isinstance(T, GPt) and pt_key(T) == (("P", 1),)
        path.prove(f"{self.top}/call[linefunc]/requires.T", ok, kind="requires", detail="the line is evaluated at the G1 argument")
        # requires: finite points.  For subgroup inputs m.Q != O for 0 < m < r (L-CYCLIC); Frobenius images of Q are finite
        for X in (A, B):
            fin = any(a != "Q" for a, _ in pt_key(X)) or (pt_key(X) and pt_key(X)[0][1] % self.r != 0)
            path.prove(f"{self.top}/call[linefunc]/requires.finite", bool(fin), kind="requires",
                       detail=f"line through finite points only: {pt_key(X)}")
        n, d = self.value(A, B)
        return (n, d) if self.opt else n


def miller_spec(lines, digits, bn, grp):
    """the textbook Miller recurrence along the digit string (most significant digit, = 1, first):
       f_1 = 1;  f_2m = f_m^2 l_{mQ,mQ}(P);  f_{m+1} = f_m l_{mQ,Q}(P)  (f_{m-1} = f_m l_{mQ,-Q}(P) for a digit -1);
       BN curves: two more lines through pi(Q) and -pi^2(Q) (optimal ate).  Returns (numerator, denominator, final R)."""
    Q = grp.atom("Q")
    num, den = KF(1), KF(1)
    Rm = Q
    assert digits[0] == 1
    for d in digits[1:]:
        n_, d_ = lines.value(Rm, Rm)
        num, den = num * num * n_, den * den * d_
        Rm = Rm.smul(2)
        if d == 1:
            n_, d_ = lines.value(Rm, Q)
            num, den = num * n_, den * d_
            Rm = Rm.add(Q)
        elif d == -1:
            n_, d_ = lines.value(Rm, Q.neg())
            num, den = num * n_, den * d_
            Rm = Rm.add(Q.neg())
    if bn:
        piQ, npi2Q = grp.atom("piQ"), grp.atom("pi2Q").neg()
        n1, d1 = lines.value(Rm, piQ)
        Rm2 = Rm.add(piQ)
        n2, d2 = lines.value(Rm2, npi2Q)
        num, den = num * n1 * n2, den * d1 * d2
        Rm = Rm2
    return num, den, Rm


class CurveOps:
    """double / add / neg / twist / cast_point_to_fq12 on abstract points (L2 contracts), Frobenius images recognised"""

    def __init__(self, grp, op, p):
        self.grp, self.op, self.p = grp, op, p

    def conv(self, v):
        fp = frob_point(v) if isinstance(v, tuple) else None
        if fp is not None:
            pt, times, q, negated = fp
            ok = q == self.p and pt_key(pt) == (("Q", 1),) and times in (1, 2)
            cur().prove("frobenius/recognised", ok, kind="requires", detail="coordinates raised to the field characteristic: pi^k(Q)")
            if not ok:
                raise Unsupported("unrecognised Frobenius tuple")
            a = self.grp.atom("piQ" if times == 1 else "pi2Q")
            return a.neg() if negated else a
        return abs_of(self.grp, v)

    def apply(self, interp, fv, env):
        vals = list(env.values())
        if self.op == "add":
            return self.conv(vals[0]).add(self.conv(vals[1]))
        if self.op == "double":
            return self.conv(vals[0]).smul(2)
        if self.op == "neg":
            return self.conv(vals[0]).neg()
        if self.op in ("twist", "cast"):
            v = vals[0]
            return None if v is None else self.conv(v)
        raise Unsupported(self.op)


class LineOps(LineTable):
    def apply(self, interp, fv, env):
        # convert Frobenius tuples first
        co = CurveOps(self.grp, "id", self.p)
        names = list(env)
        env2 = {names[0]: co.conv(env[names[0]]), names[1]: co.conv(env[names[1]]), names[2]: env[names[2]]}
        return LineTable.apply(self, interp, fv, env2)


def binary_digits(T):
    return [int(c) for c in bin(T)[2:]]


def u_miller(ctx, modname):
    info = MODS[modname]
    q = f"{modname}.miller_loop"
    fv = get_function(ctx.prog, q)

    def body(path):
        grp = GroupCtx("E12", info["style"])
        Q, P = grp.atom("Q"), grp.atom("P")
        path.assume(~Q.is_O(), "requires Q finite")
        path.assume(~P.is_O(), "requires P finite")
        lines = LineOps(path, info["opt"], grp, info["r"], q)
        lines.p = info["p"]
        cv = info["curve"]
        cons = {f"{modname}.linefunc": lines, f"{cv}.double": CurveOps(grp, "double", info["p"]), f"{cv}.add": CurveOps(grp, "add", info["p"]),
                f"{cv}.neg": CurveOps(grp, "neg", info["p"]), f"{cv}.twist": CurveOps(grp, "twist", info["p"]),
                f"{modname}.cast_point_to_fq12": CurveOps(grp, "cast", info["p"])}
        it = mk_interp(ctx, q, contracts=cons, globals_={(modname, "FQ12"): KF})
        fe_modes = [True, False] if info["opt"] else [None]
        k = path.choose(len(fe_modes), "final_exponentiate")
        fe = fe_modes[k]
        path.sig[-1] = f"final_exponentiate={fe}"
        args = [Q, P] + ([fe] if fe is not None else [])
        (kind, res), pows = run_with_bigpow(lambda: call_top(it, fv, args))
        if kind == "raise":
            path.prove(f"{q}/raises.never", False, detail=f"raised {res.__name__} on finite subgroup points")
            return
        # the digit string: binary expansion of the pinned loop parameter; optimized bn128 walks a signed-digit (NAF) string,
        # taken from the module and validated against T by the closed fact pairing.loop-constants
        if info["opt"] and info["bn"]:
            enc = it.module_value(it.prog.load(modname), "pseudo_binary_encoding")
            digits = list(reversed(enc))
            path.prove(f"{q}/digits.value", sum(e * 2 ** i for i, e in enumerate(enc)) == info["T"] and digits[0] == 1,
                       detail="signed digits sum to 6u+2, top digit 1")
        else:
            digits = binary_digits(info["T"])
        num, den, Rend = miller_spec(lines, digits, info["bn"], grp)
        f_spec_n, f_spec_d = num, den
        want_fe = (fe is None) or fe
        E = (info["p"] ** 12 - 1) // info["r"]
        if want_fe:
            ok = len([1 for (b_, e_, v_) in pows if e_ == E]) == 1
            path.prove(f"{q}/ensures.final-exponent", ok, detail="exactly one exponentiation by (p^12 - 1) / r")
            fin = [(b_, v_) for (b_, e_, v_) in pows if e_ == E]
            if not fin:
                return
            base, val = fin[0]
            path.prove(f"{q}/ensures.miller-spec", eqz(base * f_spec_d, f_spec_n), detail="the value exponentiated is MillerSpec_T(Q, P)")
            path.prove(f"{q}/ensures.result", isinstance(res, Fld) and eqz(res, val), detail="result = MillerSpec_T(Q, P) ^ ((p^12-1)/r)")
        else:
            path.prove(f"{q}/ensures.miller-spec", isinstance(res, Fld) and eqz(res * f_spec_d, f_spec_n),
                       detail="final_exponentiate=False: result = MillerSpec_T(Q, P) exactly")
        other = [(b_, e_) for (b_, e_, v_) in pows if e_ != E]
        path.prove(f"{q}/ensures.no-other-power", not other, detail="no other large exponentiation of field elements")
    ctx.ex.run(body, q)

    def body_inf(path):
        grp = GroupCtx("E12", info["style"])
        P = grp.atom("P")
        it = mk_interp(ctx, q, globals_={(modname, "FQ12"): KF})
        for args in ([None, P], [P, None]):
            a = args + ([True] if info["opt"] else [])
            kind, res = call_top(it, fv, a)
            path.prove(f"{q}/ensures.none-gives-one", kind == "ret" and isinstance(res, Fld) and bool(path.pc.prove_zero((res - KF(1)).r.n)),
                       detail="miller_loop(None, .) = miller_loop(., None) = 1")
    ctx.ex.run(body_inf, q)
    ctx.assume("A-PAIRING: MillerSpec_T(Q,P)^((p^12-1)/r) is bilinear and non-degenerate on G2 x G1 and independent of the addition chain "
               "(Miller 2004, Vercauteren 2010): assumed; bounded monitor pairing.bilinearity")
    ctx.trust("line symbols: the optimized linefunc's num/den and the reference linefunc's value are the same affine line function (C13 / contracts.curves)")


for _m in MODS:
    _s = _m.split(".")[1]
    UNITS[f"{_s}.miller_loop"] = Unit(f"{_s}.miller_loop", u_miller, [f"{_m}.miller_loop"], props=("C05", "C12"), args=(_m,), budget_s=400)


# ------------------------------------------------------------------------------------------
# pairing(): gates (off-curve refused, infinity gives the unit)
# ------------------------------------------------------------------------------------------
class APoint:
    """an arbitrary candidate argument of pairing(): ghost booleans `valid` (on its curve or infinity) and `inf`"""

    def __init__(self, name, style):
        self.name, self.style = name, style
        self.valid, self.inf = z3.Bool(f"valid_{name}"), z3.Bool(f"inf_{name}")

    def sym_getitem(self, interp, idx):
        if self.style == "proj" and idx in (-1, 2):
            return ZCoordOf(self)
        raise Unsupported("coordinate access on an abstract pairing argument")


class ZCoordOf:
    def __init__(self, pt):
        self.pt = pt

    def sym_getattr(self, interp, name):
        from pyvc.interp import Builtin
        if name == "zero":
            return Builtin("zero", lambda i: "ZERO")
        raise Unsupported(f"attribute {name} of an abstract z coordinate")

    def __eq__(self, o):
        if o == "ZERO":
            return ZAtom(self.pt.inf)
        raise Unsupported("comparison of an abstract z coordinate")

    __hash__ = None


class OnCurveC:
    """is_on_curve(pt, b) (L2 contract): res <=> valid(pt); infinity is valid"""

    def apply(self, interp, fv, env):
        pt = list(env.values())[0]
        if pt is None:
            return True
        return ZAtom(pt.valid)


class PassThrough:
    def apply(self, interp, fv, env):
        return list(env.values())[0]


class MillerC:
    """miller_loop at a call site (units *.miller_loop): 1 when an argument is None, else the Miller value of the two points"""

    def __init__(self):
        self.calls = []

    def apply(self, interp, fv, env):
        vals = list(env.values())
        self.calls.append(vals)
        if vals[0] is None or vals[1] is None:
            return "ONE"
        return ("MILLER", vals[0], vals[1], vals[2] if len(vals) > 2 else True)


def u_pairing_gates(ctx, modname):
    info = MODS[modname]
    q = f"{modname}.pairing"
    fv = get_function(ctx.prog, q)
    cv = info["curve"]

    def body(path):
        style = info["style"]
        args = []
        pts = []
        for nm in ("Q", "P"):
            if style == "none" and path.choose(2, f"{nm} infinity?") == 0:
                path.sig[-1] = f"{nm}=None"
                args.append(None)
                pts.append(None)
            else:
                if style == "none":
                    path.sig[-1] = f"{nm}=finite"
                a = APoint(nm, style)
                if style == "none":
                    path.assume(ZAtom(z3.Not(a.inf)), "a tuple is a finite point")
                else:
                    path.assume(ZAtom(z3.Implies(a.inf, a.valid)), "a representative with z = 0 is infinity, which is on the curve")
                args.append(a)
                pts.append(a)
        mc = MillerC()
        cons = {f"{cv}.is_on_curve": OnCurveC(), f"{cv}.twist": PassThrough(), f"{modname}.cast_point_to_fq12": PassThrough(),
                f"{modname}.miller_loop": mc}
        it = mk_interp(ctx, q, contracts=cons, globals_={(modname, "FQ12"): _OneClass()})
        fe = None
        call_args = list(args)
        if info["opt"]:
            k = path.choose(2, "final_exponentiate")
            fe = bool(k == 0)
            path.sig[-1] = f"final_exponentiate={fe}"
            call_args.append(fe)
        kind, res = call_top(it, fv, call_args)
        invalid = z3.Or([z3.Not(a.valid) for a in pts if a is not None] + [z3.BoolVal(False)])
        if kind == "raise":
            path.prove(f"{q}/raises.iff", ZAtom(invalid), detail=f"raised {res.__name__}: only for an argument that is not on its curve")
            return
        path.prove(f"{q}/raises.iff", ZAtom(z3.Not(invalid)), detail="returned a value: both arguments are on their curves (or infinity)")
        anyinf = z3.Or([a.inf if a is not None else z3.BoolVal(True) for a in pts])
        if res == "ONE":
            path.prove(f"{q}/ensures.unit-on-infinity", ZAtom(anyinf), detail="returned the unit without a Miller loop: some argument is infinity")
        else:
            ok = isinstance(res, tuple) and res[0] == "MILLER" and res[1] is pts[0] and res[2] is pts[1] and \
                (res[3] is fe if info["opt"] else True)
            path.prove(f"{q}/ensures.miller", ok, detail="result = miller_loop(twist(Q), cast(P), final_exponentiate) on the given points")
            path.prove(f"{q}/ensures.unit-on-infinity", ZAtom(z3.Not(anyinf)), detail="the Miller loop is only run on finite points")
    ctx.ex.run(body, q)


class _OneClass:
    def sym_getattr(self, interp, name):
        from pyvc.interp import Builtin
        if name == "one":
            return Builtin("one", lambda i: "ONE")
        raise Unsupported(f"FQ12.{name} in pairing()")


for _m in MODS:
    _s = _m.split(".")[1]
    UNITS[f"{_s}.pairing"] = Unit(f"{_s}.pairing", u_pairing_gates, [f"{_m}.pairing"], props=("C05", "C04", "C12"), args=(_m,))


# ------------------------------------------------------------------------------------------
# final_exponentiate and exp_by_p  (C12)
# ------------------------------------------------------------------------------------------
class PowVal:
    """x^e for one fixed abstract element x of the degree-12 field, with an exact integer exponent"""

    def __init__(self, e, zero=False):
        self.e, self.zero = e, zero

    def __mul__(self, o):
        if isinstance(o, PowVal):
            return PowVal(self.e + o.e, self.zero or o.zero)
        return NotImplemented

    def __truediv__(self, o):
        if isinstance(o, PowVal):
            if o.zero:
                return PowVal(0, True)          # x / 0 = 0 (inv0 convention)
            return PowVal(self.e - o.e, self.zero)
        return NotImplemented

    def __pow__(self, k):
        if isinstance(k, int) and k >= 0:
            return PowVal(self.e * k, self.zero and k > 0)
        return NotImplemented


class ExpByP:
    """exp_by_p(x) = x^p (unit optimized_bls12_381.exp_by_p + L-FROB)"""

    def __init__(self, p):
        self.p = p

    def apply(self, interp, fv, env):
        x = list(env.values())[0]
        if not isinstance(x, PowVal):
            raise Unsupported("exp_by_p on a non-power value")
        return PowVal(x.e * self.p, x.zero)


def u_final_exp(ctx, modname):
    info = MODS[modname]
    q = f"{modname}.final_exponentiate"
    fv = get_function(ctx.prog, q)
    E = (info["p"] ** 12 - 1) // info["r"]

    def body(path):
        it = mk_interp(ctx, q, contracts={f"{modname}.exp_by_p": ExpByP(info["p"])})
        zero = path.choose(2, "x") == 1
        path.sig[-1] = "x = 0" if zero else "x != 0"
        x = PowVal(1, zero)
        kind, res = call_top(it, fv, [x])
        if kind == "raise":
            path.prove(f"{q}/raises.never", False, detail=res.__name__)
            return
        ok = isinstance(res, PowVal)
        path.prove(f"{q}/ensures.shape", ok)
        if not ok:
            return
        if zero:
            path.prove(f"{q}/ensures.pow", res.zero, detail="final_exponentiate(0) = 0 = 0^((p^12-1)/r)")
        else:
            path.prove(f"{q}/ensures.pow", (not res.zero) and res.e == E,
                       detail=f"exponent computed by the code = (p^12 - 1)/r exactly (got a {res.e.bit_length()}-bit exponent)")
    ctx.ex.run(body, q)
    ctx.trust("L-POW: x^a x^b = x^(a+b), (x^a)^b = x^(ab), x^a / x^b = x^(a-b) for x != 0 (Lean Pow.lean)")


def u_exp_by_p(ctx):
    modname = "py_ecc.optimized_bls12_381.optimized_pairing"
    q = f"{modname}.exp_by_p"
    fv = get_function(ctx.prog, q)

    def body(path):
        tab = [fsym(f"T{i}", KF) for i in range(12)]
        from pyvc.core import PToken
        pt = PToken("p")
        Kc = FldKind("ZmodP", modulus=pt)           # coefficients are plain ints in [0, p): truthiness = non-zero
        pt.kind = Kc
        cs = [Fld(PR(Poly.var(f"c{i}")), Kc, reduced=True) for i in range(12)]

        class X:
            pass
        from pyvc.interp import Obj, ClassVal
        from pyvc.pymodel import _FakeClassNode
        it = mk_interp(ctx, q, globals_={(modname, "exptable"): tab, (modname, "FQ12"): KF})
        xcls = ClassVal("AbsFQ12", it.prog.load(modname), _FakeClassNode("AbsFQ12"), [], {})
        x = Obj(xcls)
        x.attrs["coeffs"] = tuple(cs)
        kind, res = call_top(it, fv, [x])
        if kind == "raise":
            path.prove(f"{q}/raises.never", False, detail=res.__name__)
            return
        want = KF(0)
        for c, t in zip(cs, tab):
            want = want + t * c
        path.prove(f"{q}/ensures.linear", isinstance(res, Fld) and eqz(res, want), detail="exp_by_p(x) = sum_i coeff_i * exptable[i]")
    ctx.ex.run(body, q)
    from contracts.closed import eval_facts, lean_cite
    eval_facts(ctx, ["pairing.exptable"])
    lean_cite(ctx, [("Fields.lean", "frob_add", "(a+b)^p = a^p + b^p in characteristic p"), ("Fields.lean", "frob_fix", "c^p = c for c in the prime field")])
    ctx.note("x^p = (sum c_i w^i)^p = sum c_i (w^i)^p by L-FROB; exptable[i] = (w^i)^p by its defining expression (closed fact)")


for _m in MODS:
    _s = _m.split(".")[1]
    UNITS[f"{_s}.final_exponentiate"] = Unit(f"{_s}.final_exponentiate", u_final_exp, [f"{_m}.final_exponentiate"],
                                             props=("C12", "C05"), args=(_m,))
UNITS["optimized_bls12_381.exp_by_p"] = Unit("optimized_bls12_381.exp_by_p", u_exp_by_p,
                                             ["py_ecc.optimized_bls12_381.optimized_pairing.exp_by_p"], props=("C12",))


def u_pairing_closed(ctx):
    from contracts.closed import eval_facts, run_monitor, lean_cite
    eval_facts(ctx, ["pairing.loop-constants", "pairing.order-r.optimized_bls12_381", "pairing.order-r.optimized_bn128",
                     "pairing.final-exponent-split"] + (["pairing.order-r.bls12_381", "pairing.order-r.bn128"] if ctx.tier == "thorough" else []))
    run_monitor(ctx, "pairing_bilinearity", "bilinearity, additivity, negation, optimized = reference, product of Miller values",
                "py_ecc.optimized_bls12_381.optimized_pairing.pairing")
    lean_cite(ctx, [("Pow.lean", "final_exp_prod", "final_exponentiate(prod f_i) = prod final_exponentiate(f_i)"),
                    ("Pow.lean", "pow_pow_exp", "(x^a)^b = x^(ab)"), ("Pow.lean", "pow_sub_exp", "x^a / x^b = x^(a-b)")])


UNITS["pairing.closed"] = Unit("pairing.closed", u_pairing_closed, [], kind="closed", props=("C05", "C12"), budget_s=900)


# ------------------------------------------------------------------------------------------
# cast_point_to_fq12: the componentwise embedding F_p -> F_p12 (all four modules)
# ------------------------------------------------------------------------------------------
def u_cast(ctx, modname):
    from pyvc.interp import Obj, ClassVal
    from pyvc.pymodel import _FakeClassNode
    from pyvc.core import PToken
    info = MODS[modname]
    q = f"{modname}.cast_point_to_fq12"
    fv = get_function(ctx.prog, q)

    def body(path):
        it = mk_interp(ctx, q)
        mod = it.prog.load(modname)
        FQ12c = it.module_value(mod, "FQ12")
        FQc = it.module_value(mod, "FQ")
        p = info["p"]
        K = FldKind("ZmodP", modulus=p)
        n = 3 if info["opt"] else 2
        cs = [Fld(PR(Poly.var(f"c{i}")), K, reduced=True) for i in range(n)]
        pt = []
        for c in cs:
            o = Obj(FQc)
            o.attrs["n"] = c
            pt.append(o)
        kind, res = call_top(it, fv, [tuple(pt)])
        if kind == "raise":
            path.prove(f"{q}/raises.none", False, detail=res.__name__)
            return
        ok = isinstance(res, tuple) and len(res) == n and all(isinstance(r_, Obj) and r_.cls.is_subclass(FQ12c) for r_ in res)
        path.prove(f"{q}/ensures.shape", ok)
        if not ok:
            return
        from contracts.fields import coeff_abs
        for c, r_ in zip(cs, res):
            co = [coeff_abs(v, K) for v in r_.attrs["coeffs"]]
            path.prove(f"{q}/ensures.embedding", bool(path.pc.prove_zero((co[0] - c).r.n)) and
                       all(path.pc.prove_zero(v.r.n) for v in co[1:]), detail="coordinate c maps to c + 0 w + ... + 0 w^11")
        kind2, res2 = call_top(mk_interp(ctx, q), fv, [None])
        path.prove(f"{q}/ensures.none", kind2 == "ret" and res2 is None, detail="None (infinity) maps to None")
    ctx.ex.run(body, q)


for _m in MODS:
    _s = _m.split(".")[1]
    UNITS[f"{_s}.cast_point_to_fq12"] = Unit(f"{_s}.cast_point_to_fq12", u_cast, [f"{_m}.cast_point_to_fq12"], props=("C05", "C12"), args=(_m,))
