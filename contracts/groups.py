"""Group-level contracts (DESIGN §4 L2 'group-level contracts'): multiply in the four curve
modules, secp256k1 jacobian_multiply / multiply / add / privtopub, subgroup_check and cofactor
clearing.  The functions are executed against the L2 *contracts* of add / double / neg / eq /
is_inf (proved in contracts.curves), never their bodies."""
from __future__ import annotations

import z3

from pyvc.core import ZAtom, Unsupported, cur
from pyvc.group import GroupCtx, GPt, abs_of, prove_same
from pyvc.interp import PyRaise
from pyvc.sym import SInt, SBytes, zt, implied, os2ip_sym
from pyvc.unit import Unit
from contracts.curves import get_function, mk_interp, call_top, SECP

UNITS = {}

R_BLS = 52435875175126190479447740508185965837690552500527637822603658699938581184513
R_BN = 21888242871839275222246405745257275088548364400416034343698204186575808495617
SECP_N = 115792089237316195423570985008687907852837564279074904382605163141518161494337


class GOp:
    """call-site contract of a coordinate-level curve function, at group level"""

    def __init__(self, grp, op, top):
        self.grp, self.op, self.top = grp, op, top
        self.calls = 0

    def apply(self, interp, fv, env):
        self.calls += 1
        g = self.grp
        vals = list(env.values())
        if self.op == "add":
            return abs_of(g, vals[0]).add(abs_of(g, vals[1]))
        if self.op == "double":
            return abs_of(g, vals[0]).smul(2)
        if self.op == "neg":
            return abs_of(g, vals[0]).neg()
        if self.op == "eq":
            return abs_of(g, vals[0]).equals(abs_of(g, vals[1]))
        if self.op == "is_inf":
            return abs_of(g, vals[0]).is_O()
        if self.op == "id":          # to_jacobian / from_jacobian / normalize-free conversions
            return abs_of(g, vals[0])
        raise Unsupported(self.op)


class RecMultiply:
    """the function's own contract at a recursive call (induction on the measure)"""

    def __init__(self, grp, top, n0, measure, modulus=None, halving=True):
        self.grp, self.top, self.n0, self.measure, self.modulus = grp, top, n0, measure, modulus
        self.halving = halving
        self.calls = 0

    def apply(self, interp, fv, env):
        path = cur()
        self.calls += 1
        vals = list(env.values())
        pt, n = abs_of(self.grp, vals[0]), vals[1]
        nt = zt(n)
        if self.modulus is None:
            path.prove(f"{self.top}/rec/requires.n>=0", ZAtom(nt >= 0), kind="requires",
                       detail="recursive call within the function's domain")
        m_new, m_old = self.measure(nt), self.measure(zt(self.n0))
        path.prove(f"{self.top}/rec/decreases", ZAtom(z3.And(m_new >= 0, m_new < m_old)), kind="decreases",
                   detail=f"measure {z3.simplify(m_new)} < {z3.simplify(m_old)}")
        if self.halving:
            # depth: the in-range recursion at least halves n, so depth <= bit_length(n) (+1 for the
            # one range-reduction step of jacobian_multiply); Python-to-Python recursion only
            inr = z3.BoolVal(True) if self.modulus is None else z3.And(zt(self.n0) >= 0, zt(self.n0) < self.modulus)
            path.prove(f"{self.top}/rec/depth", ZAtom(z3.Implies(inr, 2 * nt <= zt(self.n0))), kind="depth",
                       detail="argument at least halves: recursion depth <= bit_length(n)")
            if self.modulus is not None:
                # an out-of-range scalar is brought into [0, N) by ONE recursive call (n % N), whatever its size: a step that
                # only decreases it (n - N) terminates too, but after n/N frames — beyond any recursion limit for wide scalars
                path.prove(f"{self.top}/rec/depth", ZAtom(z3.Implies(z3.Not(inr), z3.And(nt >= 0, nt < self.modulus))), kind="depth",
                           detail="range reduction: an out-of-range scalar lands in [0, N) in one step (depth <= bit_length(N) + 1)")
        k = nt if self.modulus is None else nt % self.modulus
        return pt.smul(SInt(k))


# ------------------------------------------------------------------------------------------
# multiply in the four pairing-curve modules
# ------------------------------------------------------------------------------------------
CURVE_MODULES = {
    "py_ecc.optimized_bls12_381.optimized_curve": "proj",
    "py_ecc.optimized_bn128.optimized_curve": "proj",
    "py_ecc.bls12_381.bls12_381_curve": "none",
    "py_ecc.bn128.bn128_curve": "none",
}


def group_contracts(grp, modname, top, names=("add", "double", "neg", "eq", "is_inf")):
    return {f"{modname}.{n}": GOp(grp, n, top) for n in names}


def u_multiply(ctx, modname, style):
    q = f"{modname}.multiply"
    fv = get_function(ctx.prog, q)

    def body(path):
        grp = GroupCtx("E", style)
        P = grp.atom("P")
        n = SInt(z3.Int("n"))
        path.assume(n >= 0, "requires n >= 0")
        cons = group_contracts(grp, modname, q)
        cons[q] = RecMultiply(grp, q, n, lambda t: t)
        it = mk_interp(ctx, q, contracts=cons)
        kind, res = call_top(it, fv, [P, n])
        if kind == "raise":
            path.prove(f"{q}/raises.none", False, detail=f"raised {res.__name__}")
            return
        prove_same(path, f"{q}/ensures.abs", abs_of(grp, res), P.smul(n), detail="abs(res) = n . abs(pt)")
    ctx.ex.run(body, q)
    ctx.trust("L-GROUP: (+) is an abelian group and n.P a Z-action (Lean: lean/GroupLaw.lean specAdd_assoc/comm, "
              "lean/Cyclic.lean smul_*); used to compare points in module normal form")
    ctx.note("domain: n < 2**100000 (recursion depth = bit_length(n) <= sys.getrecursionlimit() set by py_ecc/__init__.py)")


for _m, _st in CURVE_MODULES.items():
    _s = _m.split(".")[1]
    UNITS[f"{_s}.multiply"] = Unit(f"{_s}.multiply", u_multiply, [f"{_m}.multiply"], props=("C07",), args=(_m, _st))


# ------------------------------------------------------------------------------------------
# secp256k1 group level
# ------------------------------------------------------------------------------------------
def _secp_measure(t):
    N = SECP_N
    return z3.If(z3.And(t >= 0, t < N), t, N + z3.If(t >= 0, t, -t))


def u_secp_jmultiply(ctx):
    q = f"{SECP}.jacobian_multiply"
    fv = get_function(ctx.prog, q)

    def body(path):
        grp = GroupCtx("secp", "jac")
        P = grp.atom("P")
        n = SInt(z3.Int("n"))          # every integer
        cons = {f"{SECP}.jacobian_double": GOp(grp, "double", q), f"{SECP}.jacobian_add": GOp(grp, "add", q),
                q: RecMultiply(grp, q, n, _secp_measure, modulus=SECP_N)}
        it = mk_interp(ctx, q, contracts=cons)
        kind, res = call_top(it, fv, [P, n])
        if kind == "raise":
            path.prove(f"{q}/raises.none", False, detail=f"raised {res.__name__} (the final raise must be unreachable)")
            return
        prove_same(path, f"{q}/ensures.abs", abs_of(grp, res), P.smul(SInt(zt(n) % SECP_N)),
                   detail="abs(res) = (n mod N) . abs(a)")
    ctx.ex.run(body, q)
    ctx.trust("L-GROUP (Lean) for the module normal form")


class SecpJMul:
    """jacobian_multiply's contract at a call site"""

    def __init__(self, grp, top):
        self.grp, self.top = grp, top

    def apply(self, interp, fv, env):
        vals = list(env.values())
        return abs_of(self.grp, vals[0]).smul(SInt(zt(vals[1]) % SECP_N))


def _secp_top_contracts(grp, top):
    return {f"{SECP}.to_jacobian": GOp(grp, "id", top), f"{SECP}.from_jacobian": GOp(grp, "id", top),
            f"{SECP}.jacobian_add": GOp(grp, "add", top), f"{SECP}.jacobian_double": GOp(grp, "double", top),
            f"{SECP}.jacobian_multiply": SecpJMul(grp, top)}


def u_secp_multiply(ctx):
    q = f"{SECP}.multiply"
    fv = get_function(ctx.prog, q)

    def body(path):
        grp = GroupCtx("secp", "aff00")
        P = grp.atom("P")
        n = SInt(z3.Int("n"))
        it = mk_interp(ctx, q, contracts=_secp_top_contracts(grp, q))
        kind, res = call_top(it, fv, [P, n])
        if kind == "raise":
            path.prove(f"{q}/raises.none", False, detail=f"raised {res.__name__}")
            return
        prove_same(path, f"{q}/ensures.abs", abs_of(grp, res), P.smul(SInt(zt(n) % SECP_N)),
                   detail="multiply(P, n) = (n mod N) . P")
    ctx.ex.run(body, q)


def u_secp_add(ctx):
    q = f"{SECP}.add"
    fv = get_function(ctx.prog, q)

    def body(path):
        grp = GroupCtx("secp", "aff00")
        P, Q = grp.atom("P"), grp.atom("Q")
        it = mk_interp(ctx, q, contracts=_secp_top_contracts(grp, q))
        kind, res = call_top(it, fv, [P, Q])
        if kind == "raise":
            path.prove(f"{q}/raises.none", False, detail=f"raised {res.__name__}")
            return
        prove_same(path, f"{q}/ensures.abs", abs_of(grp, res), P.add(Q), detail="add(a, b) = a (+) b")
    ctx.ex.run(body, q)


class BytesToIntContract:
    """bytes_to_int(x) = os2ip(x)  (proved in contracts.ints: unit secp.bytes_to_int)"""

    def apply(self, interp, fv, env):
        x = list(env.values())[0]
        return os2ip_sym(x) if isinstance(x, SBytes) else int.from_bytes(x, "big")


def u_secp_privtopub(ctx):
    q = f"{SECP}.privtopub"
    fv = get_function(ctx.prog, q)

    def body(path):
        grp = GroupCtx("secp", "aff00")
        G = grp.atom("G")
        priv = SBytes.var("priv")
        cons = _secp_top_contracts(grp, q)
        cons[f"{SECP}.bytes_to_int"] = BytesToIntContract()
        # privtopub calls the module's own multiply: put it under its contract as well
        cons[f"{SECP}.multiply"] = SecpJMul(grp, q)
        it = mk_interp(ctx, q, contracts=cons, globals_={(SECP, "G"): G})
        kind, res = call_top(it, fv, [priv])
        if kind == "raise":
            path.prove(f"{q}/raises.none", False, detail=f"raised {res.__name__}")
            return
        d = os2ip_sym(priv)
        prove_same(path, f"{q}/ensures.abs", abs_of(grp, res), G.smul(SInt(zt(d) % SECP_N)),
                   detail="privtopub(d) = (os2ip(d) mod N) . G")
    ctx.ex.run(body, q)


UNITS["secp.jacobian_multiply"] = Unit("secp.jacobian_multiply", u_secp_jmultiply, [f"{SECP}.jacobian_multiply"],
                                       props=("C18", "C19", "C06"))
UNITS["secp.multiply"] = Unit("secp.multiply", u_secp_multiply, [f"{SECP}.multiply"], props=("C18", "C06"))
UNITS["secp.add"] = Unit("secp.add", u_secp_add, [f"{SECP}.add"], props=("C18",))
UNITS["secp.privtopub"] = Unit("secp.privtopub", u_secp_privtopub, [f"{SECP}.privtopub"], props=("C18", "C06"))


# ------------------------------------------------------------------------------------------
# subgroup_check and cofactor clearing (C17)
# ------------------------------------------------------------------------------------------
OPT_BLS = "py_ecc.optimized_bls12_381.optimized_curve"


class MulContract:
    """optimized multiply at a call site: requires n >= 0; ensures abs(res) = n . abs(pt)"""

    def __init__(self, grp, top):
        self.grp, self.top = grp, top
        self.seen = []

    def apply(self, interp, fv, env):
        path = cur()
        vals = list(env.values())
        n = vals[1]
        self.seen.append(n)
        path.prove(f"{self.top}/call[multiply]/requires.n>=0", (n >= 0) if isinstance(n, int) else ZAtom(zt(n) >= 0),
                   kind="requires")
        return abs_of(self.grp, vals[0]).smul(n)


def u_subgroup_check(ctx):
    q = "py_ecc.bls.g2_primitives.subgroup_check"
    fv = get_function(ctx.prog, q)

    def body(path):
        # the argument is a point of E(F_p) (coordinates FQ) or of E'(F_p2) (coordinates FQ2)
        which = path.choose(2, "group")
        path.sig[-1] = "P in " + ("E(Fp)" if which == 0 else "E'(Fp2)")
        it0 = mk_interp(ctx, q)
        fmod = it0.prog.load("py_ecc.fields")
        ccls = it0.module_value(fmod, "optimized_bls12_381_FQ" if which == 0 else "optimized_bls12_381_FQ2")
        grp = GroupCtx("E", "proj", coord_cls=ccls)
        P = grp.atom("P")
        mc = MulContract(grp, q)
        # every coordinate-level function of the curve module under its group-level contract (proved by the C13/C07 units):
        # an equivalent formulation such as (r-1).P + P must reach the same normal form r.P
        cons = group_contracts(grp, OPT_BLS, q)
        cons[f"{OPT_BLS}.multiply"] = mc
        it = mk_interp(ctx, q, contracts=cons)
        kind, res = call_top(it, fv, [P])
        if kind == "raise":
            path.prove(f"{q}/raises.none", False, detail=f"raised {res.__name__}")
            return
        want = P.smul(R_BLS).is_O()
        if isinstance(res, bool):
            path.prove(f"{q}/ensures.iff", False, detail=f"subgroup_check returned the constant {res}")
            return
        path.prove(f"{q}/ensures.iff", ZAtom(res.t == want.t), detail="res <=> r . abs(P) = O  (r pinned literal)")
    ctx.ex.run(body, q)
    ctx.trust("the literal r = 0x73eda753...00000001 pinned in the contract is the BLS12-381 group order "
              "(derivation r = x^4 - x^2 + 1 checked by eval in unit bls.constants)")


def u_clear_cofactor(ctx, which):
    mod = "py_ecc.optimized_bls12_381.optimized_clear_cofactor"
    q = f"{mod}.multiply_clear_cofactor_{which}"
    fv = get_function(ctx.prog, q)
    X = -0xd201000000010000
    h_eff = {"G1": 1 - X,
             "G2": 0xbc69f08f2ee75b3584c6a0ea91b352888e2a8e9145ad7689986ff031508ffe1329c2f178731db956d82bf015d1212b02ec0ec69d7477c1ae954cbc06689f6a359894c0adebbf6b4e8020005aaa95551}[which]

    def body(path):
        grp = GroupCtx("E", "proj")
        P = grp.atom("P")
        cons = group_contracts(grp, OPT_BLS, q)
        cons[f"{OPT_BLS}.multiply"] = MulContract(grp, q)
        it = mk_interp(ctx, q, contracts=cons)
        kind, res = call_top(it, fv, [P])
        if kind == "raise":
            path.prove(f"{q}/raises.none", False, detail=f"raised {res.__name__}")
            return
        prove_same(path, f"{q}/ensures.abs", abs_of(grp, res), P.smul(h_eff),
                   detail=f"clear_cofactor_{which}(p) = h_eff . p with the RFC 9380 effective cofactor (pinned)")
    ctx.ex.run(body, q)


UNITS["bls.subgroup_check"] = Unit("bls.subgroup_check", u_subgroup_check, ["py_ecc.bls.g2_primitives.subgroup_check"],
                                   props=("C17", "C04"))
for _w in ("G1", "G2"):
    UNITS[f"bls.clear_cofactor_{_w}"] = Unit(
        f"bls.clear_cofactor_{_w}", u_clear_cofactor,
        [f"py_ecc.optimized_bls12_381.optimized_clear_cofactor.multiply_clear_cofactor_{_w}"],
        props=("C17", "C10"), args=(_w,))
