"""L4 codec contracts (DESIGN §4 L4): ZCash compressed encodings of G1 / G2 points — C11 (and the
decoders' contracts are used by C04, C02, C09).  Integer level, z3 (concrete BLS12-381 prime)."""
from __future__ import annotations

import z3

from pyvc.core import ZAtom, Unsupported, cur
from pyvc.interp import PyRaise, Obj
from pyvc.sym import SInt, SBytes, zt, bt, sdivmod, _os2ip, _i2osp
from pyvc.unit import Unit
from contracts.curves import get_function, mk_interp, call_top

UNITS = {}
PC = "py_ecc.bls.point_compression"
G2P = "py_ecc.bls.g2_primitives"
OPTC = "py_ecc.optimized_bls12_381.optimized_curve"
Q = 0x1a0111ea397fe69a4b1ba7b6434bacd764774b84f38512bf6730d2a0f6b0f6241eabfffeb153ffffb9feffffffffaaab
P381, P382, P383, P384 = 2 ** 381, 2 ** 382, 2 ** 383, 2 ** 384


# ---- spec: the ZCash format --------------------------------------------------------------------
def enc1(X, Y):
    """Enc1(x, y) = x + [y is the larger of {y, q-y}] * 2^381 + 2^383   (c = 1, b = 0, a = sign)"""
    a = z3.If(2 * Y >= Q, 1, 0)            # floor(2y/q) for 0 <= y < q
    return X + a * P381 + P383


ENC1_INF = P383 + P382


def sign2(y_re, y_im):
    """sign of an F_p2 element: larger imaginary part first, real part on ties (y_im = 0)"""
    return z3.If(y_im > 0, z3.If(2 * y_im >= Q, 1, 0), z3.If(2 * y_re >= Q, 1, 0))


def on_curve1(X, Y):
    k = z3.Int("oc.k")
    return (Y * Y - X * X * X - 4) % Q == 0


# ---- helpers -----------------------------------------------------------------------------------
def fq_n(o):
    if isinstance(o, Obj) and "n" in o.attrs:
        return o.attrs["n"]
    raise Unsupported("FQ object expected")


def mk_fq(it, cname, n):
    """an object of the real optimized field class with the given (symbolic) canonical value"""
    fm = it.prog.load("py_ecc.fields")
    cls = it.module_value(fm, cname)
    o = Obj(cls)
    o.attrs["n"] = n
    return o


class IsInfContract:
    """optimized_curve.is_inf at a call site (proved: unit optimized_bls12_381.is_inf): res <=> z = 0"""

    def apply(self, interp, fv, env):
        pt = list(env.values())[0]
        z = pt[-1]
        if isinstance(z, Obj) and "n" in z.attrs:
            n = z.attrs["n"]
            return (n == 0) if isinstance(n, int) else ZAtom(zt(n) == 0)
        if isinstance(z, Obj) and "coeffs" in z.attrs:
            cs = z.attrs["coeffs"]
            if all(isinstance(c, int) for c in cs):
                return all(c == 0 for c in cs)
            return ZAtom(z3.And([zt(c) == 0 for c in cs]))
        raise Unsupported("is_inf of a non-point")


class NormalizeG1Contract:
    """optimized_curve.normalize at a call site (proved: unit optimized_bls12_381.normalize): for a valid finite
    representative returns abs(pt) = (X, Y) as reduced field objects; here X, Y are the ghost affine coordinates"""

    def __init__(self, it, X, Y):
        self.it, self.X, self.Y = it, X, Y

    def apply(self, interp, fv, env):
        return (mk_fq(self.it, "optimized_bls12_381_FQ", self.X), mk_fq(self.it, "optimized_bls12_381_FQ", self.Y))


def u_flags(ctx):
    q1 = f"{PC}.get_flags"
    fv = get_function(ctx.prog, q1)

    def body(path):
        z = SInt(z3.Int("z"))
        path.assume(ZAtom(z3.And(zt(z) >= 0, zt(z) < P384)), "0 <= z < 2^384")
        kind, res = call_top(mk_interp(ctx, q1), fv, [z])
        if kind == "raise" or not (isinstance(res, tuple) and len(res) == 3):
            path.prove(f"{q1}/ensures.shape", False)
            return
        c, b, a = [zt(x) for x in res]
        x = z3.Int("xlow")
        path.prove(f"{q1}/ensures.layout", ZAtom(z3.Exists([x], z3.And(0 <= x, x < P381, zt(z) == c * P383 + b * P382 + a * P381 + x))),
                   detail="z = c*2^383 + b*2^382 + a*2^381 + x with 0 <= x < 2^381: flags are bits 383/382/381")
        for f in (c, b, a):
            path.prove(f"{q1}/ensures.bits", ZAtom(z3.Or(f == 0, f == 1)))
    ctx.ex.run(body, q1)
    q2 = f"{PC}.is_point_at_infinity"
    fv2 = get_function(ctx.prog, q2)

    def body2(path):
        z1 = SInt(z3.Int("z1"))
        path.assume(ZAtom(zt(z1) >= 0), "z1 >= 0")
        if path.choose(2, "z2") == 0:
            path.sig[-1] = "z2=None"
            kind, res = call_top(mk_interp(ctx, q2), fv2, [z1])
            want = zt(z1) % P381 == 0
        else:
            path.sig[-1] = "z2:int"
            z2 = SInt(z3.Int("z2"))
            kind, res = call_top(mk_interp(ctx, q2), fv2, [z1, z2])
            want = z3.And(zt(z1) % P381 == 0, zt(z2) == 0)
        if kind == "raise":
            path.prove(f"{q2}/raises.none", False)
            return
        got = res if isinstance(res, bool) else path.case(res, "result")
        path.prove(f"{q2}/ensures.iff", ZAtom(want if got else z3.Not(want)),
                   detail="true iff the low 381 bits of z1 are 0 and (G2) the whole second word is 0")
    ctx.ex.run(body2, q2)


def u_compress_g1(ctx):
    q = f"{PC}.compress_G1"
    fv = get_function(ctx.prog, q)

    def body(path):
        it = mk_interp(ctx, q)
        X, Y = SInt(z3.Int("X")), SInt(z3.Int("Y"))
        path.assume(ZAtom(z3.And(zt(X) >= 0, zt(X) < Q, zt(Y) >= 0, zt(Y) < Q)), "abs(pt) has reduced coordinates")
        zc = SInt(z3.Int("zc"))
        path.assume(ZAtom(z3.And(zt(zc) >= 0, zt(zc) < Q)), "z coordinate reduced")
        pt = tuple(mk_fq(it, "optimized_bls12_381_FQ", SInt(z3.Int(n))) for n in ("xc", "yc")) + \
            (mk_fq(it, "optimized_bls12_381_FQ", zc),)
        it.cfg.contracts[f"{OPTC}.is_inf"] = IsInfContract()
        it.cfg.contracts[f"{OPTC}.normalize"] = NormalizeG1Contract(it, X, Y)
        kind, res = call_top(it, fv, [pt])
        if kind == "raise":
            path.prove(f"{q}/raises.none", False, detail=res.__name__)
            return
        inf = zt(zc) == 0
        path.prove(f"{q}/ensures.Enc1", ZAtom(zt(res) == z3.If(inf, ENC1_INF, enc1(zt(X), zt(Y)))),
                   detail="compress_G1(pt) = Enc1(abs pt): 110..0 for infinity, else x | sign(y)<<381 | 1<<383")
        path.prove(f"{q}/ensures.range", ZAtom(z3.And(zt(res) >= P383, zt(res) < P384)), detail="384-bit word with c = 1")
    ctx.ex.run(body, q)


UNITS["codec.flags"] = Unit("codec.flags", u_flags, [f"{PC}.get_flags", f"{PC}.is_point_at_infinity"], props=("C11", "C04", "C02"))
UNITS["codec.compress_G1"] = Unit("codec.compress_G1", u_compress_g1, [f"{PC}.compress_G1"], props=("C11", "C09"))


_powq = z3.Function("pow_mod_q", z3.IntSort(), z3.IntSort(), z3.IntSort())


class PowContract:
    """builtins.pow(a, e, m) with a large constant exponent: *havocked* — some value in [0, m).  The
    decoder re-checks its candidate root a posteriori, so soundness/canonicity need nothing more; the
    completeness direction adds lemma L-SQRT34 explicitly."""

    def __init__(self):
        self.calls = []

    def apply(self, interp, fv, env):
        from pyvc.sym import spowmod
        a, e, m = env["a"], env["e"], env["m"]
        if isinstance(e, int) and e <= 3:
            return spowmod(a, e, m)
        path = cur()
        t = _powq(zt(a), zt(e))
        path.zc.append(z3.And(t >= 0, t < zt(m)))
        self.calls.append((a, e, m, t))
        return SInt(t)


def decode_g1_result(path, name, res):
    """(X, Y) of a returned triple (x, y, 1) of field objects; proves the shape"""
    ok = isinstance(res, tuple) and len(res) == 3 and all(isinstance(c, Obj) and "n" in c.attrs for c in res)
    path.prove(f"{name}/ensures.shape", ok, detail="result is a triple of FQ objects")
    if not ok:
        return None
    return [fq_n(c) for c in res]


def word_parts(z):
    """(c, b, a, x) of a word, through the SAME purified quotient/remainder witnesses the code's
    `(z >> k) & 1` and `z % 2^381` produce (cached per operand pair), so that everything stays linear"""
    c = sdivmod(sdivmod(z, P383)[0], 2)[1]
    b = sdivmod(sdivmod(z, P382)[0], 2)[1]
    a = sdivmod(sdivmod(z, P381)[0], 2)[1]
    x = sdivmod(z, P381)[1]
    return zt(c), zt(b), zt(a), zt(x)


def fresh_int(path, base):
    return z3.Int(f"{base}!{next(path.fresh_id)}")


def u_decompress_g1(ctx):
    q = f"{PC}.decompress_G1"
    fv = get_function(ctx.prog, q)

    def body(path):
        z = SInt(z3.Int("z"))
        path.assume(ZAtom(z3.And(zt(z) >= 0, zt(z) < P384)), "0 <= z < 2^384")
        pc = PowContract()
        it = mk_interp(ctx, q, contracts={"builtins.pow": pc})
        kind, res = call_top(it, fv, [z])
        c, b, a, x = word_parts(z)
        malformed = z3.Or(c == 0, z3.And(x == 0, z3.Or(b == 0, a == 1)), z3.And(x != 0, b == 1), z3.And(x != 0, x >= Q))
        # the a-posteriori residue test of the code:  (y*y) % q  vs  (x^3 + 4) % q, via its own witnesses
        yc = pc.calls[0][3] if pc.calls else None
        if kind == "raise":
            path.prove(f"{q}/raises.type", res is ValueError, detail=f"refusal must be ValueError, got {res.__name__}")
            residue_failed = z3.BoolVal(False)
            if yc is not None:
                xs = SInt(x)
                residue_failed = zt(sdivmod(SInt(yc) * SInt(yc), Q)[1]) != zt(sdivmod(xs * xs * xs + 4, Q)[1])
            path.prove(f"{q}/raises.only-if", ZAtom(z3.Or(malformed, residue_failed)),
                       detail="raises only for a malformed word or when the candidate y fails y^2 = x^3 + 4")
            return
        path.prove(f"{q}/raises.if-malformed", ZAtom(z3.Not(malformed)),
                   detail="returned a point: the word must not be malformed (c=0, wrong b, a on infinity, x >= q)")
        r = decode_g1_result(path, q, res)
        if r is None:
            return
        X, Y, Zc = [zt(v) for v in r]
        path.prove(f"{q}/ensures.valid", ZAtom(z3.And(X >= 0, X < Q, Y >= 0, Y < Q, Zc >= 0, Zc < Q)), detail="coordinates reduced")
        if yc is None:
            path.prove(f"{q}/ensures.valid", ZAtom(z3.And(x == 0, Zc == 0)), detail="infinity word decodes to a representative of O")
            path.prove(f"{q}/ensures.canonical", ZAtom(zt(z) == ENC1_INF), detail="accepted infinity word is exactly 110..0")
            return
        xs = SInt(x)
        # closed fact (eval: bls.no-y0-points): x^3 + 4 is never 0 mod q, so no accepted point has y = 0
        path.assume(ZAtom(zt(sdivmod(xs * xs * xs + 4, Q)[1]) != 0), "-4 is a non-cube mod q: x^3 + 4 != 0 (mod q)")
        k1 = zt(sdivmod(SInt(yc) * SInt(yc), Q)[0])
        k2 = zt(sdivmod(xs * xs * xs + 4, Q)[0])
        rhs = X * X * X + 4
        # on-curve with an explicit congruence witness: Y = y (k1 - k2) or Y = q - y (q - 2y + k1 - k2)
        path.prove(f"{q}/ensures.valid", ZAtom(Zc == 1), detail="z = 1")
        path.prove_any(f"{q}/ensures.valid", [
            ZAtom(z3.And(Y == yc, yc * yc - (x * x * x + 4) == Q * (k1 - k2), X == x)),
            ZAtom(z3.And(Y == Q - yc, (Q - yc) * (Q - yc) - (x * x * x + 4) == Q * (Q - 2 * yc + k1 - k2), X == x))],
            detail="affine point on y^2 = x^3 + 4 (mod q); explicit congruence witness for y or q - y")
        path.prove(f"{q}/ensures.canonical", ZAtom(zt(z) == enc1(X, Y)),
                   detail="accepted word re-encodes to itself: Enc1(abs res) = z")
    ctx.ex.run(body, q)


def u_roundtrip_g1(ctx):
    """completeness: decompress_G1(Enc1(P)) = P for every valid point P.  Uses L-SQRT34 (Lean Fields.lean
    sqrt34_of_isSquare) and sq_eq_sq_cases, instantiated at the candidate root; closed facts q = 3 mod 4, q odd,
    no point with y = 0.  KNOWN FINDING D2: refuted at x = 0 (the decoder takes x = 0 for infinity);
    proved under the exclusion x != 0, the excluded region is re-executed concretely."""
    q = f"{PC}.decompress_G1"
    name = f"{q}[roundtrip]"
    fv = get_function(ctx.prog, q)

    def body(path):
        X, Y = SInt(z3.Int("X")), SInt(z3.Int("Y"))
        finite = path.choose(2, "point") == 1
        path.sig[-1] = "finite" if finite else "infinity"
        if not finite:
            it = mk_interp(ctx, q, contracts={"builtins.pow": PowContract()})
            kind, res = call_top(it, fv, [ENC1_INF])
            ok = kind == "ret" and isinstance(res, tuple) and len(res) == 3 and fq_n(res[2]) == 0
            path.prove(f"{name}/ensures.infinity", ok, detail="Enc1(O) decodes to a representative of O")
            return
        path.assume(ZAtom(z3.And(zt(X) >= 0, zt(X) < Q, zt(Y) >= 0, zt(Y) < Q)), "reduced")
        kk = fresh_int(path, "kk")
        path.assume(ZAtom(zt(Y) * zt(Y) - (zt(X) * zt(X) * zt(X) + 4) == Q * kk), "on curve: Y^2 - (X^3 + 4) = q*kk")
        path.assume(ZAtom(zt(Y) != 0), "no curve point has y = 0 (closed fact: -4 is a non-cube mod q)")
        path.assume(ZAtom(zt(X) != 0), "known finding D2 excluded: x != 0")
        z = SInt(z3.simplify(enc1(zt(X), zt(Y))))

        class PowWithLemma(PowContract):
            def apply(self2, interp, fv_, env):
                r = PowContract.apply(self2, interp, fv_, env)
                if isinstance(env["e"], int) and env["e"] > 3:
                    p_ = cur()
                    k2 = fresh_int(p_, "ks")
                    # L-SQRT34 + sq_eq_sq_cases at c = a^((q+1)/4), a = X^3 + 4 mod q a square with root Y:
                    #   c^2 = a (mod q)   and   c in {Y, q - Y}
                    p_.zc.append(z3.And(r.t * r.t - zt(env["a"]) == Q * k2, z3.Or(r.t == zt(Y), r.t == Q - zt(Y))))
                return r
        it = mk_interp(ctx, q, contracts={"builtins.pow": PowWithLemma()})
        kind, res = call_top(it, fv, [z])
        if kind == "raise":
            path.prove(f"{name}/ensures.accepts", ZAtom(z3.BoolVal(False)),
                       detail=f"Enc1 of a valid point must not be refused: this {res.__name__} path must be infeasible")
            return
        path.prove(f"{name}/ensures.accepts", True, detail="Enc1 of a valid point is accepted")
        r = decode_g1_result(path, name, res)
        if r is None:
            return
        path.prove(f"{name}/ensures.same-point", ZAtom(z3.And(zt(r[0]) == zt(X), zt(r[1]) == zt(Y), zt(r[2]) == 1)),
                   detail="decompress_G1(compress_G1(P)) = P")
    ctx.ex.run(body, name)
    # the excluded region, concretely on the real code
    from pyvc.report import harness
    import json
    ans = harness(["monitor", "--seed", str(ctx.seed)], stdin=json.dumps(dict(name="known_D2")))
    if ans.get("reproduced"):
        ctx.extra.setdefault("known_findings", []).append(dict(
            id="D2", reproduced=True,
            what="decompress_G1(compress_G1((0, 2, 1))) raises ValueError('b_flag should be 1'): the order-3 points (0, +-2) of E(F_p) do not round-trip"))
    elif "error" in ans:
        raise RuntimeError(f"known-finding monitor failed: {ans['error']}")
    ctx.assume("L-SQRT34 + sq_eq_sq_cases (Lean Fields.lean): for q = 3 mod 4 and a square a = Y^2, a^((q+1)/4) is +-Y")


UNITS["codec.decompress_G1"] = Unit("codec.decompress_G1", u_decompress_g1, [f"{PC}.decompress_G1"], props=("C11", "C04", "C02"))
UNITS["codec.roundtrip_G1"] = Unit("codec.roundtrip_G1", u_roundtrip_g1, [f"{PC}.decompress_G1", f"{PC}.compress_G1"],
                                   kind="lemma", props=("C11",))


# ------------------------------------------------------------------------------------------
# G2
# ------------------------------------------------------------------------------------------
OC2 = z3.Function("on_twist", z3.IntSort(), z3.IntSort(), z3.IntSort(), z3.IntSort(), z3.BoolSort())
ENC2_INF = (P383 + P382, 0)


def fq2_coeffs(o):
    if isinstance(o, Obj) and "coeffs" in o.attrs and len(o.attrs["coeffs"]) == 2:
        return list(o.attrs["coeffs"])
    raise Unsupported("FQ2 object expected")


def mk_fq2(it, re, im):
    fm = it.prog.load("py_ecc.fields")
    cls = it.module_value(fm, "optimized_bls12_381_FQ2")
    return it.instantiate(cls, [[re, im]], {})


def enc2(Xre, Xim, Yre, Yim):
    return (Xim + sign2(Yre, Yim) * P381 + P383, Xre)


class IsOnCurve2Contract:
    """optimized_curve.is_on_curve(pt, b2) at a call site (proved generically: unit optimized_bls12_381.is_on_curve):
    res <=> z = 0 or the affine point satisfies the twist equation.  Here the finite case is the uninterpreted
    predicate on_twist(x_re, x_im, y_re, y_im) of the *normalised* coordinates."""

    def __init__(self, ghost=None):
        self.ghost = ghost
        self.calls = []

    def apply(self, interp, fv, env):
        pt = env[list(env)[0]]
        x, y, z = pt
        zc = fq2_coeffs(z)
        if self.ghost is not None:       # abstract input point of compress_G2: validity is a ghost boolean
            self.calls.append(("ghost",))
            return ZAtom(self.ghost)
        if not (all(isinstance(c, int) for c in zc) and zc == [1, 0]):
            raise Unsupported("is_on_curve contract used with z != 1")
        xs, ys = fq2_coeffs(x), fq2_coeffs(y)
        t = OC2(zt(xs[0]), zt(xs[1]), zt(ys[0]), zt(ys[1]))
        self.calls.append((xs, ys, t))
        return ZAtom(t)


class NormalizeG2Contract:
    def __init__(self, it, X, Y):
        self.it, self.X, self.Y = it, X, Y

    def apply(self, interp, fv, env):
        return (mk_fq2(self.it, *self.X), mk_fq2(self.it, *self.Y))


def reduced(path, *vs):
    for v in vs:
        path.assume(ZAtom(z3.And(zt(v) >= 0, zt(v) < Q)), "coordinate reduced")


def u_compress_g2(ctx):
    q = f"{PC}.compress_G2"
    fv = get_function(ctx.prog, q)

    def body(path):
        it = mk_interp(ctx, q)
        X = (SInt(z3.Int("Xre")), SInt(z3.Int("Xim")))
        Y = (SInt(z3.Int("Yre")), SInt(z3.Int("Yim")))
        Zc = (SInt(z3.Int("Zre")), SInt(z3.Int("Zim")))
        reduced(path, *X, *Y, *Zc)
        valid = z3.Bool("valid_pt")
        pt = (mk_fq2(it, SInt(z3.Int("xre")), SInt(z3.Int("xim"))), mk_fq2(it, SInt(z3.Int("yre")), SInt(z3.Int("yim"))),
              mk_fq2(it, *Zc))
        it.cfg.contracts[f"{OPTC}.is_inf"] = IsInfContract()
        it.cfg.contracts[f"{OPTC}.is_on_curve"] = IsOnCurve2Contract(ghost=valid)
        it.cfg.contracts[f"{OPTC}.normalize"] = NormalizeG2Contract(it, X, Y)
        kind, res = call_top(it, fv, [pt])
        if kind == "raise":
            path.prove(f"{q}/raises.iff", ZAtom(z3.Not(valid)), detail=f"raised {res.__name__}: only for a point that is not valid")
            path.prove(f"{q}/raises.type", res is ValueError)
            return
        path.prove(f"{q}/raises.iff", ZAtom(valid), detail="returned: the point must be valid (on the twist or infinity)")
        ok = isinstance(res, tuple) and len(res) == 2
        path.prove(f"{q}/ensures.shape", ok)
        if not ok:
            return
        inf = z3.And(zt(Zc[0]) == 0, zt(Zc[1]) == 0)
        e = enc2(zt(X[0]), zt(X[1]), zt(Y[0]), zt(Y[1]))
        path.prove(f"{q}/ensures.Enc2", ZAtom(z3.And(zt(res[0]) == z3.If(inf, ENC2_INF[0], e[0]), zt(res[1]) == z3.If(inf, 0, e[1]))),
                   detail="z1 = x_im | sign(y) << 381 | 1 << 383, z2 = x_re; sign = larger y_im, y_re on ties; infinity = (110..0, 0)")
        path.prove(f"{q}/ensures.range", ZAtom(z3.And(zt(res[0]) >= P383, zt(res[0]) < P384, zt(res[1]) >= 0, zt(res[1]) < Q)),
                   detail="first word 384 bits with c = 1, second word < q (no flag bits)")
    ctx.ex.run(body, q)


class SqrtFQ2Contract:
    """modular_squareroot_in_FQ2(value): *havocked* — None or some reduced F_p2 element.  The decoder checks
    the final point with is_on_curve, so soundness and canonicity need nothing about it.  For completeness the
    contract proved by unit codec.sqrt_FQ2 (with Lean Roots.lean check_is_fourth_root / fourth_root_cases + table facts) says: if value
    is a square with root Y the result is +-Y."""

    def __init__(self, it, lemma=None):
        self.it, self.lemma = it, lemma
        self.calls = 0

    def apply(self, interp, fv, env):
        path = cur()
        self.calls += 1
        if self.lemma is not None:
            return self.lemma(path, env)
        if path.choose(2, "sqrt") == 0:
            path.sig[-1] = "sqrt:None"
            return None
        path.sig[-1] = "sqrt:some"
        k = next(path.fresh_id)
        re, im = SInt(z3.Int(f"sre!{k}")), SInt(z3.Int(f"sim!{k}"))
        reduced(path, re, im)
        return mk_fq2(self.it, re, im)


def words_g2(path):
    z1, z2 = SInt(z3.Int("z1")), SInt(z3.Int("z2"))
    path.assume(ZAtom(z3.And(zt(z1) >= 0, zt(z1) < P384, zt(z2) >= 0, zt(z2) < P384)), "two 384-bit words")
    return z1, z2


def u_decompress_g2(ctx):
    q = f"{PC}.decompress_G2"
    fv = get_function(ctx.prog, q)

    def body(path):
        z1, z2 = words_g2(path)
        it = mk_interp(ctx, q)
        oc = IsOnCurve2Contract()
        sq = SqrtFQ2Contract(it)
        it.cfg.contracts[f"{OPTC}.is_on_curve"] = oc
        it.cfg.contracts[f"{PC}.modular_squareroot_in_FQ2"] = sq
        kind, res = call_top(it, fv, [(z1, z2)])
        c, b, a, x1 = word_parts(z1)
        inf = z3.And(x1 == 0, zt(z2) == 0)
        malformed = z3.Or(c == 0, z3.And(inf, z3.Or(b == 0, a == 1)), z3.And(z3.Not(inf), b == 1),
                          z3.And(z3.Not(inf), z3.Or(x1 >= Q, zt(z2) >= Q)))
        if kind == "raise":
            path.prove(f"{q}/raises.type", res is ValueError, detail=f"refusal must be ValueError, got {res.__name__}")
            nosqrt = "sqrt:None" in path.sig
            offcurve = z3.Not(oc.calls[-1][2]) if oc.calls else z3.BoolVal(False)
            path.prove(f"{q}/raises.only-if", ZAtom(z3.Or(malformed, z3.BoolVal(nosqrt), offcurve)),
                       detail="raises only for a malformed pair, when no square root was found, or when the final point is off the twist")
            return
        path.prove(f"{q}/raises.if-malformed", ZAtom(z3.Not(malformed)),
                   detail="returned a point: c=1, b = [infinity], a=0 on infinity, x1 < q, whole second word < q")
        ok = isinstance(res, tuple) and len(res) == 3
        path.prove(f"{q}/ensures.shape", ok)
        if not ok:
            return
        zc = fq2_coeffs(res[2])
        if not sq.calls:
            path.prove(f"{q}/ensures.valid", ZAtom(z3.And(inf, zt(zc[0]) == 0, zt(zc[1]) == 0)), detail="infinity pair decodes to O")
            path.prove(f"{q}/ensures.canonical", ZAtom(z3.And(zt(z1) == ENC2_INF[0], zt(z2) == 0)), detail="accepted infinity is exactly (110..0, 0)")
            return
        xs, ys = fq2_coeffs(res[0]), fq2_coeffs(res[1])
        path.prove(f"{q}/ensures.valid", ZAtom(z3.And(*[z3.And(zt(v) >= 0, zt(v) < Q) for v in xs + ys])), detail="coordinates reduced")
        path.prove(f"{q}/ensures.valid", ZAtom(z3.And(zt(zc[0]) == 1, zt(zc[1]) == 0, OC2(*[zt(v) for v in xs + ys]))),
                   detail="z = 1 and the returned (x, y) passed the twist equation check")
        # closed facts: no twist point with y = 0 (so sign(-y) != sign(y)), none with x = 0 (so x = 0 means infinity)
        path.assume(ZAtom(z3.Implies(OC2(*[zt(v) for v in xs + ys]), z3.And(z3.Or(zt(ys[0]) != 0, zt(ys[1]) != 0),
                                                                            z3.Or(zt(xs[0]) != 0, zt(xs[1]) != 0)))),
                    "closed facts bls.no-y0-points: no twist point has y = 0 or x = 0")
        e = enc2(zt(xs[0]), zt(xs[1]), zt(ys[0]), zt(ys[1]))
        path.prove(f"{q}/ensures.canonical", ZAtom(z3.And(zt(z1) == e[0], zt(z2) == e[1])),
                   detail="accepted pair re-encodes to itself: Enc2(abs res) = (z1, z2)")
    ctx.ex.run(body, q)


def u_roundtrip_g2(ctx):
    q = f"{PC}.decompress_G2"
    name = f"{q}[roundtrip]"
    fv = get_function(ctx.prog, q)

    def body(path):
        it = mk_interp(ctx, q)
        finite = path.choose(2, "point") == 1
        path.sig[-1] = "finite" if finite else "infinity"
        oc = IsOnCurve2Contract()
        it.cfg.contracts[f"{OPTC}.is_on_curve"] = oc
        if not finite:
            it.cfg.contracts[f"{PC}.modular_squareroot_in_FQ2"] = SqrtFQ2Contract(it)
            kind, res = call_top(it, fv, [ENC2_INF])
            ok = kind == "ret" and isinstance(res, tuple) and len(res) == 3 and fq2_coeffs(res[2]) == [0, 0]
            path.prove(f"{name}/ensures.infinity", ok, detail="Enc2(O) decodes to a representative of O")
            return
        Xre, Xim, Yre, Yim = (SInt(z3.Int(n)) for n in ("Xre", "Xim", "Yre", "Yim"))
        reduced(path, Xre, Xim, Yre, Yim)
        path.assume(ZAtom(OC2(zt(Xre), zt(Xim), zt(Yre), zt(Yim))), "valid: on the twist")
        path.assume(ZAtom(z3.And(z3.Or(zt(Yre) != 0, zt(Yim) != 0), z3.Or(zt(Xre) != 0, zt(Xim) != 0))),
                    "closed facts: no twist point with y = 0 or x = 0")
        e = enc2(zt(Xre), zt(Xim), zt(Yre), zt(Yim))

        def lemma(p_, env):
            # contract of modular_squareroot_in_FQ2 (unit codec.sqrt_FQ2): value = Y^2 is a square  =>  the result is Y or -Y
            if p_.choose(2, "root") == 0:
                p_.sig[-1] = "root=+Y"
                return mk_fq2(it, Yre, Yim)
            p_.sig[-1] = "root=-Y"
            nre = SInt(z3.If(zt(Yre) == 0, 0, Q - zt(Yre)))
            nim = SInt(z3.If(zt(Yim) == 0, 0, Q - zt(Yim)))
            # -Y is on the twist as well (the equation only involves y^2)
            p_.zc.append(OC2(zt(Xre), zt(Xim), nre.t, nim.t))
            return mk_fq2(it, nre, nim)
        it.cfg.contracts[f"{PC}.modular_squareroot_in_FQ2"] = SqrtFQ2Contract(it, lemma)
        kind, res = call_top(it, fv, [(SInt(z3.simplify(e[0])), SInt(z3.simplify(e[1])))])
        if kind == "raise":
            path.prove(f"{name}/ensures.accepts", ZAtom(z3.BoolVal(False)),
                       detail=f"Enc2 of a valid point must not be refused: this {res.__name__} path must be infeasible")
            return
        path.prove(f"{name}/ensures.accepts", True, detail="Enc2 of a valid point is accepted")
        xs, ys, zs = fq2_coeffs(res[0]), fq2_coeffs(res[1]), fq2_coeffs(res[2])
        path.prove(f"{name}/ensures.same-point",
                   ZAtom(z3.And(zt(xs[0]) == zt(Xre), zt(xs[1]) == zt(Xim), zt(ys[0]) == zt(Yre), zt(ys[1]) == zt(Yim),
                                zt(zs[0]) == 1, zt(zs[1]) == 0)), detail="decompress_G2(compress_G2(P)) = P")
    ctx.ex.run(body, name)
    ctx.trust("contract of modular_squareroot_in_FQ2 at the call site: (Y^2) -> +-Y, proved from the real source by unit codec.sqrt_FQ2 "
              "(lemma instances: Lean Roots.lean check_is_fourth_root, fourth_root_cases; table facts: closed unit codec.eighth-roots)")


def sym_bytes_fixed(path, name, n):
    b = SBytes.var(name)
    path.assume(ZAtom(z3.Length(b.t) == n), f"len({name}) = {n}")
    return b


def u_byte_helpers(ctx):
    # G1_to_pubkey / G2_to_signature produce 48 / 96 bytes = I2OSP of the words; the decoders read them back
    qa = f"{G2P}.G1_to_pubkey"

    class CompressG1C:
        def apply(self, interp, fv, env):
            z = SInt(z3.Int("zword"))
            cur().zc.append(z3.And(z.t >= P383, z.t < P384))         # compress_G1 ensures.range
            return z

    def body_a(path):
        it = mk_interp(ctx, qa, contracts={f"{PC}.compress_G1": CompressG1C()})
        kind, res = call_top(it, get_function(ctx.prog, qa), [("pt",)])
        if kind == "raise":
            path.prove(f"{qa}/raises.none", False, detail=res.__name__)
            return
        path.prove(f"{qa}/ensures.len", ZAtom(z3.Length(bt(res)) == 48), detail="48 bytes")
        path.prove(f"{qa}/ensures.value", ZAtom(_os2ip(bt(res)) == z3.Int("zword")), detail="big-endian I2OSP of the word")
    ctx.ex.run(body_a, qa)
    qb = f"{G2P}.G2_to_signature"

    class CompressG2C:
        def apply(self, interp, fv, env):
            z1, z2 = SInt(z3.Int("zw1")), SInt(z3.Int("zw2"))
            cur().zc.append(z3.And(z1.t >= P383, z1.t < P384, z2.t >= 0, z2.t < Q))   # compress_G2 ensures.range
            return (z1, z2)

    def body_b(path):
        it = mk_interp(ctx, qb, contracts={f"{PC}.compress_G2": CompressG2C()})
        kind, res = call_top(it, get_function(ctx.prog, qb), [("pt",)])
        if kind == "raise":
            path.prove(f"{qb}/raises.none", False, detail=res.__name__)
            return
        path.prove(f"{qb}/ensures.len", ZAtom(z3.Length(bt(res)) == 96), detail="96 bytes")
        path.prove(f"{qb}/ensures.value", ZAtom(z3.And(_os2ip(z3.SubSeq(bt(res), 0, 48)) == z3.Int("zw1"),
                                                       _os2ip(z3.SubSeq(bt(res), 48, 48)) == z3.Int("zw2"))),
                   detail="I2OSP(z1, 48) || I2OSP(z2, 48)")
    ctx.ex.run(body_b, qb)
    qc = f"{G2P}.pubkey_to_G1"

    class Rec:
        def __init__(self):
            self.args = []

        def apply(self, interp, fv, env):
            self.args.append(list(env.values()))
            return "decoded"

    def body_c(path):
        rec = Rec()
        pk = sym_bytes_fixed(path, "pk", 48)
        it = mk_interp(ctx, qc, contracts={f"{PC}.decompress_G1": rec})
        kind, res = call_top(it, get_function(ctx.prog, qc), [pk])
        ok = kind == "ret" and res == "decoded" and len(rec.args) == 1
        path.prove(f"{qc}/ensures.calls-decoder", ok)
        if ok:
            path.prove(f"{qc}/ensures.word", ZAtom(zt(rec.args[0][0]) == _os2ip(pk.t)), detail="decompress_G1(OS2IP(pubkey))")
    ctx.ex.run(body_c, qc)
    qd = f"{G2P}.signature_to_G2"

    def body_d(path):
        rec = Rec()
        sig = sym_bytes_fixed(path, "sig", 96)
        it = mk_interp(ctx, qd, contracts={f"{PC}.decompress_G2": rec})
        kind, res = call_top(it, get_function(ctx.prog, qd), [sig])
        ok = kind == "ret" and res == "decoded" and len(rec.args) == 1 and isinstance(rec.args[0][0], tuple)
        path.prove(f"{qd}/ensures.calls-decoder", ok)
        if ok:
            w1, w2 = rec.args[0][0]
            path.prove(f"{qd}/ensures.words", ZAtom(z3.And(zt(w1) == _os2ip(z3.SubSeq(sig.t, 0, 48)),
                                                           zt(w2) == _os2ip(z3.SubSeq(sig.t, 48, 48)))),
                       detail="decompress_G2((OS2IP(sig[:48]), OS2IP(sig[48:])))")
    ctx.ex.run(body_d, qd)


def u_sqrt_fq2(ctx):
    """modular_squareroot_in_FQ2 against the contract the decoder relies on (this is the code-level half of L-SQRT8):
       (S) a returned value squares to the argument;
       (C) for value = Y^2, Y != 0 the result is Y or -Y — in particular never None.
    Abstract field F_{q^2} (polyid), symbolic eighth-root table with the facts of the closed unit codec.eighth-roots,
    the ~760-bit exponentiation havocked to c with the lemma instance  c^2 = value * t,  t^4 = 1
    (Lean Roots.lean check_is_fourth_root + exponent bookkeeping 2*((q^2+7)/16) = 1 + (q^2-1)/8, closed fact)."""
    from pyvc.core import FAtom, FldKind, fsym
    from contracts.h2c import run_with_bigpow, eqz, nez
    q = f"{PC}.modular_squareroot_in_FQ2"
    fv = get_function(ctx.prog, q)

    class F2Kind(FldKind):
        """abstract F_{q^2}; `.coeffs` of an element is an opaque pair of reduced ints (only compared, to pick one of x1, -x1)"""

        def elem_getattr(self, interp, o, name):
            if name != "coeffs":
                raise Unsupported(f"attribute {name} of an abstract F_q2 element")
            k = next(cur().fresh_id)
            return (SInt(z3.Int(f"co!{k}re")), SInt(z3.Int(f"co!{k}im")))

    def body(path):
        K = F2Kind("Fq2")
        square = path.choose(2, "argument") == 0
        path.sig[-1] = "value = Y^2" if square else "any value != 0"
        e = [fsym(f"e{k}", K) for k in range(8)]
        one = K(1)
        for a_, b_, why in ((e[0], one, "roots[0] = 1"), (e[4], -one, "roots[4] = -1"), (e[1] * e[1], e[2], "roots[1]^2 = roots[2]"),
                            (e[2] * e[2], e[4], "roots[2]^2 = roots[4]"), (e[3] * e[3], e[6], "roots[3]^2 = roots[6]"),
                            (e[6], -e[2], "roots[6] = roots[2] roots[4]")):
            path.assume(eqz(a_, b_), "closed fact codec.eighth-roots: " + why)
        for k in (1, 2, 3):
            path.assume(nez(e[k]), "closed fact codec.eighth-roots: roots are non-zero")
        for a_ in range(8):
            for b_ in range(a_ + 1, 8):
                path.assume(nez(e[a_] - e[b_]), "closed fact codec.eighth-roots: the eight roots are pairwise different")
        if square:
            Y = fsym("Y", K)
            path.assume(nez(Y), "value = Y^2 with Y != 0 (no twist point has y = 0: closed fact bls.no-y0-points)")
            value = Y * Y
        else:
            value = fsym("v", K)
            path.assume(nez(value), "value != 0")
        it = mk_interp(ctx, q, globals_={(PC, "EIGHTH_ROOTS_OF_UNITY"): tuple(e), (PC, "FQ2"): K})
        t = fsym("t", K)
        state = {}
        orig_pow = None

        def run():
            return call_top(it, fv, [value])
        from pyvc.core import Fld as _F
        orig = _F.__pow__

        def pw(self, k):
            if isinstance(k, int) and k > 64:
                p_ = cur()
                c = fsym(f"c{next(p_.fresh_id)}", K)
                state.setdefault("pows", []).append((self, k, c))
                if square:
                    p_.assume(eqz(c * c, self * t), "candidate^2 = value * value^((q^2-1)/8)   (2e = 1 + (q^2-1)/8: closed fact)")
                    p_.assume(eqz(t * t * t * t, one), "Lean Roots.lean check_is_fourth_root: (Y^2)^((q^2-1)/8) is a fourth root of unity")
                return c
            return orig(self, k)
        _F.__pow__ = pw
        try:
            kind, res = run()
        finally:
            _F.__pow__ = orig
        if kind == "raise":
            path.prove(f"{q}/raises.never", False, detail=res.__name__)
            return
        pows = state.get("pows", [])
        path.prove(f"{q}/ensures.one-bigpow", len(pows) == 1 and path.pc.prove_zero((pows[0][0] - value).r.n), via="polyid",
                   detail="exactly one large exponentiation, of the argument (the candidate)")
        if res is None:
            if not square:
                path.prove(f"{q}/ensures.none", True, detail="None is allowed for an arbitrary value (decided by the code's own test)")
                return
            # the four even roots are 1, i, -1, -i; on this path t differs from each, yet t^4 = 1: contradiction in a field
            prod = (t - e[0]) * (t - e[2]) * (t - e[4]) * (t - e[6])
            contradiction = path.pc.prove_zero(prod.r.n) and all(path.pc.prove_nonzero((t - e[k]).r.n) for k in (0, 2, 4, 6))
            path.prove(f"{q}/ensures.complete", contradiction, via="polyid",
                       detail="value = Y^2: returning None requires check outside {1, i, -1, -i} although check^4 = 1 "
                              "(Lean fourth_root_cases): the path is contradictory")
            return
        ok = isinstance(res, _F) and res.kind is K
        path.prove(f"{q}/ensures.shape", ok, detail="an F_q2 element or None")
        if not ok:
            return
        path.prove(f"{q}/ensures.root", eqz(res * res, value), detail="a returned value squares to the argument")
        if square:
            path.prove(f"{q}/ensures.pm", eqz((res - Y) * (res + Y)), detail="value = Y^2: result is Y or -Y (Lean sq_eq_sq_cases)")
    ctx.ex.run(body, q)


UNITS["codec.sqrt_FQ2"] = Unit("codec.sqrt_FQ2", u_sqrt_fq2, [f"{PC}.modular_squareroot_in_FQ2"], props=("C11", "C04", "C02"))
UNITS["codec.compress_G2"] = Unit("codec.compress_G2", u_compress_g2, [f"{PC}.compress_G2"], props=("C11", "C09", "C02"))
UNITS["codec.decompress_G2"] = Unit("codec.decompress_G2", u_decompress_g2, [f"{PC}.decompress_G2"], props=("C11", "C04", "C02"))
UNITS["codec.roundtrip_G2"] = Unit("codec.roundtrip_G2", u_roundtrip_g2, [f"{PC}.decompress_G2", f"{PC}.compress_G2"],
                                   kind="lemma", props=("C11",), budget_s=600)


def u_codec_closed(ctx):
    from contracts.closed import eval_facts, lean_cite
    eval_facts(ctx, ["bls.no-y0-points", "bls.q-shape", "bls.q-constant", "codec.eighth-roots"])
    lean_cite(ctx, [("Fields.lean", "sqrt34_of_isSquare", "q = 3 mod 4: a square a has root a^((q+1)/4)"),
                    ("Fields.lean", "sq_eq_sq_cases", "c^2 = y^2 in a field implies c = +-y"),
                    ("Roots.lean", "fourth_root_cases", "eighth-roots square-root method, case analysis"),
                    ("Roots.lean", "check_is_fourth_root", "candidate^2 / value is a fourth root of unity"),
                    ("Roots.lean", "sqrt_from_candidate", "candidate / root-of-unity is a square root")])


UNITS["codec.closed"] = Unit("codec.closed", u_codec_closed, [], kind="closed", props=("C11",))
UNITS["codec.byte_helpers"] = Unit("codec.byte_helpers", u_byte_helpers,
                                   [f"{G2P}.G1_to_pubkey", f"{G2P}.G2_to_signature", f"{G2P}.pubkey_to_G1", f"{G2P}.signature_to_G2"],
                                   props=("C11", "C09", "C04", "C02", "C01"))
