"""L0 integer contracts (DESIGN §4 L0): extended Euclid inverses and bytes_to_int, by loop
invariants with ghost congruence witnesses, discharged by z3."""
from __future__ import annotations

import z3

from pyvc.core import ZAtom, cur
from pyvc.interp import PyRaise
from pyvc.loops import Z3Loop
from pyvc.sym import SInt, SBytes, zt
from pyvc.unit import Unit
from contracts.curves import get_function, mk_interp, call_top, SECP

UNITS = {}
_gcd = z3.Function("gcd", z3.IntSort(), z3.IntSort(), z3.IntSort())


def euclid_loop(name, a0, n, g0):
    """while low > 1: invariant with ghost witnesses kl, kh:
         lm*a0 = low + kl*n,  hm*a0 = high + kh*n,  0 <= low < high,  high > 1,  gcd(high, low) = g0"""
    def inv(env, gh):
        lm, hm, low, high = (zt(env[v]) for v in ("lm", "hm", "low", "high"))
        return [("congr-lm", lm * a0 == low + gh["kl"] * n),
                ("congr-hm", hm * a0 == high + gh["kh"] * n),
                ("range", z3.And(0 <= low, low < high)),
                ("high>1", high > 1),
                ("gcd", _gcd(high, low) == g0)]

    def ghost_init(env):
        return dict(kl=z3.IntVal(0), kh=z3.IntVal(-1))

    def ghost_havoc(path):
        k = next(path.fresh_id)
        return dict(kl=z3.Int(f"kl!{k}"), kh=z3.Int(f"kh!{k}"))

    def ghost_step(before, gh, after):
        r = zt(after["r"])
        return dict(kl=gh["kh"] - r * gh["kl"], kh=gh["kl"])

    def lemmas(env, gh):
        from pyvc.sym import sdivmod
        low, high = zt(env["low"]), zt(env["high"])
        # Euclid step (definition of gcd): gcd(high, low) = gcd(low, high mod low) for low > 0,
        # instantiated at the quotient/remainder witnesses of this iteration (shared with the body)
        q, r = sdivmod(env["high"], env["low"])
        return [_gcd(high, low) == _gcd(low, zt(r))]

    return Z3Loop(name, ["lm", "hm", "low", "high"], inv, ghost_init, ghost_havoc, ghost_step, lemmas,
                  measure=lambda env: zt(env["low"]))


def _inv_unit(ctx, q, reduce_first):
    fv = get_function(ctx.prog, q)

    def body(path):
        a, n = SInt(z3.Int("a")), SInt(z3.Int("n"))
        path.assume(n > 1, "requires n > 1")
        if not reduce_first:
            # secp256k1.inv tests `a == 0` on the unreduced value: requires n does not divide a, or a == 0
            path.assume(ZAtom(z3.Or(zt(a) == 0, zt(a) % zt(n) != 0)), "requires a == 0 or n does not divide a")
        a0 = z3.Int("a0")
        k0 = z3.Int("k0")
        path.assume(ZAtom(z3.And(zt(a) == k0 * zt(n) + a0, a0 >= 0, a0 < zt(n))), "a0 = a mod n (witness k0)")
        g0 = _gcd(zt(n), a0)
        # uniqueness of the remainder, made linear for the solver: the code's `a % n` (and, in prime_field_inv, the second
        # `% n` of the already reduced value) come with quotient witnesses q; with d = (quotient difference) the two
        # monotonicity instances  d >= 1 -> d*n >= n,  d <= -1 -> d*n <= -n  are proved on their own and then used
        from pyvc.sym import sdivmod
        q1, r1 = sdivmod(a, n)
        diffs = [k0 - zt(q1)]
        if reduce_first:
            q2, r2 = sdivmod(r1, n)
            diffs.append(zt(q2))
        for i, d in enumerate(diffs):
            for lem in (z3.Implies(d >= 1, d * zt(n) >= zt(n)), z3.Implies(d <= -1, d * zt(n) <= -zt(n))):
                if path.prove(f"{q}/lemma.mod-unique", ZAtom(lem), kind="lemma",
                              detail="monotonicity instance for the uniqueness of the remainder (n > 1)"):
                    path.assume(ZAtom(lem), "proved lemma instance")
        it = mk_interp(ctx, q, loops={(q, 0): euclid_loop(q + "/loop0", a0, zt(n), g0)})
        kind, res = call_top(it, fv, [a, n])
        if kind == "raise":
            path.prove(f"{q}/raises.none", False, detail=f"raised {res.__name__}")
            return
        rt = zt(res)
        path.prove(f"{q}/ensures.range", ZAtom(z3.And(rt >= 0, rt < zt(n))), detail="0 <= res < n")
        path.prove(f"{q}/ensures.inv0", ZAtom(z3.Implies(a0 == 0, rt == 0)), detail="a = 0 (mod n) -> res = 0")
        # gcd(a0, n) = 1  ->  res * a = 1 (mod n), with an explicit witness: res*a0 - 1 = w*n
        gh = path.ghost.get(f"loop-ghost:{q}/loop0")
        ev = path.ghost.get(f"loop-env:{q}/loop0")
        if gh is None:
            # returned before the loop (a = 0 mod n): nothing more to show
            path.prove(f"{q}/ensures.inverse", ZAtom(z3.Implies(z3.And(a0 != 0, g0 == 1), z3.BoolVal(False))),
                       detail="early return only for a = 0 (mod n)")
            return
        high, lm = zt(ev["high"]), ev["lm"]
        # at exit low in {0, 1}; low = 0 contradicts gcd = 1:  gcd(high, 0) = high > 1  (ground instance)
        path.assume(ZAtom(z3.Implies(high > 0, _gcd(high, 0) == high)), "gcd(h, 0) = h at h = high")
        qq, _ = sdivmod(lm, n)          # the witnesses of `lm % n` used by the return statement
        w = gh["kl"] - zt(qq) * a0        # explicit congruence witness:  res*a0 - 1 = w*n
        path.prove(f"{q}/ensures.inverse",
                   ZAtom(z3.Implies(z3.And(a0 != 0, g0 == 1), rt * a0 - 1 == w * zt(n))),
                   detail="gcd(a mod n, n) = 1 -> res * a = 1 (mod n), witness w = kl - (lm div n) * a0")
    ctx.ex.run(body, q)


def u_prime_field_inv(ctx):
    _inv_unit(ctx, "py_ecc.utils.prime_field_inv", True)


def u_secp_inv(ctx):
    _inv_unit(ctx, f"{SECP}.inv", False)


UNITS["utils.prime_field_inv"] = Unit("utils.prime_field_inv", u_prime_field_inv, ["py_ecc.utils.prime_field_inv"],
                                      props=("C08", "C14"))
UNITS["secp.inv"] = Unit("secp.inv", u_secp_inv, [f"{SECP}.inv"], props=("C18", "C19", "C06"))
