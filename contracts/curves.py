"""L2 coordinate-level contracts (DESIGN §4 L2): the projective, affine (reference) and Jacobian
curve functions against the affine chord-and-tangent law, on every control path, for every
field of characteristic outside {2, 3} (polyid) — C13, C07, C18.

Contracts (all over the abstract view `abs`):
  add(p1,p2)    requires valid(p1), valid(p2)  ensures valid(res) and abs(res) = abs(p1) (+) abs(p2)
  double(p)     requires valid(p)              ensures valid(res) and abs(res) = abs(p) (+) abs(p)
  neg(p)        requires valid(p)              ensures valid(res) and abs(res) = (-) abs(p)
  eq(p1,p2)     requires valid(p1), valid(p2)  ensures res <=> abs(p1) = abs(p2)
  is_on_curve   requires well-shaped           ensures res <=> valid(pt)
  is_inf        requires well-shaped           ensures res <=> abs(pt) = O
  normalize(p)  requires valid(p), z != 0      ensures res = abs(p)
"""
from __future__ import annotations

from pyvc.core import FAtom, Fld, FldKind, fsym, PathAbort, Unsupported, cur
from pyvc.interp import Interp, Config, FuncVal, PyRaise
from pyvc.poly import Infeasible
from pyvc.unit import Unit

UNITS = {}


# ------------------------------------------------------------------------------------------
# the spec: affine chord-and-tangent law on y^2 = x^3 + b  (character for character the
# `specAdd` of lean/GroupLaw.lean, which is proved there to be Mathlib's group law)
# ------------------------------------------------------------------------------------------
def ec_add(P, Q):
    if P is None:
        return Q
    if Q is None:
        return P
    (x1, y1), (x2, y2) = P, Q
    if x1 == x2 and y1 == -y2:
        return None
    if x1 == x2:
        m = 3 * x1 * x1 / (2 * y1)
        x3 = m * m - 2 * x1
    else:
        m = (y2 - y1) / (x2 - x1)
        x3 = m * m - x1 - x2
    return (x3, -m * x3 + m * x1 - y1)


def ec_neg(P):
    if P is None:
        return None
    return (P[0], -P[1])


# ------------------------------------------------------------------------------------------
# helpers
# ------------------------------------------------------------------------------------------
def get_function(prog, qualname):
    modname, fname = qualname.rsplit(".", 1)
    mod = prog.load(modname)
    if fname not in mod.funcs:
        raise Unsupported(f"contract target {qualname} no longer exists")
    return FuncVal(mod, mod.funcs[fname])


def mk_interp(ctx, top, contracts=None, globals_=None, loops=None, externs=None):
    cfg = Config()
    cfg.top = top
    if contracts:
        cfg.contracts.update(contracts)
    if globals_:
        cfg.globals.update(globals_)
    if loops:
        cfg.loops.update(loops)
    if externs:
        cfg.externs.update(externs)
    return Interp(ctx.prog, cfg)


def sym_proj(path, tag, K):
    return (fsym(f"x{tag}", K), fsym(f"y{tag}", K), fsym(f"z{tag}", K))


def assume_valid_proj(path, pt, b, tag):
    """valid(pt): z = 0, or z != 0 and y^2 z = x^3 + b z^3.  Forks on z = 0."""
    x, y, z = pt
    if path.case(z == 0, f"z{tag}=0?"):
        return False
    path.assume(y * y * z == x * x * x + b * z * z * z, f"on-curve{tag}")
    return True


def abs_proj(path, pt, tag=""):
    x, y, z = pt
    if path.case(z == 0, f"abs.z{tag}=0?"):
        return None
    return (x / z, y / z)


def prove_proj_result(path, name, res, spec_pt, b):
    """valid(res) and abs(res) = spec_pt"""
    if not (isinstance(res, tuple) and len(res) == 3):
        path.prove(f"{name}/ensures.shape", False, detail=f"result is not a triple: {res!r}")
        return
    x, y, z = [_fld(v) for v in res]
    if spec_pt is None:
        path.prove(f"{name}/ensures.abs", z == 0, detail="spec result is O: z must be 0")
        return
    X, Y = spec_pt
    ok = path.prove(f"{name}/ensures.abs", z != 0, detail="spec result is finite: z must be non-zero")
    path.prove(f"{name}/ensures.abs", x == X * z, detail="x/z = X_spec")
    path.prove(f"{name}/ensures.abs", y == Y * z, detail="y/z = Y_spec")
    path.prove(f"{name}/ensures.valid", y * y * z == x * x * x + b * z * z * z, detail="result on curve")


_K_DEFAULT = FldKind("F")


def _fld(v, K=None):
    if isinstance(v, Fld):
        return v
    if isinstance(v, int):
        return (K or _K_DEFAULT)(v)
    raise Unsupported(f"field value expected, got {type(v).__name__}")


def call_top(interp, fv, args):
    """run the function under verification; returns ('ret', value) or ('raise', exc_cls)"""
    try:
        return "ret", interp.call_function(fv, list(args), {})
    except PyRaise as pr:
        return "raise", pr.exc_cls


def new_path_setup(path):
    path.pc.prefer["b"] = 100      # solve the curve equations for b first


# ------------------------------------------------------------------------------------------
# contract object used at call sites (modular verification): optimized double inside add
# ------------------------------------------------------------------------------------------
class ProjDoubleContract:
    """double(p): requires valid(p); ensures valid(res) and abs(res) = abs(p) (+) abs(p).
    At a call site the result is a fresh triple constrained by the postcondition only."""

    def __init__(self, b):
        self.b = b
        self.calls = 0

    def apply(self, interp, fv, env):
        path = cur()
        self.calls += 1
        pt = env[list(env)[0]]
        x, y, z = pt
        K = x.kind
        # requires: valid(pt) -- call-site obligation
        if not path.pc.prove_zero((z).r.n):
            path.prove(f"{interp.cfg.top}/call[double]/requires.valid",
                       y * y * z == x * x * x + self.b * z * z * z, kind="requires")
        P = abs_proj(path, pt, ".call")
        S = ec_add(P, P)
        k = next(path.fresh_id)
        rx, ry, rz = fsym(f"dx{k}", K), fsym(f"dy{k}", K), fsym(f"dz{k}", K)
        if S is None:
            path.assume(rz == 0, "double.ensures")
        else:
            path.assume(rz != 0, "double.ensures")
            path.assume(rx == S[0] * rz, "double.ensures.x")
            path.assume(ry == S[1] * rz, "double.ensures.y")
        return (rx, ry, rz)


# ------------------------------------------------------------------------------------------
# optimized (projective) modules
# ------------------------------------------------------------------------------------------
OPT_MODULES = ["py_ecc.optimized_bls12_381.optimized_curve", "py_ecc.optimized_bn128.optimized_curve"]


def u_opt_double(ctx, modname):
    q = f"{modname}.double"
    fv = get_function(ctx.prog, q)

    def body(path):
        new_path_setup(path)
        K = FldKind("F")
        b = fsym("b", K)
        p = sym_proj(path, "1", K)
        assume_valid_proj(path, p, b, "1")
        it = mk_interp(ctx, q)
        kind, res = call_top(it, fv, [p])
        if kind == "raise":
            path.prove(f"{q}/raises.none", False, detail=f"raised {res.__name__}")
            return
        P = abs_proj(path, p)
        prove_proj_result(path, q, res, ec_add(P, P), b)
    ctx.ex.run(body, q)
    ctx.trust("characteristic of the field not in {2,3} (closed check on the real primes)")


def u_opt_add(ctx, modname):
    q = f"{modname}.add"
    fv = get_function(ctx.prog, q)

    def body(path):
        new_path_setup(path)
        K = FldKind("F")
        b = fsym("b", K)
        p1 = sym_proj(path, "1", K)
        p2 = sym_proj(path, "2", K)
        assume_valid_proj(path, p1, b, "1")
        assume_valid_proj(path, p2, b, "2")
        it = mk_interp(ctx, q, contracts={f"{modname}.double": ProjDoubleContract(b)})
        kind, res = call_top(it, fv, [p1, p2])
        if kind == "raise":
            path.prove(f"{q}/raises.none", False, detail=f"raised {res.__name__}")
            return
        P1 = abs_proj(path, p1, "1")
        P2 = abs_proj(path, p2, "2")
        prove_proj_result(path, q, res, ec_add(P1, P2), b)
    ctx.ex.run(body, q)


def u_opt_neg(ctx, modname):
    q = f"{modname}.neg"
    fv = get_function(ctx.prog, q)

    def body(path):
        new_path_setup(path)
        K = FldKind("F")
        b = fsym("b", K)
        p = sym_proj(path, "1", K)
        assume_valid_proj(path, p, b, "1")
        kind, res = call_top(mk_interp(ctx, q), fv, [p])
        if kind == "raise":
            path.prove(f"{q}/raises.none", False, detail=f"raised {res.__name__}")
            return
        prove_proj_result(path, q, res, ec_neg(abs_proj(path, p)), b)
    ctx.ex.run(body, q)


def _as_bool(path, v, name):
    """the function returned a condition: decide it on this path (forks when undecided)"""
    if isinstance(v, bool):
        return v
    if isinstance(v, FAtom):
        return path.case(v, f"{name}.result")
    raise Unsupported(f"boolean result expected, got {type(v).__name__}")


def u_opt_eq(ctx, modname):
    q = f"{modname}.eq"
    fv = get_function(ctx.prog, q)

    def body(path):
        new_path_setup(path)
        K = FldKind("F")
        b = fsym("b", K)
        p1 = sym_proj(path, "1", K)
        p2 = sym_proj(path, "2", K)
        assume_valid_proj(path, p1, b, "1")
        assume_valid_proj(path, p2, b, "2")
        kind, res = call_top(mk_interp(ctx, q), fv, [p1, p2])
        if kind == "raise":
            path.prove(f"{q}/raises.none", False, detail=f"raised {res.__name__}")
            return
        got = _as_bool(path, res, "eq")
        P1 = abs_proj(path, p1, "1")
        P2 = abs_proj(path, p2, "2")
        # ensures res <=> abs(p1) = abs(p2); the code's verdict `got` is now part of the path
        if P1 is None or P2 is None:
            want = (P1 is None and P2 is None)
            path.prove(f"{q}/ensures.iff", got == want,
                       detail=f"eq returned {got} but abs(p1) is {'O' if P1 is None else 'finite'} and "
                              f"abs(p2) is {'O' if P2 is None else 'finite'}")
            return
        if got:
            path.prove(f"{q}/ensures.iff", P1[0] == P2[0], detail="eq returned True: x-coordinates must agree")
            path.prove(f"{q}/ensures.iff", P1[1] == P2[1], detail="eq returned True: y-coordinates must agree")
        else:
            # returned False: the points must differ: not (X1 = X2 and Y1 = Y2)
            if path.case(P1[0] == P2[0], "spec.x1=x2?"):
                path.prove(f"{q}/ensures.iff", P1[1] != P2[1], detail="eq returned False although abs(p1) = abs(p2)")
            # else x differ: fine
    ctx.ex.run(body, q)


def u_opt_is_on_curve(ctx, modname):
    q = f"{modname}.is_on_curve"
    fv = get_function(ctx.prog, q)

    def body(path):
        K = FldKind("F")
        b = fsym("b", K)
        p = sym_proj(path, "1", K)
        kind, res = call_top(mk_interp(ctx, q), fv, [p, b])
        if kind == "raise":
            path.prove(f"{q}/raises.none", False, detail=f"raised {res.__name__}")
            return
        got = _as_bool(path, res, "is_on_curve")
        x, y, z = p
        # valid(pt)  <=>  z = 0  or  y^2 z = x^3 + b z^3
        if got:
            if not path.case(z == 0, "z=0?"):
                path.prove(f"{q}/ensures.iff", y * y * z == x * x * x + b * z * z * z,
                           detail="returned True for a finite point: must satisfy the curve equation")
        else:
            path.prove(f"{q}/ensures.iff", z != 0, detail="returned False: point must be finite")
            path.prove(f"{q}/ensures.iff", y * y * z != x * x * x + b * z * z * z,
                       detail="returned False: the curve equation must fail")
    ctx.ex.run(body, q)


def u_opt_is_inf(ctx, modname):
    q = f"{modname}.is_inf"
    fv = get_function(ctx.prog, q)

    def body(path):
        K = FldKind("F")
        p = sym_proj(path, "1", K)
        kind, res = call_top(mk_interp(ctx, q), fv, [p])
        if kind == "raise":
            path.prove(f"{q}/raises.none", False, detail=f"raised {res.__name__}")
            return
        got = _as_bool(path, res, "is_inf")
        z = p[2]
        path.prove(f"{q}/ensures.iff", (z == 0) if got else (z != 0), detail=f"is_inf returned {got}")
    ctx.ex.run(body, q)


def u_opt_normalize(ctx, modname):
    q = f"{modname}.normalize"
    fv = get_function(ctx.prog, q)

    def body(path):
        new_path_setup(path)
        K = FldKind("F")
        b = fsym("b", K)
        p = sym_proj(path, "1", K)
        path.assume(p[2] != 0, "requires z != 0")
        assume_valid_proj(path, p, b, "1")
        kind, res = call_top(mk_interp(ctx, q), fv, [p])
        if kind == "raise":
            path.prove(f"{q}/raises.none", False, detail=f"raised {res.__name__}")
            return
        if not (isinstance(res, tuple) and len(res) == 2):
            path.prove(f"{q}/ensures.shape", False, detail="result is not a pair")
            return
        X, Y = abs_proj(path, p)
        path.prove(f"{q}/ensures.abs", _fld(res[0]) == X, detail="x = x/z")
        path.prove(f"{q}/ensures.abs", _fld(res[1]) == Y, detail="y = y/z")
    ctx.ex.run(body, q)


def u_opt_scaling(ctx, modname):
    """corollary named by C13: results do not depend on the representative: f(l*p) ~ f(p).
    Generated although it follows from the abs-level contracts, because the property names it."""
    qa, qd = f"{modname}.add", f"{modname}.double"
    fa, fd = get_function(ctx.prog, qa), get_function(ctx.prog, qd)

    def same_abs(path, name, r1, r2):
        x1, y1, z1 = [_fld(v) for v in r1]
        x2, y2, z2 = [_fld(v) for v in r2]
        if path.case(z1 == 0, "res.z=0?"):
            path.prove(f"{name}/scaling", z2 == 0, detail="scaled input gives O iff unscaled does")
        else:
            path.prove(f"{name}/scaling", z2 != 0, detail="scaled input gives finite iff unscaled does")
            path.prove(f"{name}/scaling", x1 * z2 == x2 * z1)
            path.prove(f"{name}/scaling", y1 * z2 == y2 * z1)

    def body_d(path):
        new_path_setup(path)
        K = FldKind("F")
        b = fsym("b", K)
        lam = fsym("lam", K)
        path.assume(lam != 0, "scaling parameter non-zero")
        p = sym_proj(path, "1", K)
        assume_valid_proj(path, p, b, "1")
        ps = tuple(lam * c for c in p)
        k1, r1 = call_top(mk_interp(ctx, qd), fd, [p])
        k2, r2 = call_top(mk_interp(ctx, qd), fd, [ps])
        if k1 == "raise" or k2 == "raise":
            path.prove(f"{qd}/raises.none", False)
            return
        same_abs(path, qd, r1, r2)

    def body_a(path):
        new_path_setup(path)
        K = FldKind("F")
        b = fsym("b", K)
        lam, mu = fsym("lam", K), fsym("mu", K)
        path.assume(lam != 0, "scaling parameter non-zero")
        path.assume(mu != 0, "scaling parameter non-zero")
        p1 = sym_proj(path, "1", K)
        p2 = sym_proj(path, "2", K)
        assume_valid_proj(path, p1, b, "1")
        assume_valid_proj(path, p2, b, "2")
        k1, r1 = call_top(mk_interp(ctx, qa), fa, [p1, p2])
        k2, r2 = call_top(mk_interp(ctx, qa), fa, [tuple(lam * c for c in p1), tuple(mu * c for c in p2)])
        if k1 == "raise" or k2 == "raise":
            path.prove(f"{qa}/raises.none", False)
            return
        same_abs(path, qa, r1, r2)
    ctx.ex.run(body_d, qd)
    ctx.ex.run(body_a, qa)


for _m in OPT_MODULES:
    _s = _m.split(".")[1]
    for _n, _f in [("double", u_opt_double), ("add", u_opt_add), ("neg", u_opt_neg), ("eq", u_opt_eq),
                   ("is_on_curve", u_opt_is_on_curve), ("is_inf", u_opt_is_inf),
                   ("normalize", u_opt_normalize)]:
        UNITS[f"{_s}.{_n}"] = Unit(f"{_s}.{_n}", _f, [f"{_m}.{_n}"], props=("C13", "C07"), args=(_m,))
    UNITS[f"{_s}.scaling"] = Unit(f"{_s}.scaling", u_opt_scaling, [f"{_m}.add", f"{_m}.double"],
                                  kind="lemma", props=("C13",), args=(_m,))


# ------------------------------------------------------------------------------------------
# line functions of the optimized pairing modules (C13) and of the reference modules (C05)
# ------------------------------------------------------------------------------------------
def line_spec(P1, P2, T):
    """the affine line function through P1, P2 evaluated at T (three cases, as in the textbook
    Miller algorithm): chord, tangent, vertical"""
    (x1, y1), (x2, y2), (xt, yt) = P1, P2, T
    if x1 != x2:
        m = (y2 - y1) / (x2 - x1)
        return m * (xt - x1) - (yt - y1)
    if y1 == y2:
        m = 3 * x1 * x1 / (2 * y1)
        return m * (xt - x1) - (yt - y1)
    return xt - x1


OPT_PAIRING = ["py_ecc.optimized_bls12_381.optimized_pairing", "py_ecc.optimized_bn128.optimized_pairing"]


def u_opt_linefunc(ctx, modname):
    q = f"{modname}.linefunc"
    fv = get_function(ctx.prog, q)

    def body(path):
        new_path_setup(path)
        K = FldKind("F")
        b = fsym("b", K)
        p1 = sym_proj(path, "1", K)
        p2 = sym_proj(path, "2", K)
        t = (fsym("xt", K), fsym("yt", K), fsym("zt", K))
        # requires: finite valid representatives, T finite
        for tag, p in (("1", p1), ("2", p2)):
            path.assume(p[2] != 0, f"requires z{tag} != 0")
            x, y, z = p
            path.assume(y * y * z == x * x * x + b * z * z * z, f"on-curve{tag}")
        path.assume(t[2] != 0, "requires zt != 0")
        A1, A2 = (p1[0] / p1[2], p1[1] / p1[2]), (p2[0] / p2[2], p2[1] / p2[2])
        T = (t[0] / t[2], t[1] / t[2])
        # requires (tangent case): y1 != 0
        if path.case(A1[0] == A2[0], "abs.x1=x2?") and path.case(A1[1] == A2[1], "abs.y1=y2?"):
            path.assume(p1[1] != 0, "requires y1 != 0 when doubling")
        kind, res = call_top(mk_interp(ctx, q), fv, [p1, p2, t])
        if kind == "raise":
            path.prove(f"{q}/raises.none", False, detail=f"raised {res.__name__}")
            return
        if not (isinstance(res, tuple) and len(res) == 2):
            path.prove(f"{q}/ensures.shape", False, detail="result is not a (numerator, denominator) pair")
            return
        num, den = _fld(res[0]), _fld(res[1])
        want = line_spec(A1, A2, T)
        path.prove(f"{q}/ensures.den", den != 0, detail="denominator non-zero")
        path.prove(f"{q}/ensures.ratio", num == want * den, detail="num/den = affine line function")
    ctx.ex.run(body, q)


for _m in OPT_PAIRING:
    _s = _m.split(".")[1]
    UNITS[f"{_s}.linefunc"] = Unit(f"{_s}.linefunc", u_opt_linefunc, [f"{_m}.linefunc"], props=("C13", "C05"),
                                   args=(_m,))


# ------------------------------------------------------------------------------------------
# secp256k1: Jacobian coordinates over integers modulo P
# ------------------------------------------------------------------------------------------
SECP = "py_ecc.secp256k1.secp256k1"
SECP_P = 2 ** 256 - 2 ** 32 - 977


def secp_kind():
    return FldKind("ZmodP", modulus=SECP_P)


def sym_jac(tag, K):
    return (fsym(f"x{tag}", K), fsym(f"y{tag}", K), fsym(f"z{tag}", K))


def assume_valid_jac(path, p, b, tag):
    """valid(p): (x = 0 and y = 0)  [identity]   or   y != 0, z != 0, y^2 = x^3 + b z^6"""
    x, y, z = p
    if path.case(y == 0, f"y{tag}=0?"):
        path.assume(x == 0, f"identity{tag} is encoded with x = 0")
        return False
    path.assume(z != 0, f"finite{tag}: z != 0")
    path.assume(y * y == x * x * x + b * z ** 6, f"on-curve{tag}")
    return True


def abs_jac(path, p, tag=""):
    x, y, z = p
    if path.case(y == 0, f"abs.y{tag}=0?"):
        return None
    return (x / (z * z), y / (z * z * z))


def _reduced(v, K):
    if isinstance(v, Fld):
        return v.reduced
    if isinstance(v, bool):
        return True
    if isinstance(v, int):
        return 0 <= v < K.modulus
    return False


def prove_jac_result(path, name, res, spec_pt, b, K, no_y0=True):
    if not (isinstance(res, tuple) and len(res) == 3):
        path.prove(f"{name}/ensures.shape", False, detail=f"result is not a triple: {res!r}")
        return
    path.prove(f"{name}/ensures.reduced", all(_reduced(v, K) for v in res),
               detail="every coordinate is reduced into [0, P)")
    x, y, z = [_fld(v, K) for v in res]
    if spec_pt is None:
        path.prove(f"{name}/ensures.abs", y.r.n == 0 if False else FAtom(y.r.n, True), detail="spec result is O: y must be 0")
        path.prove(f"{name}/ensures.abs", FAtom(x.r.n, True), detail="spec result is O: identity is encoded with x = 0")
        return
    X, Y = spec_pt
    # the curve has no point with y = 0 (-b is a non-cube: closed fact checked on the real constants);
    # instantiated at the spec result, which is on the curve (lean: specAdd_onCurve)
    if no_y0:
        path.assume(FAtom(Y.r.n, False), "no curve point has y = 0 (closed fact: -7 is a non-cube mod P)")
    path.prove(f"{name}/ensures.abs", FAtom(y.r.n, False), detail="spec result is finite: y must be non-zero")
    path.prove(f"{name}/ensures.abs", FAtom(z.r.n, False), detail="spec result is finite: z must be non-zero")
    path.prove(f"{name}/ensures.abs", FAtom((x - X * z * z).r.n, True), detail="x/z^2 = X_spec")
    path.prove(f"{name}/ensures.abs", FAtom((y - Y * z * z * z).r.n, True), detail="y/z^3 = Y_spec")
    path.prove(f"{name}/ensures.valid", FAtom((y * y - x * x * x - b * z ** 6).r.n, True), detail="result on curve")


class JacDoubleContract:
    """jacobian_double at a call site: fresh valid result with abs(res) = abs(p) (+) abs(p)"""

    def __init__(self, b, K):
        self.b, self.K = b, K

    def apply(self, interp, fv, env):
        path = cur()
        p = env[list(env)[0]]
        P_ = abs_jac(path, p, ".call")
        S = ec_add(P_, P_)
        k = next(path.fresh_id)
        K = self.K
        rx, ry, rz = fsym(f"dx{k}", K), fsym(f"dy{k}", K), fsym(f"dz{k}", K)
        if S is None:
            path.assume(ry == 0, "jacobian_double.ensures")
            path.assume(rx == 0, "jacobian_double.ensures")
        else:
            path.assume(FAtom(S[1].r.n, False), "no curve point has y = 0")
            path.assume(rz != 0, "jacobian_double.ensures")
            path.assume(FAtom((rx - S[0] * rz * rz).r.n, True), "jacobian_double.ensures.x")
            path.assume(FAtom((ry - S[1] * rz * rz * rz).r.n, True), "jacobian_double.ensures.y")
        return (rx, ry, rz)


def _secp_globals():
    return {}


def u_secp_jdouble(ctx):
    q = f"{SECP}.jacobian_double"
    fv = get_function(ctx.prog, q)

    def body(path):
        new_path_setup(path)
        K = secp_kind()
        b = fsym("b", K)
        p = sym_jac("1", K)
        assume_valid_jac(path, p, b, "1")
        kind, res = call_top(mk_interp(ctx, q), fv, [p])
        if kind == "raise":
            path.prove(f"{q}/raises.none", False, detail=f"raised {res.__name__}")
            return
        P_ = abs_jac(path, p)
        prove_jac_result(path, q, res, ec_add(P_, P_), b, K)
    ctx.ex.run(body, q)
    ctx.assume("secp256k1 has no point with y = 0 (closed fact -7 non-cube mod P, checked by eval in unit secp.constants)")


def u_secp_jadd(ctx):
    q = f"{SECP}.jacobian_add"
    fv = get_function(ctx.prog, q)

    def body(path):
        new_path_setup(path)
        K = secp_kind()
        b = fsym("b", K)
        p1, p2 = sym_jac("1", K), sym_jac("2", K)
        assume_valid_jac(path, p1, b, "1")
        assume_valid_jac(path, p2, b, "2")
        it = mk_interp(ctx, q, contracts={f"{SECP}.jacobian_double": JacDoubleContract(b, K)})
        kind, res = call_top(it, fv, [p1, p2])
        if kind == "raise":
            path.prove(f"{q}/raises.none", False, detail=f"raised {res.__name__}")
            return
        prove_jac_result(path, q, res, ec_add(abs_jac(path, p1, "1"), abs_jac(path, p2, "2")), b, K)
    ctx.ex.run(body, q)


def u_secp_to_jacobian(ctx):
    q = f"{SECP}.to_jacobian"
    fv = get_function(ctx.prog, q)

    def body(path):
        new_path_setup(path)
        K = secp_kind()
        b = fsym("b", K)
        x, y = fsym("x1", K), fsym("y1", K)
        # valid affine: (0, 0) = identity, or on curve (then y != 0 by the closed fact)
        if path.case(y == 0, "y=0?"):
            path.assume(x == 0, "identity is (0, 0)")
            A = None
        else:
            path.assume(y * y == x * x * x + b, "on-curve")
            A = (x, y)
        kind, res = call_top(mk_interp(ctx, q), fv, [(x, y)])
        if kind == "raise":
            path.prove(f"{q}/raises.none", False, detail=f"raised {res.__name__}")
            return
        prove_jac_result(path, q, res, A, b, K, no_y0=False)
    ctx.ex.run(body, q)


class InvContract:
    """secp256k1.inv(a, n) / utils.prime_field_inv at coordinate level, n the field prime:
    requires a reduced (or a == 0); ensures res = inv0(a) reduced.  (Proved at integer level in
    contracts.ints: unit secp.inv.)"""

    def __init__(self, K, top):
        self.K, self.top = K, top

    def apply(self, interp, fv, env):
        path = cur()
        a, n = env["a"], env["n"]
        if not (isinstance(n, int) and n == self.K.modulus):
            raise Unsupported("inv with a modulus other than the field prime at coordinate level")
        a = _fld(a, self.K)
        path.prove(f"{self.top}/call[inv]/requires.reduced", bool(a.reduced), kind="requires",
                   detail="inv(a, n) tests a == 0 on the unreduced value: argument must be reduced")
        r = self.K.one() / a
        return Fld(r.r, self.K, reduced=True)


def u_secp_from_jacobian(ctx):
    q = f"{SECP}.from_jacobian"
    fv = get_function(ctx.prog, q)

    def body(path):
        new_path_setup(path)
        K = secp_kind()
        b = fsym("b", K)
        p = sym_jac("1", K)
        assume_valid_jac(path, p, b, "1")
        it = mk_interp(ctx, q, contracts={f"{SECP}.inv": InvContract(K, q)})
        kind, res = call_top(it, fv, [p])
        if kind == "raise":
            path.prove(f"{q}/raises.none", False, detail=f"raised {res.__name__}")
            return
        if not (isinstance(res, tuple) and len(res) == 2):
            path.prove(f"{q}/ensures.shape", False, detail="result is not a pair")
            return
        path.prove(f"{q}/ensures.reduced", all(_reduced(v, K) for v in res), detail="coordinates reduced")
        rx, ry = [_fld(v, K) for v in res]
        A = abs_jac(path, p)
        if A is None:
            path.prove(f"{q}/ensures.abs", FAtom(rx.r.n, True), detail="identity maps to (0, 0)")
            path.prove(f"{q}/ensures.abs", FAtom(ry.r.n, True), detail="identity maps to (0, 0)")
        else:
            path.prove(f"{q}/ensures.abs", FAtom((rx - A[0]).r.n, True), detail="x = X/Z^2")
            path.prove(f"{q}/ensures.abs", FAtom((ry - A[1]).r.n, True), detail="y = Y/Z^3")
    ctx.ex.run(body, q)


UNITS["secp.jacobian_double"] = Unit("secp.jacobian_double", u_secp_jdouble, [f"{SECP}.jacobian_double"],
                                     props=("C13", "C18", "C19", "C06"))
UNITS["secp.jacobian_add"] = Unit("secp.jacobian_add", u_secp_jadd, [f"{SECP}.jacobian_add"], props=("C13", "C18", "C19", "C06"))
UNITS["secp.to_jacobian"] = Unit("secp.to_jacobian", u_secp_to_jacobian, [f"{SECP}.to_jacobian"], props=("C18", "C06"))
UNITS["secp.from_jacobian"] = Unit("secp.from_jacobian", u_secp_from_jacobian, [f"{SECP}.from_jacobian"],
                                   props=("C18", "C19", "C06"))


# ------------------------------------------------------------------------------------------
# reference (affine) modules: the code *is* the affine law; obligations: results valid, the
# case split matches the spec on every path, the internal `raise` is unreachable (C07)
# ------------------------------------------------------------------------------------------
REF_MODULES = ["py_ecc.bls12_381.bls12_381_curve", "py_ecc.bn128.bn128_curve"]


def sym_aff(path, tag, K, b):
    """a valid reference-module point: None or an on-curve pair (forks)"""
    if path.choose(2, f"p{tag}") == 0:
        path.sig[-1] = f"p{tag}=None"
        return None
    path.sig[-1] = f"p{tag}=finite"
    x, y = fsym(f"x{tag}", K), fsym(f"y{tag}", K)
    path.assume(y * y == x * x * x + b, f"on-curve{tag}")
    return (x, y)


def prove_aff_result(path, name, res, spec_pt, b):
    if spec_pt is None:
        path.prove(f"{name}/ensures.abs", res is None, detail=f"spec result is O; got {res!r}"[:200])
        return
    if not (isinstance(res, tuple) and len(res) == 2):
        path.prove(f"{name}/ensures.abs", False, detail=f"spec result is finite; got {res!r}"[:200])
        return
    x, y = _fld(res[0]), _fld(res[1])
    path.prove(f"{name}/ensures.abs", x == spec_pt[0], detail="x = X_spec")
    path.prove(f"{name}/ensures.abs", y == spec_pt[1], detail="y = Y_spec")
    path.prove(f"{name}/ensures.valid", y * y == x * x * x + b, detail="result on curve")


class AffDoubleContract:
    def __init__(self, b):
        self.b = b

    def apply(self, interp, fv, env):
        path = cur()
        p = list(env.values())[0]
        S = ec_add(p, p)
        if S is None:
            return None
        K = S[0].kind
        k = next(path.fresh_id)
        rx, ry = fsym(f"dx{k}", K), fsym(f"dy{k}", K)
        path.assume(rx == S[0], "double.ensures.x")
        path.assume(ry == S[1], "double.ensures.y")
        return (rx, ry)


def _ref_unit(ctx, modname, name, nargs, spec, contracts=None):
    q = f"{modname}.{name}"
    fv = get_function(ctx.prog, q)

    def body(path):
        new_path_setup(path)
        K = FldKind("F")
        b = fsym("b", K)
        pts = [sym_aff(path, str(i + 1), K, b) for i in range(nargs)]
        cons = contracts(b) if contracts else None
        kind, res = call_top(mk_interp(ctx, q, contracts=cons), fv, pts)
        if kind == "raise":
            path.prove(f"{q}/raises.none", False, detail=f"raised {res.__name__} on valid input (must be unreachable)")
            return
        prove_aff_result(path, q, res, spec(*pts), b)
    ctx.ex.run(body, q)


def u_ref_double(ctx, modname):
    _ref_unit(ctx, modname, "double", 1, lambda p: ec_add(p, p))


def u_ref_add(ctx, modname):
    _ref_unit(ctx, modname, "add", 2, ec_add, contracts=lambda b: {f"{modname}.double": AffDoubleContract(b)})


def u_ref_neg(ctx, modname):
    _ref_unit(ctx, modname, "neg", 1, ec_neg)


def u_ref_eq(ctx, modname):
    q = f"{modname}.eq"
    fv = get_function(ctx.prog, q)

    def body(path):
        new_path_setup(path)
        K = FldKind("F")
        b = fsym("b", K)
        p1, p2 = sym_aff(path, "1", K, b), sym_aff(path, "2", K, b)
        kind, res = call_top(mk_interp(ctx, q), fv, [p1, p2])
        if kind == "raise":
            path.prove(f"{q}/raises.none", False, detail=f"raised {res.__name__}")
            return
        got = _as_bool(path, res, "eq")
        if p1 is None or p2 is None:
            path.prove(f"{q}/ensures.iff", got == (p1 is None and p2 is None))
            return
        if got:
            path.prove(f"{q}/ensures.iff", p1[0] == p2[0])
            path.prove(f"{q}/ensures.iff", p1[1] == p2[1])
        elif path.case(p1[0] == p2[0], "spec.x1=x2?"):
            path.prove(f"{q}/ensures.iff", p1[1] != p2[1], detail="eq returned False although the points are equal")
    ctx.ex.run(body, q)


def u_ref_is_on_curve(ctx, modname):
    q = f"{modname}.is_on_curve"
    fv = get_function(ctx.prog, q)

    def body(path):
        K = FldKind("F")
        b = fsym("b", K)
        if path.choose(2, "pt") == 0:
            path.sig[-1] = "pt=None"
            pt = None
        else:
            path.sig[-1] = "pt=finite"
            pt = (fsym("x1", K), fsym("y1", K))
        kind, res = call_top(mk_interp(ctx, q), fv, [pt, b])
        if kind == "raise":
            path.prove(f"{q}/raises.none", False, detail=f"raised {res.__name__}")
            return
        got = _as_bool(path, res, "is_on_curve")
        if pt is None:
            path.prove(f"{q}/ensures.iff", got is True, detail="infinity is on the curve")
            return
        x, y = pt
        path.prove(f"{q}/ensures.iff", (y * y == x * x * x + b) if got else (y * y != x * x * x + b),
                   detail=f"returned {got}")
    ctx.ex.run(body, q)


def u_ref_is_inf(ctx, modname):
    q = f"{modname}.is_inf"
    fv = get_function(ctx.prog, q)

    def body(path):
        K = FldKind("F")
        b = fsym("b", K)
        pt = sym_aff(path, "1", K, b)
        kind, res = call_top(mk_interp(ctx, q), fv, [pt])
        if kind == "raise":
            path.prove(f"{q}/raises.none", False, detail=f"raised {res.__name__}")
            return
        got = _as_bool(path, res, "is_inf")
        path.prove(f"{q}/ensures.iff", got == (pt is None))
    ctx.ex.run(body, q)


def u_ref_linefunc(ctx, modname):
    q = f"{modname}.linefunc"
    fv = get_function(ctx.prog, q)

    def body(path):
        new_path_setup(path)
        K = FldKind("F")
        b = fsym("b", K)
        pts = []
        for tag in ("1", "2"):
            x, y = fsym(f"x{tag}", K), fsym(f"y{tag}", K)
            path.assume(y * y == x * x * x + b, f"on-curve{tag}")
            pts.append((x, y))
        T = (fsym("xt", K), fsym("yt", K))
        kind, res = call_top(mk_interp(ctx, q), fv, pts + [T])
        if kind == "raise":
            path.prove(f"{q}/raises.none", False, detail=f"raised {res.__name__} on finite points")
            return
        path.prove(f"{q}/ensures.value", _fld(res) == line_spec(pts[0], pts[1], T),
                   detail="res = affine line function")
    ctx.ex.run(body, q)


REF_PAIRING = {"py_ecc.bls12_381.bls12_381_curve": "py_ecc.bls12_381.bls12_381_pairing",
               "py_ecc.bn128.bn128_curve": "py_ecc.bn128.bn128_pairing"}

for _m in REF_MODULES:
    _s = _m.split(".")[1]
    for _n, _f in [("double", u_ref_double), ("add", u_ref_add), ("neg", u_ref_neg), ("eq", u_ref_eq),
                   ("is_on_curve", u_ref_is_on_curve), ("is_inf", u_ref_is_inf)]:
        UNITS[f"{_s}.{_n}"] = Unit(f"{_s}.{_n}", _f, [f"{_m}.{_n}"], props=("C07",), args=(_m,))
    _pm = REF_PAIRING[_m]
    UNITS[f"{_s}.linefunc"] = Unit(f"{_s}.linefunc", u_ref_linefunc, [f"{_pm}.linefunc"], props=("C05",), args=(_pm,))


# ------------------------------------------------------------------------------------------
# twist: E'(F_p2) -> E(F_p12)  (C07).  Real field classes of the curve (concrete prime and modulus polynomials),
# symbolic coordinates; polyid with the known characteristic p.
# ------------------------------------------------------------------------------------------
TWIST_MODS = {"py_ecc.bn128.bn128_curve": ("bn128", False), "py_ecc.optimized_bn128.optimized_curve": ("bn128", True),
              "py_ecc.bls12_381.bls12_381_curve": ("bls12_381", False), "py_ecc.optimized_bls12_381.optimized_curve": ("bls12_381", True)}


def _coeffs(o):
    from contracts.fields import coeff_abs
    return [coeff_abs(c, None) if not isinstance(c, int) else c for c in o.attrs["coeffs"]]


def u_twist(ctx, modname):
    from pyvc.core import PToken
    from pyvc.interp import Obj
    from contracts.fields import call_method, coeff_abs
    curve, opt = TWIST_MODS[modname]
    q = f"{modname}.twist"
    fv = get_function(ctx.prog, q)

    def body(path):
        it = mk_interp(ctx, q)
        mod = it.prog.load(modname)
        p = it.module_value(mod, "field_modulus")
        path.pc.char = p
        K = FldKind("ZmodP", modulus=p)
        FQ2c = it.module_value(mod, "FQ2")
        FQ12c = it.module_value(mod, "FQ12")
        b2, b12 = it.module_value(mod, "b2"), it.module_value(mod, "b12")

        def sym2(nm):
            return it.instantiate(FQ2c, [[Fld(PR_(f"{nm}0"), K, reduced=True), Fld(PR_(f"{nm}1"), K, reduced=True)]], {})

        def op(a, name, *args):
            k_, r_ = call_method(it, a, name, list(args))
            if k_ == "raise":
                raise Unsupported(f"field operation {name} raised {r_.__name__}")
            return r_

        def cf(o):
            return [coeff_abs(c, K) for c in o.attrs["coeffs"]]
        X, Y = sym2("x"), sym2("y")
        if opt:
            Z = sym2("z")
            path.assume(FAtom((cf(Z)[0] * cf(Z)[0] + cf(Z)[1] * cf(Z)[1]).r.n, False), "z != 0 in F_p2 (norm non-zero)")
            lhs = op(op(op(Y, "__mul__", Y), "__mul__", Z), "__sub__", op(op(op(X, "__mul__", X), "__mul__", X), "__add__",
                     op(b2, "__mul__", op(op(Z, "__mul__", Z), "__mul__", Z))))
            pt = (X, Y, Z)
        else:
            lhs = op(op(Y, "__mul__", Y), "__sub__", op(op(op(X, "__mul__", X), "__mul__", X), "__add__", b2))
            pt = (X, Y)
        for c in cf(lhs):
            path.assume(FAtom(c.r.n, True), "requires: the point is on the twist E'(F_p2)")
        it.cfg.top = q
        kind, res = call_top(it, fv, [pt])
        if kind == "raise":
            path.prove(f"{q}/raises.none", False, detail=res.__name__)
            return
        n = 3 if opt else 2
        ok = isinstance(res, tuple) and len(res) == n and all(isinstance(c, Obj) and c.cls.is_subclass(FQ12c) for c in res)
        path.prove(f"{q}/ensures.shape", ok, detail="a point with FQ12 coordinates")
        if not ok:
            return
        if opt:
            rx, ry, rz = res
            e = op(op(op(ry, "__mul__", ry), "__mul__", rz), "__sub__", op(op(op(rx, "__mul__", rx), "__mul__", rx), "__add__",
                   op(b12, "__mul__", op(op(rz, "__mul__", rz), "__mul__", rz))))
        else:
            rx, ry = res
            e = op(op(ry, "__mul__", ry), "__sub__", op(op(op(rx, "__mul__", rx), "__mul__", rx), "__add__", b12))
        for i, c in enumerate(cf(e)):
            path.prove(f"{q}/ensures.on-curve", FAtom(c.r.n, True), detail=f"twist(pt) satisfies y^2 = x^3 + b12 in F_p12 (coefficient of w^{i})")
    ctx.ex.run(body, q)
    ctx.trust("twist is the composition of the field embedding iota: F_p2 -> F_p12 (closed fact twist.embedding) with the scaling "
              "(x, y) -> (x c^2, y c^3), an injective group homomorphism (Lean GroupLaw.lean scalePt_specAdd, scalePt_injective)")


def u_twist_agree(ctx, curve):
    """optimized twist and reference twist agree: for every affine (x, y) in F_p2 x F_p2 and every z != 0,
    optimized.twist((x z, y z, z)) is a projective representative of reference.twist((x, y)):
        rx = RX * rz,  ry = RY * rz   in F_p12 (12 coefficient identities each; real field classes, polyid with char p)."""
    from pyvc.interp import Obj
    from contracts.fields import call_method, coeff_abs
    mref = [m for m, (c, o) in TWIST_MODS.items() if c == curve and not o][0]
    mopt = [m for m, (c, o) in TWIST_MODS.items() if c == curve and o][0]
    name = f"{mopt}.twist[= reference]"

    def body(path):
        it = mk_interp(ctx, f"{mopt}.twist")
        Mr, Mo = it.prog.load(mref), it.prog.load(mopt)
        p = it.module_value(Mo, "field_modulus")
        path.prove(f"{name}/same-modulus", it.module_value(Mr, "field_modulus") == p, detail="both modules over the same prime")
        path.pc.char = p
        K = FldKind("ZmodP", modulus=p)
        F2o, F12o = it.module_value(Mo, "FQ2"), it.module_value(Mo, "FQ12")
        F2r = it.module_value(Mr, "FQ2")

        def op(a, nm, *args):
            k_, r_ = call_method(it, a, nm, list(args))
            if k_ == "raise":
                raise Unsupported(f"field operation {nm} raised {r_.__name__}")
            return r_

        def cf(o):
            return [coeff_abs(c, K) for c in o.attrs["coeffs"]]
        xs = [Fld(PR_(f"x{i}"), K, reduced=True) for i in range(2)]
        ys = [Fld(PR_(f"y{i}"), K, reduced=True) for i in range(2)]
        zs = [Fld(PR_(f"z{i}"), K, reduced=True) for i in range(2)]
        xo, yo, zo = (it.instantiate(F2o, [list(v)], {}) for v in (xs, ys, zs))
        xr, yr = (it.instantiate(F2r, [list(v)], {}) for v in (xs, ys))
        path.assume(FAtom((zs[0] * zs[0] + zs[1] * zs[1]).r.n, False), "z != 0 in F_p2 (norm non-zero)")
        X, Y = op(xo, "__mul__", zo), op(yo, "__mul__", zo)
        it.cfg.top = f"{mopt}.twist"
        k1, ro = call_top(it, get_function(ctx.prog, f"{mopt}.twist"), [(X, Y, zo)])
        it.cfg.top = f"{mref}.twist"
        k2, rr = call_top(it, get_function(ctx.prog, f"{mref}.twist"), [(xr, yr)])
        ok = k1 == "ret" and k2 == "ret" and isinstance(ro, tuple) and len(ro) == 3 and isinstance(rr, tuple) and len(rr) == 2
        path.prove(f"{name}/ensures.shape", ok, detail="both return points with FQ12 coordinates")
        if not ok:
            return
        rx, ry, rz = ro
        for lab, a, R_ in (("x", rx, rr[0]), ("y", ry, rr[1])):
            Ro = it.instantiate(F12o, [cf(R_)], {})            # the reference coordinate, read in the optimized class
            prod = op(Ro, "__mul__", rz)
            for i, (u, v) in enumerate(zip(cf(a), cf(prod))):
                path.prove(f"{name}/ensures.{lab}", FAtom((u - v).r.n, True),
                           detail=f"optimized {lab}-coordinate = reference {lab}-coordinate * z (coefficient of w^{i})")
    ctx.ex.run(body, name)


def PR_(name):
    from pyvc.poly import Poly, R as _R
    return _R(Poly.var(name))


for _m, (_c, _o) in TWIST_MODS.items():
    _s = _m.split(".")[1]
    UNITS[f"{_s}.twist"] = Unit(f"{_s}.twist", u_twist, [f"{_m}.twist"], props=("C07", "C05"), args=(_m,), budget_s=300)
for _c in ("bn128", "bls12_381"):
    UNITS[f"twist.agree.{_c}"] = Unit(f"twist.agree.{_c}", u_twist_agree,
                                      [m + ".twist" for m, (c, o) in TWIST_MODS.items() if c == _c], props=("C07", "C12"), args=(_c,), budget_s=300)
