"""L5 hashing contracts (DESIGN §4 L5): hkdf_extract / hkdf_expand (RFC 5869), expand_message_xmd and
hash_to_field (RFC 9380 §5), KeyGen (BLS draft v4 §2.3) — over an UNINTERPRETED hash: the proofs hold
for every hash function with the stated digest/block sizes.  z3 sequences; cvc5 for z3's unknowns."""
from __future__ import annotations

import z3

from pyvc.core import ZAtom, Unsupported, cur, PathAbort
from pyvc.interp import PyRaise
from pyvc.loops import Z3Loop
from pyvc.pymodel import HashFn, SymBytesList, hmac_uf, hash_uf, _strxor, MutBytes
from pyvc.sym import SInt, SBytes, zt, bt, BytesSort, IntSort, os2ip_sym, _os2ip, _i2osp, bytes_const
from pyvc.unit import Unit
from contracts.curves import get_function, mk_interp, call_top

UNITS = {}
HASH = "py_ecc.bls.hash"
B = BytesSort


def byte(t):
    return z3.Unit(z3.Int2BV(t, 8))


# ------------------------------------------------------------------------------------------
# hkdf
# ------------------------------------------------------------------------------------------
def u_hkdf_extract(ctx):
    q = f"{HASH}.hkdf_extract"
    fv = get_function(ctx.prog, q)

    def body(path):
        salt, ikm = SBytes.var("salt"), SBytes.var("ikm")
        kind, res = call_top(mk_interp(ctx, q), fv, [salt, ikm])
        if kind == "raise":
            path.prove(f"{q}/raises.none", False, detail=res.__name__)
            return
        path.prove(f"{q}/ensures.rfc5869", ZAtom(bt(res) == hmac_uf("sha256")(salt.t, ikm.t)),
                   detail="PRK = HMAC-SHA256(salt, IKM)   (RFC 5869 section 2.2)")
        path.prove(f"{q}/ensures.len", ZAtom(z3.Length(bt(res)) == 32))
    ctx.ex.run(body, q)


def hkdf_spec_funcs(prk, info):
    """RFC 5869 section 2.3:  T(0) = empty, T(i) = HMAC(PRK, T(i-1) | info | i);  Tc(i) = T(1) | ... | T(i)"""
    T = z3.Function("hkdf.T", IntSort, B)
    Tc = z3.Function("hkdf.Tcat", IntSort, B)
    H = hmac_uf("sha256")

    def instance(i):
        return [T(i + 1) == H(prk, z3.Concat(T(i), info, byte(i + 1))),
                Tc(i + 1) == z3.Concat(Tc(i), T(i + 1)),
                z3.Length(T(i + 1)) == 32]
    base = [T(0) == z3.Empty(B), Tc(0) == z3.Empty(B)]
    return T, Tc, instance, base


def u_hkdf_expand(ctx):
    q = f"{HASH}.hkdf_expand"
    fv = get_function(ctx.prog, q)

    def body(path):
        prk, info = SBytes.var("prk"), SBytes.var("info")
        L = SInt(z3.Int("length"))
        path.assume(ZAtom(z3.And(zt(L) >= 0, zt(L) <= 255 * 32)), "requires 0 <= length <= 255*32")
        T, Tc, inst, base = hkdf_spec_funcs(prk.t, info.t)
        for t in base:
            path.assume(t, "RFC 5869 T(0)")

        def inv(env, gh):
            i = zt(env["i"])
            n = zt(env["n"])
            return [("index", z3.And(0 <= i, i <= n)),
                    ("okm", bt(env["okm"]) == Tc(i)),
                    ("previous", bt(env["previous"]) == T(i)),
                    ("len", z3.Length(bt(env["okm"])) == 32 * i)]
        loop = Z3Loop(f"{q}/loop0", ["okm", "previous", "text"], inv, for_lo=0,
                      lemmas=lambda env, gh: inst(zt(env["i"])),
                      measure=lambda env: zt(env["n"]) - zt(env["i"]))
        # `text` is assigned in the body only: give it a value at entry so it can be havocked
        it = mk_interp(ctx, q, loops={(q, 0): _PreBind(loop, {"text": b""})})
        kind, res = call_top(it, fv, [prk, info, L])
        if kind == "raise":
            path.prove(f"{q}/raises.none", False, detail=f"raised {res.__name__} for a length within 255*32")
            return
        n = path.ghost.get(f"loop-env:{q}/loop0", {}).get("n")
        path.prove(f"{q}/ensures.len", ZAtom(z3.Length(bt(res)) == zt(L)), detail="exactly `length` bytes")
        path.prove(f"{q}/ensures.rfc5869", ZAtom(bt(res) == z3.SubSeq(Tc(zt(n)), 0, zt(L))),
                   detail="OKM = first L octets of T(1) | ... | T(ceil(L/32))   (RFC 5869 section 2.3)")
        q_, r_ = z3.Ints("qq rr")
        path.prove(f"{q}/ensures.blocks", ZAtom(z3.And(32 * zt(n) >= zt(L), 32 * zt(n) < zt(L) + 32)),
                   detail="N = ceil(L / HashLen)")
    ctx.ex.run(body, q)
    ctx.trust("hashlib.sha256 / hmac.new(...).digest() are functions with 32-byte output (uninterpreted: holds for any hash)")


class _PreBind:
    """binds body-local names before the loop so that the generic contract can havoc them"""

    def __init__(self, loop, binds):
        self.loop, self.binds = loop, binds

    def run_for(self, interp, st, fr):
        for k, v in self.binds.items():
            fr.env.setdefault(k, v)
        return self.loop.run_for(interp, st, fr)

    def run_while(self, interp, st, fr):
        for k, v in self.binds.items():
            fr.env.setdefault(k, v)
        return self.loop.run_while(interp, st, fr)


UNITS["hash.hkdf_extract"] = Unit("hash.hkdf_extract", u_hkdf_extract, [f"{HASH}.hkdf_extract"], props=("C16",))
UNITS["hash.hkdf_expand"] = Unit("hash.hkdf_expand", u_hkdf_expand, [f"{HASH}.hkdf_expand"], props=("C16",))


# ------------------------------------------------------------------------------------------
# expand_message_xmd (RFC 9380 section 5.3.1) for every message, tag, length and hash
# ------------------------------------------------------------------------------------------
def xmd_spec(Hname, msg, DST, L, bsz, ssz):
    """terms of the RFC recurrence over the uninterpreted hash H:
       DST' = DST | I2OSP(len(DST), 1);  b_0 = H(Z_pad | msg | I2OSP(L, 2) | 0x00 | DST')
       b_1 = H(b_0 | 0x01 | DST');  b_i = H(strxor(b_0, b_(i-1)) | I2OSP(i, 1) | DST');  cat(i) = b_1 | ... | b_i"""
    from pyvc.pymodel import _brepeat
    H = hash_uf(Hname)
    DSTp = z3.Concat(DST, _i2osp(z3.Length(DST), z3.IntVal(1)))
    zpad = _brepeat(bytes_const(b"\x00"), ssz)
    b0 = H(z3.Concat(zpad, msg, _i2osp(L, z3.IntVal(2)), bytes_const(b"\x00"), DSTp))
    blk = z3.Function("xmd.b", IntSort, B)
    cat = z3.Function("xmd.cat", IntSort, B)

    def instance(i):        # definitions of b_i and cat(i) for i >= 2
        return [blk(i) == H(z3.Concat(_strxor(b0, blk(i - 1)), _i2osp(i, z3.IntVal(1)), DSTp)),
                cat(i) == z3.Concat(cat(i - 1), blk(i)),
                z3.Length(blk(i)) == bsz]
    base = [blk(1) == H(z3.Concat(b0, bytes_const(b"\x01"), DSTp)), cat(1) == blk(1), z3.Length(blk(1)) == bsz,
            cat(0) == z3.Empty(B)]
    return blk, cat, instance, base, b0, DSTp


def sym_hash(path, name="Hsym"):
    bsz, ssz = SInt(z3.Int("b_in_bytes")), SInt(z3.Int("r_in_bytes"))
    path.assume(ZAtom(z3.And(zt(bsz) >= 1, zt(bsz) <= 257, zt(ssz) >= 1)),
                "hash object: 1 <= digest_size <= 257 (every fixed-output hashlib function: <= 64), block_size >= 1")
    return HashFn(name, bsz, ssz), bsz, ssz


def u_expand_message_xmd(ctx):
    q = f"{HASH}.expand_message_xmd"
    fv = get_function(ctx.prog, q)

    def body(path):
        msg, DST = SBytes.var("msg"), SBytes.var("DST")
        L = SInt(z3.Int("len_in_bytes"))
        path.assume(L >= 0, "requires len_in_bytes >= 0")
        Hf, bsz, ssz = sym_hash(path)
        blk, cat, inst, base, b0, DSTp = xmd_spec("Hsym", msg.t, DST.t, zt(L), zt(bsz), zt(ssz))
        for t in base:
            path.assume(t, "RFC 9380 5.3.1 b_1 / cat(1)")

        def as_list(b):
            return b if isinstance(b, SymBytesList) else SymBytesList.from_concrete(b)

        def inv(env, gh):
            i, ell = zt(env["i"]), zt(env["ell"])
            b = as_list(env["b"])
            return [("index", z3.And(2 <= i, i <= z3.If(ell >= 1, ell, 1) + 1)),
                    # every completed iteration k < i passed I2OSP(k, 1), i.e. k <= 255
                    ("i2osp-ok", i <= 256),
                    ("count", zt(b.n) == i - 1),
                    ("cat", b.joined.t == cat(i - 1)),
                    ("last", z3.Select(b.arr, i - 2) == blk(i - 1)),
                    ("len", z3.Length(b.joined.t) == zt(bsz) * (i - 1))]
        loop = Z3Loop(f"{q}/loop0", ["b"], inv, for_lo=2, lemmas=lambda env, gh: inst(zt(env["i"])),
                      measure=lambda env: zt(env["ell"]) + 1 - zt(env["i"]))
        it = mk_interp(ctx, q, loops={(q, 0): loop})
        kind, res = call_top(it, fv, [msg, DST, L, Hf])
        # ell = ceil(L / b) through purified witnesses: L = b*q + r
        from pyvc.sym import sdivmod
        qq, rr = sdivmod(L, bsz)
        ell = z3.If(zt(rr) == 0, zt(qq), zt(qq) + 1)
        refuse = z3.Or(z3.Length(DST.t) > 255, ell > 255)
        if kind == "raise":
            path.prove(f"{q}/raises.iff", ZAtom(refuse),
                       detail=f"raised {res.__name__}: must be a refused input (len(DST) > 255 or ceil(L/b) > 255)")
            return
        path.prove(f"{q}/raises.iff", ZAtom(z3.Not(refuse)), detail="returned bytes: input must not be one that is to be refused")
        path.prove(f"{q}/ensures.len", ZAtom(z3.Length(bt(res)) == zt(L)), detail="exactly len_in_bytes bytes")
        path.prove(f"{q}/ensures.rfc9380", ZAtom(bt(res) == z3.SubSeq(cat(z3.If(ell >= 1, ell, 1)), 0, zt(L))),
                   detail="uniform_bytes = first L octets of b_1 | ... | b_ell")
    ctx.ex.run(body, q)
    ctx.trust("hashlib objects are functions of their input with fixed digest_size / block_size (uninterpreted H)")
    ctx.note("raises clause: 'refuses by raising' — no exception type is imposed (property text); the RFC's third abort "
             "condition L > 65535 is implied by ell <= 255 for digest sizes <= 257")


UNITS["hash.expand_message_xmd"] = Unit("hash.expand_message_xmd", u_expand_message_xmd,
                                        [f"{HASH}.expand_message_xmd", f"{HASH}.xor", f"{HASH}.i2osp"], props=("C15", "C10"))


# ------------------------------------------------------------------------------------------
# hash_to_field (RFC 9380 section 5.2), for every count
# ------------------------------------------------------------------------------------------
H2C = "py_ecc.bls.hash_to_curve"
P_BLS = 0x1a0111ea397fe69a4b1ba7b6434bacd764774b84f38512bf6730d2a0f6b0f6241eabfffeb153ffffb9feffffffffaaab
_XMD = z3.Function("XMD", B, B, IntSort, B)          # expand_message_xmd(msg, DST, L) for the fixed hash


class XmdContract:
    """expand_message_xmd at a call site: requires len(DST) <= 255 and ceil(L/b) <= 255 for a normal
    return; ensures len(res) = L and res = XMD_spec(msg, DST, L)   (unit hash.expand_message_xmd)"""

    def __init__(self, top):
        self.top = top
        self.calls = []

    def apply(self, interp, fv, env):
        path = cur()
        msg, DST, L, hf = env["msg"], env["DST"], env["len_in_bytes"], env["hash_function"]
        self.calls.append((msg, DST, L, hf))
        t = _XMD(bt(msg), bt(DST), zt(L))
        path.zc.append(z3.Length(t) == zt(L))
        return SBytes(t)


class HtfLoop:
    """for i in range(0, count): the body is verified for a symbolic index i (0 <= i < count) on an empty
    accumulator: exactly one element is appended and it equals the section 5.2 element i.  (The list `u`
    of field objects is then the count elements in order; concrete counts are checked end-to-end too.)"""

    def __init__(self, name, M, check_elem):
        self.name, self.M, self.check_elem = name, M, check_elem

    def run_for(self, interp, st, fr):
        path = cur()
        count = fr.env["count"]
        import ast as _a
        from pyvc.loops import require_declared
        require_declared(st, fr, {"u", "i"} | {n.id for n in _a.walk(st.target) if isinstance(n, _a.Name)}, self.name)
        prev, path.in_source = path.in_source, False
        try:
            i = SInt(z3.Int("i"))
            path.assume(ZAtom(z3.And(zt(i) >= 0, zt(i) < zt(count))), "0 <= i < count")
            fr.env["i"] = i
            fr.env["u"] = []
            path.in_source = True
            interp.exec_block(st.body, fr)
            path.in_source = False
            u = fr.env["u"]
            path.prove(f"{self.name}/loop0/one-element-per-iteration", isinstance(u, list) and len(u) == 1, kind="invariant")
            if isinstance(u, list) and len(u) == 1:
                self.check_elem(path, i, u[0], fr.env["pseudo_random_bytes"])
            raise PathAbort()
        finally:
            path.in_source = prev


def _htf_unit(ctx, fname, M):
    q = f"{H2C}.{fname}"
    fv = get_function(ctx.prog, q)

    def elem_spec(prb, i, j):
        off = z3.simplify(64 * (j + zt(i) * M))
        return _os2ip(z3.SubSeq(prb, off, z3.IntVal(64)))

    def coeffs_of(e):
        from pyvc.interp import Obj
        if isinstance(e, Obj) and "coeffs" in e.attrs:
            return list(e.attrs["coeffs"])
        if isinstance(e, Obj) and "n" in e.attrs:
            return [e.attrs["n"]]
        raise Unsupported("hash_to_field element is not a field object")

    def check_elem(path, i, e, prb):
        cs = coeffs_of(e)
        path.prove(f"{q}/ensures.arity", len(cs) == M, detail="m coordinates per element")
        Lp = z3.Length(bt(prb))
        for j, c in enumerate(cs):
            kq, kr = z3.Int(f"kq{j}"), z3.Int(f"kr{j}")
            spec = elem_spec(bt(prb), i, j)
            path.prove(f"{q}/ensures.rfc9380", ZAtom(z3.And(zt(c) >= 0, zt(c) < P_BLS, zt(c) == spec % P_BLS)),
                       detail=f"coordinate {j} = OS2IP(uniform_bytes[64*(j + i*m) : +64]) mod p")
            path.prove(f"{q}/safety.slice", ZAtom(64 * (j + zt(i) * M) + 64 <= Lp),
                       detail="the 64-byte window lies inside the expanded bytes", kind="safety")

    def body(path):
        msg, DST = SBytes.var("msg"), SBytes.var("DST")
        count = SInt(z3.Int("count"))
        path.assume(count >= 0, "count >= 0")
        from contracts.hashing import sym_hash
        Hf, _, _ = sym_hash(path)
        xc = XmdContract(q)
        it = mk_interp(ctx, q, contracts={f"{HASH}.expand_message_xmd": xc},
                       loops={(q, 0): HtfLoop(q, M, check_elem)})
        kind, res = call_top(it, fv, [msg, count, DST, Hf])
        if kind == "raise":
            path.prove(f"{q}/raises.none", False, detail=res.__name__)
            return
        # only reached when the loop contract did not take over (cannot happen for a symbolic count)
        path.prove(f"{q}/loop-contract-applied", False, detail="the element loop was not found at ordinal 0")
    ctx.ex.run(body, q)

    def body_concrete(path):
        # end-to-end for concrete counts: the returned tuple has `count` elements, in order
        k = path.choose(4, "count")
        path.sig[-1] = f"count={k}"
        for count in (k,):
            msg, DST = SBytes.var("msg"), SBytes.var("DST")
            Hf, _, _ = sym_hash(path)
            xc = XmdContract(q)
            it = mk_interp(ctx, q, contracts={f"{HASH}.expand_message_xmd": xc})
            kind, res = call_top(it, fv, [msg, count, DST, Hf])
            if kind == "raise":
                path.prove(f"{q}/raises.none", False, detail=res.__name__)
                return
            path.prove(f"{q}/ensures.count", isinstance(res, tuple) and len(res) == count, detail=f"count = {count} elements")
            ok = len(xc.calls) == 1 and isinstance(xc.calls[0][2], int) and xc.calls[0][2] == count * M * 64
            path.prove(f"{q}/ensures.len_in_bytes", ok, detail="len_in_bytes = count * m * 64")
            ok2 = len(xc.calls) == 1 and xc.calls[0][0] is msg and xc.calls[0][1] is DST and xc.calls[0][3] is Hf
            path.prove(f"{q}/ensures.xmd-args", ok2, detail="expand_message_xmd(msg, DST, len_in_bytes, hash_function)")
            if isinstance(res, tuple):
                for i, e in enumerate(res):
                    check_elem(path, SInt(z3.IntVal(i)), e, SBytes(_XMD(msg.t, DST.t, z3.IntVal(count * M * 64))))
    ctx.ex.run(body_concrete, q)


def u_htf_fq2(ctx):
    _htf_unit(ctx, "hash_to_field_FQ2", 2)


def u_htf_fq(ctx):
    _htf_unit(ctx, "hash_to_field_FQ", 1)


UNITS["h2c.hash_to_field_FQ2"] = Unit("h2c.hash_to_field_FQ2", u_htf_fq2, [f"{H2C}.hash_to_field_FQ2"], props=("C15", "C10"))
UNITS["h2c.hash_to_field_FQ"] = Unit("h2c.hash_to_field_FQ", u_htf_fq, [f"{H2C}.hash_to_field_FQ"], props=("C15", "C10"))


# ------------------------------------------------------------------------------------------
# KeyGen (BLS signature draft v4 section 2.3), partial correctness
# ------------------------------------------------------------------------------------------
CS = "py_ecc.bls.ciphersuites"
R_BLS = 52435875175126190479447740508185965837690552500527637822603658699938581184513
_HKDFexp = z3.Function("HKDF-Expand", B, B, IntSort, B)


class HkdfExtractContract:
    def apply(self, interp, fv, env):
        path = cur()
        t = hmac_uf("sha256")(bt(env["salt"]), bt(env["ikm"]))
        path.zc.append(z3.Length(t) == 32)
        return SBytes(t)


class HkdfExpandContract:
    """hkdf_expand at a call site: requires 0 <= L <= 8160; ensures res = HKDF-Expand(prk, info, L), len = L"""

    def __init__(self, top):
        self.top = top

    def apply(self, interp, fv, env):
        path = cur()
        L = env["length"]
        path.prove(f"{self.top}/call[hkdf_expand]/requires", ZAtom(z3.And(zt(L) >= 0, zt(L) <= 8160)), kind="requires")
        t = _HKDFexp(bt(env["prk"]), bt(env["info"]), zt(L))
        path.zc.append(z3.Length(t) == zt(L))
        return SBytes(t)


def u_keygen(ctx):
    q = f"{CS}.BaseG2Ciphersuite.KeyGen"

    def body(path):
        it = mk_interp(ctx, q, contracts={f"{HASH}.hkdf_extract": HkdfExtractContract(),
                                          f"{HASH}.hkdf_expand": HkdfExpandContract(q)})
        mod = it.prog.load(CS)
        cls = it.module_value(mod, "BaseG2Ciphersuite")
        fv, _ = cls.lookup("KeyGen")
        IKM, info = SBytes.var("IKM"), SBytes.var("key_info")
        Hs = hash_uf("sha256")
        Hm = hmac_uf("sha256")
        # spec (draft v4 2.3):  salt_0 = "BLS-SIG-KEYGEN-SALT-", salt_k = H(salt_(k-1));
        #   cand(k) = OS2IP(HKDF-Expand(HKDF-Extract(salt_k, IKM || I2OSP(0,1)), key_info || I2OSP(48, 2), 48)) mod r
        #   result = cand(K) for the first K >= 1 with cand(K) != 0
        salt = z3.Function("keygen.salt", IntSort, B)
        cand = z3.Function("keygen.cand", IntSort, IntSort)
        allzero = z3.Function("keygen.allzero-before", IntSort, z3.BoolSort())
        path.assume(salt(0) == bytes_const(b"BLS-SIG-KEYGEN-SALT-"), "salt_0")
        path.assume(allzero(1), "no earlier candidate before round 1")

        def defs(k):
            okm = _HKDFexp(Hm(salt(k), z3.Concat(IKM.t, bytes_const(b"\x00"))),
                           z3.Concat(info.t, bytes_const((48).to_bytes(2, "big"))), z3.IntVal(48))
            return [salt(k) == Hs(salt(k - 1)), z3.Length(salt(k)) == 32,
                    cand(k) == _os2ip(okm) % R_BLS,
                    # 'all candidates before round k are zero', unfolded once at the previous round
                    z3.Implies(k - 1 >= 1, allzero(k) == z3.And(allzero(k - 1), cand(k - 1) == 0))]

        def inv(env, gh):
            k = gh["k"]
            if "SK" not in env:
                # the candidate is not a loop-carried variable (early-return form `while True: ...; if SK != 0: return SK`): at
                # the loop head every candidate so far was zero
                # (the clause `candidate` of the sentinel form — SK = cand(k) — has no loop-carried counterpart here: the value
                # returned from inside the body is tied to cand(k + 1) by the function's postcondition `ensures.draft-v4`)
                return [("round", k >= 0), ("salt", bt(env["salt"]) == salt(k)), ("candidate", z3.BoolVal(True)),
                        ("earlier-zero", allzero(k + 1))]
            SK = zt(env["SK"])
            return [("round", k >= 0), ("salt", bt(env["salt"]) == salt(k)),
                    ("candidate", z3.If(k == 0, SK == 0, SK == cand(k))),
                    ("earlier-zero", z3.If(k == 0, z3.BoolVal(True), allzero(k)))]

        def ghost_havoc(p):
            return dict(k=z3.Int(f"k!{next(p.fresh_id)}"))
        loop = Z3Loop(f"{q}/loop0", ["SK", "salt", "prk", "l", "okm"], inv,
                      ghost_init=lambda env: dict(k=z3.IntVal(0)), ghost_havoc=ghost_havoc,
                      ghost_step=lambda before, gh, after: dict(k=gh["k"] + 1),
                      lemmas=lambda env, gh: defs(gh["k"] + 1) + defs(gh["k"] + 2)[3:],
                      exit_lemmas=lambda env, gh: [z3.Implies(gh["k"] >= 1, z3.And(cand(gh["k"]) >= 0, cand(gh["k"]) < R_BLS))])
        it.cfg.loops[(q, 0)] = _PreBind(loop, {"prk": b"", "l": 0, "okm": b""})
        it.cfg.top = q
        try:
            res = it.call_function(fv, [cls, IKM, info], {}, recv=cls, force_inline=True)
        except PyRaise as pr:
            path.prove(f"{q}/raises.none", False, detail=pr.exc_cls.__name__)
            return
        gh = path.ghost.get(f"{'loop-ghost'}:{q}/loop0")
        K = gh["k"]
        path.prove(f"{q}/ensures.range", ZAtom(z3.And(zt(res) >= 1, zt(res) < R_BLS)), detail="1 <= SK < r")
        path.prove(f"{q}/ensures.draft-v4", ZAtom(z3.And(K >= 1, zt(res) == cand(K), allzero(K))),
                   detail="SK is the first non-zero candidate of the draft's KeyGen procedure")
    ctx.ex.run(body, q)
    ctx.assume("A-HASH: KeyGen's rejection loop terminates (needs a hash output with non-zero residue); partial correctness proved")
    ctx.note("l = ceil(1.5 * ceil(log2(r)) / 8) is a closed term evaluated to 48")


UNITS["bls.KeyGen"] = Unit("bls.KeyGen", u_keygen, [f"{CS}.BaseG2Ciphersuite.KeyGen"], props=("C16", "C01"))
