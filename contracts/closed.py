"""Closed-term units (eval back end) and citations of the Lean lemma library."""
from __future__ import annotations

import hashlib
import json
import os
import time

from pyvc.unit import Unit

UNITS = {}
HERE = os.path.dirname(os.path.dirname(os.path.abspath(__file__)))


def eval_facts(ctx, names):
    """evaluate closed facts on the real modules (harness `eval`); one obligation per fact"""
    from pyvc.report import harness
    t0 = time.time()
    ans = harness(["eval"], stdin=json.dumps(dict(names=list(names))), timeout=900)
    dt = time.time() - t0
    if "error" in ans:
        for n in names:
            ctx.closed(n, False, detail="harness error: " + str(ans["error"])[-600:], seconds=dt / len(names),
                       witness=dict(closed_fact=n))
        return False
    ok = True
    for n in names:
        r = ans["results"].get(n, dict(ok=False, detail="missing"))
        ok = ctx.closed(n, r["ok"], detail=r["detail"], seconds=dt / len(names), witness=dict(closed_fact=n)) and ok
    ctx.trust("closed-term facts are decided by one execution under the repository's CPython (eval back end)")
    return ok


def lean_cite(ctx, cites):
    """cites: list of (file, theorem, what).  Looks the theorem up in lean/STATUS.json (written by
    `./check --setup`, which runs lean on every file) and checks the file is unchanged since."""
    try:
        st = json.load(open(os.path.join(HERE, "lean", "STATUS.json")))
    except Exception:
        st = {"files": {}}
    try:
        hs = json.load(open(os.path.join(HERE, "lean", "HASHES.json")))
    except Exception:
        hs = {}
    out = []
    for f, thm, what in cites:
        info = st.get("files", {}).get(f, {})
        path = os.path.join(HERE, "lean", f)
        cur = hashlib.sha256(open(path, "rb").read()).hexdigest() if os.path.exists(path) else None
        checked = bool(info.get("ok")) and thm in info.get("theorems", []) and hs.get(f) == cur and cur is not None
        if checked:
            ctx.trust(f"Lean 4 + Mathlib kernel: lemma {f}:{thm} ({what}) type-checked by ./check --setup")
        else:
            ctx.assume(f"lemma {f}:{thm} ({what}) — stated in /verif/lean but not re-checked in this installation "
                       f"(run ./check --setup); assumed")
        out.append(dict(file=f, theorem=thm, what=what, lean_checked=checked))
    ctx.extra.setdefault("lean_lemmas", []).extend(out)
    return out


def _mk(name, facts, props, lean=()):
    def fn(ctx):
        eval_facts(ctx, facts)
        if lean:
            lean_cite(ctx, lean)
    UNITS[name] = Unit(name, fn, [], kind="closed", props=props)


L_GROUP = [("GroupLaw.lean", "toOpt_add", "the spec law is Mathlib's Weierstrass group law"),
           ("GroupLaw.lean", "specAdd_assoc", "associativity"), ("GroupLaw.lean", "specAdd_comm", "commutativity"),
           ("GroupLaw.lean", "specAdd_onCurve", "closure"), ("GroupLaw.lean", "specAdd_neg", "inverse"),
           ("GroupLaw.lean", "specAdd_none_left", "identity"), ("GroupLaw.lean", "specAdd_self", "double(P) = P + P"),
           ("Cyclic.lean", "smul_add_scalar", "(a+b).P = a.P + b.P"), ("Cyclic.lean", "smul_mul_scalar", "a.(b.P) = (ab).P"),
           ("Cyclic.lean", "zsmul_emod_order", "n.P = (n mod r).P when r.P = O")]

for _c in ("bls12_381", "bn128"):
    for _v in ("", "optimized_"):
        _t = f"{_v}{_c}"
        _mk(f"consts.{_t}", [f"{_t}.constants", f"{_t}.generators", f"{_t}.generators-on-curve",
                              f"{_t}.generators-order", f"{_t}.identity-constants", f"{_t}.char"], ("C07",))
_mk("consts.derivations", ["bls12_381.derivation", "bn128.derivation"], ("C07", "C17"), lean=L_GROUP)
_mk("consts.pairing-loops", ["pairing.loop-constants"], ("C05", "C12", "C07"))
_mk("consts.secp", ["secp.constants", "secp.generator", "secp.no-y0-point", "secp.p-3-mod-4", "secp.hasse"],
    ("C18", "C19", "C06"), lean=L_GROUP[:7])
_mk("consts.bls-cofactors", ["bls.cofactors", "bls.hasse-G1", "bls.q-constant", "bls.curve_order-in-g2_primitives",
                             "optimized_bls12_381.generators-order", "optimized_bls12_381.constants"], ("C17",),
    lean=[("Roots.lean", "subgroup_check_exact", "r.(kG + T) = O iff T = O when gcd(h, r) = 1 and h.T = O"),
          ("Roots.lean", "coprime_kill", "h.T = O and r.T = O and gcd(h, r) = 1 imply T = O"),
          ("Cyclic.lean", "zsmul_eq_zero_iff_dvd", "c.G = O iff r | c for G of prime order r")])
