"""Closed-term units (eval back end) and citations of the Lean lemma library."""
from __future__ import annotations

import hashlib
import json
import os
import time

from pyvc.unit import Unit

UNITS = {}
HERE = os.path.dirname(os.path.dirname(os.path.abspath(__file__)))


def eval_facts(ctx, names):
    """evaluate closed facts on the real modules (harness `eval`); one obligation per fact"""
    from pyvc.report import harness
    t0 = time.time()
    ans = harness(["eval"], stdin=json.dumps(dict(names=list(names))), timeout=900)
    dt = time.time() - t0
    if "error" in ans:
        for n in names:
            ctx.closed(n, False, detail="harness error: " + str(ans["error"])[-600:], seconds=dt / len(names),
                       witness=dict(closed_fact=n))
        return False
    ok = True
    for n in names:
        r = ans["results"].get(n, dict(ok=False, detail="missing"))
        wit = dict(closed_fact=n)
        if not r["ok"]:
            # a closed fact has no free input: its (re-runnable) evaluation on the real modules IS the failing execution
            wit["concrete"] = dict(found=True, function=f"eval:{n}", family="eval", input=dict(eval_fact=n), tried=1,
                                   why="closed fact evaluated on the real modules is false", observed=str(r.get("detail"))[:400])
        ok = ctx.closed(n, r["ok"], detail=r["detail"], seconds=dt / len(names), witness=wit) and ok
    ctx.trust("closed-term facts are decided by one execution under the repository's CPython (eval back end)")
    return ok


def lean_cite(ctx, cites):
    """cites: list of (file, theorem, what).  Looks the theorem up in lean/STATUS.json (written by
    `./check --setup`, which runs lean on every file) and checks the file is unchanged since."""
    try:
        st = json.load(open(os.path.join(HERE, "lean", "STATUS.json")))
    except Exception:
        st = {"files": {}}
    try:
        hs = json.load(open(os.path.join(HERE, "lean", "HASHES.json")))
    except Exception:
        hs = {}
    out = []
    for f, thm, what in cites:
        info = st.get("files", {}).get(f, {})
        path = os.path.join(HERE, "lean", f)
        cur = hashlib.sha256(open(path, "rb").read()).hexdigest() if os.path.exists(path) else None
        checked = bool(info.get("ok")) and thm in info.get("theorems", []) and hs.get(f) == cur and cur is not None
        if checked:
            ctx.trust(f"Lean 4 + Mathlib kernel: lemma {f}:{thm} ({what}) type-checked by ./check --setup")
        else:
            ctx.assume(f"lemma {f}:{thm} ({what}) — stated in /verif/lean but not re-checked in this installation "
                       f"(run ./check --setup); assumed")
        out.append(dict(file=f, theorem=thm, what=what, lean_checked=checked))
    ctx.extra.setdefault("lean_lemmas", []).extend(out)
    return out


def _mk(name, facts, props, lean=()):
    def fn(ctx):
        eval_facts(ctx, facts)
        if lean:
            lean_cite(ctx, lean)
    UNITS[name] = Unit(name, fn, [], kind="closed", props=props)


L_GROUP = [("GroupLaw.lean", "toOpt_add", "the spec law is Mathlib's Weierstrass group law"),
           ("GroupLaw.lean", "specAdd_assoc", "associativity"), ("GroupLaw.lean", "specAdd_comm", "commutativity"),
           ("GroupLaw.lean", "specAdd_onCurve", "closure"), ("GroupLaw.lean", "specAdd_neg", "inverse"),
           ("GroupLaw.lean", "specAdd_none_left", "identity"), ("GroupLaw.lean", "specAdd_self", "double(P) = P + P"),
           ("Cyclic.lean", "smul_add_scalar", "(a+b).P = a.P + b.P"), ("Cyclic.lean", "smul_mul_scalar", "a.(b.P) = (ab).P"),
           ("Cyclic.lean", "zsmul_emod_order", "n.P = (n mod r).P when r.P = O")]

for _c in ("bls12_381", "bn128"):
    for _v in ("", "optimized_"):
        _t = f"{_v}{_c}"
        _mk(f"consts.{_t}", [f"{_t}.constants", f"{_t}.generators", f"{_t}.generators-on-curve",
                              f"{_t}.generators-order", f"{_t}.identity-constants", f"{_t}.char"], ("C07",))
_mk("consts.derivations", ["bls12_381.derivation", "bn128.derivation", "twist.embedding"], ("C07", "C17"), lean=L_GROUP + [("GroupLaw.lean", "scalePt_specAdd", "(x,y) -> (x c^2, y c^3) commutes with the group law"), ("GroupLaw.lean", "scalePt_injective", "and is injective")])
_mk("consts.pairing-loops", ["pairing.loop-constants"], ("C05", "C12", "C07"))
_mk("consts.secp", ["secp.constants", "secp.generator", "secp.no-y0-point", "secp.p-3-mod-4", "secp.hasse"],
    ("C18", "C19", "C06"), lean=L_GROUP[:7])
_mk("consts.bls-cofactors", ["bls.cofactors", "bls.hasse-G1", "bls.order-twist", "bls.struct-G1", "bls.q-constant",
                             "bls.curve_order-in-g2_primitives", "h2c.cofactor-kills-twist-cofactor",
                             "optimized_bls12_381.generators-order", "optimized_bls12_381.constants"], ("C17", "C10"),
    lean=[("Roots.lean", "subgroup_check_exact", "r.(kG + T) = O iff T = O when gcd(h, r) = 1 and h.T = O"),
          ("Roots.lean", "coprime_kill", "h.T = O and r.T = O and gcd(h, r) = 1 imply T = O"),
          ("Cyclic.lean", "zsmul_eq_zero_iff_dvd", "c.G = O iff r | c for G of prime order r"),
          ("Cofactor.lean", "clear_cofactor_multiple", "G2: h_eff = k h2 and (h2 r).P = O give r.(h_eff.P) = O"),
          ("Cofactor.lean", "clear_cofactor_exponent", "G1: the cofactor part has exponent | h_eff (bls.struct-G1), so r.(h_eff.P) = O")])


_mk("consts.field-classes", ["fields.class-table", "fields.modulus-irreducible"], ("C08", "C14", "C07", "C13", "C05", "C12", "C10", "C11", "C17"))
_mk("consts.primes", ["primes.certificates"], ("C07", "C08", "C14", "C13", "C17", "C18", "C19", "C06", "C10", "C11", "C05", "C12",
                                                "C01", "C02", "C03", "C04"))


def run_monitor(ctx, monitor_name, label, function, timeout=1800):
    """bounded stand-in on the real code (harness `monitor`): never counted as discharged; a
    failure is a concrete violation and is recorded as a refuted obligation with its input"""
    from pyvc.report import harness
    t0 = time.time()
    ans = harness(["monitor", "--seed", str(ctx.seed)], stdin=json.dumps(dict(name=monitor_name, tier=ctx.tier)),
                  timeout=timeout)
    dt = time.time() - t0
    if "error" in ans:
        raise RuntimeError(f"monitor {monitor_name} failed to run: {ans['error']}")
    if not ans.get("ok"):
        f = ans.get("failure", {})
        ctx.record(f"{function}/bounded.{label}", "refuted", "monitor", detail=json.dumps(f)[:1500], seconds=dt,
                   witness=dict(concrete=dict(found=True, function=function, family="monitor:" + monitor_name,
                                              input=f, why=f.get("why"), observed=f.get("observed"))))
        return False
    ctx.bounded.append(dict(name=f"{function}: {label}", bound=ans.get("bound", ""), evaluations=ans.get("evaluations", 0),
                            distinct=ans.get("distinct"), seconds=round(dt, 1), failures=0))
    return True


def u_fq12_inv_bounded(ctx):
    run_monitor(ctx, "fq12_inv", "x*inv(x)=1 or x=0", "py_ecc.fields.FQ12.inv")
    # keep the unit visible in the obligation inventory without counting the monitor as a proof
    ctx.note("FQ12.inv run-time monitor: an extra cross-check of the loop-contract proof (units *.FQP.inv.d12.*); bounded, not counted in discharged")


UNITS["fields.FQ12.inv.bounded"] = Unit("fields.FQ12.inv.bounded", u_fq12_inv_bounded, [], kind="bounded",
                                        props=("C08", "C14"))


def u_c14_simulation(ctx):
    """C14 property-level lemma: reference and optimized classes satisfy the SAME abstract contract
    (the same unit code is run on both files with the file name as the only parameter), hence the
    relation R(a_ref, a_opt) := valid(a_ref) and valid(a_opt) and abs(a_ref) = abs(a_opt) is preserved by
    every operation; by induction over expression trees equal expressions evaluate to R-related values,
    and R-related valid values have equal canonical coefficients."""
    import z3
    from contracts import fields as F
    t0 = time.time()
    ref = {n for n in F.UNITS if n.startswith("ref.")}
    opt = {n for n in F.UNITS if n.startswith("opt.")}
    missing = sorted(n for n in ref if "opt." + n[4:] not in opt)
    ctx.closed("simulation/same-contract-on-both-files", not missing,
               detail=f"every reference unit has an optimized twin generated from the same contract code; missing: {missing}",
               backend="symex")
    A = z3.DeclareSort("Abs")
    absR = z3.Function("absR", z3.IntSort(), A)
    absO = z3.Function("absO", z3.IntSort(), A)
    OP = z3.Function("OP", A, A, A)
    a, b, a2, b2, r, r2 = z3.Ints("a b a2 b2 r r2")
    s = z3.Solver()
    s.add(absR(r) == OP(absR(a), absR(b)), absO(r2) == OP(absO(a2), absO(b2)), absR(a) == absO(a2), absR(b) == absO(b2))
    s.add(absR(r) != absO(r2))
    ok = s.check() == z3.unsat
    ctx.closed("simulation/R-preserved", ok, detail="R is preserved by any operation both classes implement against the same abstract OP",
               backend="z3", seconds=time.time() - t0)
    # canonical representatives: 0 <= x, y < p and x = y (mod p)  ->  x = y
    x, y, p, k = z3.Ints("x y p k")
    s = z3.Solver()
    s.add(p > 1, 0 <= x, x < p, 0 <= y, y < p, x - y == k * p, x != y)
    ctx.closed("simulation/canonical-equal", s.check() == z3.unsat, backend="z3",
               detail="valid (reduced) representatives of the same residue are the same integer")
    lean_cite(ctx, [("Fields.lean", "rep_add", "canonical representatives with (a+b) % p form Z/p"),
                    ("Fields.lean", "rep_mul", "likewise for *"), ("Fields.lean", "rep_eq_iff", "== on representatives is equality in Z/p"),
                    ("Pow.lean", "pow_binary_rec", "binary square-and-multiply recursion computes x^n"),
                    ("Pow.lean", "pow_double_step", "x^(2k) = (x*x)^k"), ("Pow.lean", "pow_double_mul_step", "x^(2k+1) = (x*x)^k * x")])


UNITS["fields.simulation"] = Unit("fields.simulation", u_c14_simulation, [], kind="lemma", props=("C14", "C08"))
