"""C20: frame obligations (`modifies nothing`) for every function of the package, determinism and
module-constant obligations per module (static effect analysis, pyvc.purity)."""
from __future__ import annotations

import os

from pyvc import purity
from pyvc.unit import Unit, REPO

UNITS = {}

# stated exceptions (DESIGN §8 C20): the lazy sub-module importer memoises importlib.import_module in the
# package namespace (idempotent through sys.modules; can change when import-time checks run, never a result)
ALLOWED = {"py_ecc._import_module:globals", "py_ecc.__getattr__:globals", "py_ecc.__dir__:globals", "py_ecc:import:os",
           "py_ecc._import_module:__import__"}
ALLOWED_WRITES = {("py_ecc._import_module", "globals()")}
# cached_property memo on the receiver: allowed when the value depends only on fields never written after __init__
CACHED_OK_FIELDS = {"n", "coeffs"}


def u_purity(ctx):
    files = purity.package_files(REPO)
    nfun = 0
    import ast
    for path, modname in files:
        funcs, mod_problems, tree = purity.analyse_module(path, modname, ALLOWED)
        mod_problems = [p for p in mod_problems if not (modname == "py_ecc" and "setrecursionlimit" in p)]
        for st in tree.body:
            # interpreter-wide setters at import time are allowed in the package root only (it is always imported first)
            if isinstance(st, ast.Expr) and isinstance(st.value, ast.Call) and isinstance(st.value.func, ast.Attribute) \
                    and st.value.func.attr in ("setrecursionlimit", "setswitchinterval", "setprofile", "settrace", "seed", "setlocale") \
                    and modname != "py_ecc":
                mod_problems.append(f"line {st.lineno}: module-level call `{ast.unparse(st.value.func)}(...)` changes interpreter-wide state "
                                    "when this sub-module is imported: results elsewhere depend on import history")
        ctx.record(f"{modname}/module.constants-and-determinism", "proved" if not mod_problems else "refuted", "frame",
                   detail="; ".join(mod_problems)[:1500] or "module-level names bound once, no import-time mutation, no non-deterministic import",
                   kind="frame")
        for rep in funcs:
            nfun += 1
            probs = list(rep.problems)
            if rep.qualname in ("py_ecc._import_module",):
                probs = [p for p in probs if "globals()" not in p and "import inside" not in p]
            if rep.cached_property:
                # the memoised value must be a function of fields that nothing writes after __init__
                fn = None
                for n in ast.walk(tree):
                    if isinstance(n, ast.FunctionDef) and n.lineno == rep.lineno:
                        fn = n
                reads = {a.attr for a in ast.walk(fn) if isinstance(a, ast.Attribute) and isinstance(a.value, ast.Name)
                         and a.value.id == "self"}
                bad = reads - CACHED_OK_FIELDS
                if bad:
                    probs.append(f"cached value depends on self.{sorted(bad)} which is not an immutable field")
                if any(d.split("(")[0].split(".")[-1] in ("lru_cache", "cache") for d in rep.decorators):
                    probs.append("function-level memoisation (lru_cache/cache): results depend on call history unless keyed by all inputs")
            ctx.record(f"{rep.qualname}/modifies.nothing", "proved" if not probs else "refuted", "frame",
                       detail=("; ".join(probs) if probs else
                               f"{len(rep.writes)} heap-write site(s), all with owned receivers / object under construction")[:1500],
                       kind="frame")
    ctx.extra["functions_analysed"] = nfun
    import hashlib
    dyn = {}
    for path, modname in files:
        h = hashlib.sha1(open(path, "rb").read()).hexdigest()[:12]
        funcs, _, _ = purity.analyse_module(path, modname, ALLOWED)
        for rep in funcs:
            dyn[rep.qualname] = "file:" + h
    ctx.extra["functions_dynamic"] = dyn
    ctx.note(f"{nfun} functions/methods in {len(files)} modules analysed")
    ctx.note("allowed exceptions: cached_property sgn0 memo on the receiver (value depends only on n/coeffs, never written "
             "after __init__); py_ecc._import_module memoises importlib.import_module in the package namespace")
    # fields written outside __init__ anywhere in the package (supports the cached_property argument)
    ctx.trust("C-implemented callees (hashlib, hmac, int/bytes methods) are pure; no monkey-patching (DESIGN section 3.4)")


UNITS["purity.frames"] = Unit("purity.frames", u_purity, [], kind="frame", props=("C20",))


def u_purity_closed(ctx):
    from contracts.closed import eval_facts
    eval_facts(ctx, ["purity.import-order-state"])


UNITS["purity.closed"] = Unit("purity.closed", u_purity_closed, [], kind="closed", props=("C20", "C07", "C18"))
