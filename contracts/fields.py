"""L1 field contracts (DESIGN §4 L1): the reference and the optimized field classes against the
same abstract view, for a *symbolic* prime p and *symbolic* modulus coefficients — C08, C14.

Abstract views:  abs(FQ x) = x.n in Z/p;   abs(FQP x) = sum coeff_i W^i in (Z/p)[W]/(M(W)),
M(W) = W^d + sum m_i W^i.  Integers occurring in the source are read modulo p ('ModInt'
reading: the ring homomorphism Z -> Z/p), with a `reduced` flag tracking which integers are
known to lie in [0, p); results must be stored reduced (`valid`).  Equality in the quotient
ring is decided by polyid under the relation M(W) = 0.
"""
from __future__ import annotations

from pyvc.core import FAtom, Fld, FldKind, PToken, fsym, Unsupported, cur, in_range
from pyvc.interp import Interp, Config, FuncVal, ClassVal, Obj, PyRaise, BoundMethod
from pyvc.pymodel import _FakeClassNode
from pyvc.poly import Rat, R, Poly
from pyvc.unit import Unit
from contracts.curves import mk_interp

UNITS = {}
REF = "py_ecc.fields.field_elements"
OPT = "py_ecc.fields.optimized_field_elements"
UTILS = "py_ecc.utils"


# ------------------------------------------------------------------------------------------
# generic class instances
# ------------------------------------------------------------------------------------------
class FieldSetup:
    """a generic instantiation of the classes of one file: prime token p, FQ subclass, and an
    FQP subclass of degree d with modulus coefficients `mods` (symbolic Fld symbols or ints)"""

    def __init__(self, interp, modname, d=None, mods=None):
        self.it = interp
        self.modname = modname
        self.p = PToken("p")
        self.K = FldKind("ZmodP", modulus=self.p)
        self.p.kind = self.K
        mod = interp.prog.load(modname)
        self.mod = mod
        self.FQ = interp.module_value(mod, "FQ")
        self.FQP = interp.module_value(mod, "FQP")
        self.GFQ = ClassVal("GFQ", mod, _FakeClassNode("GFQ"), [self.FQ], {"field_modulus": self.p})
        self.d = d
        if d is not None:
            base = interp.module_value(mod, {2: "FQ2", 12: "FQ12"}[d])
            gfqp = ClassVal("GFQP", mod, _FakeClassNode("GFQP"), [self.FQP], {"field_modulus": self.p})
            self.mods = tuple(mods)
            self.GX = ClassVal(f"GFQ{d}", mod, _FakeClassNode(f"GFQ{d}"), [base, gfqp],
                               {"field_modulus": self.p, f"FQ{d}_MODULUS_COEFFS": self.mods})

    def sym_fq(self, name):
        o = Obj(self.GFQ)
        o.attrs["n"] = Fld(R(Poly.var(name)), self.K, reduced=True)
        return o

    def sym_int(self, name):
        """an arbitrary Python int (possibly negative or > p), read modulo p"""
        return Fld(R(Poly.var(name)), self.K, reduced=False)

    def sym_fqp(self, prefix, fq_coeffs=False):
        """a valid FQP element: built by the real constructor from reduced coefficients (plain ints, or — a representation the
        optimized classes accept as well — FQ objects)"""
        if fq_coeffs:
            cs = [self.sym_fq(f"{prefix}{i}") for i in range(self.d)]
        else:
            cs = [Fld(R(Poly.var(f"{prefix}{i}")), self.K, reduced=True) for i in range(self.d)]
        return self.it.instantiate(self.GX, [cs], {})


class ModCoeff(Fld):
    """a modulus coefficient: an arbitrary Python int read modulo p, *zero-faithful* by the class
    invariant 'each modulus coefficient is 0 or not a multiple of p' (true of every real class:
    1, 0, 82, -18, 2, -2), so that `if c` / `c == 0` on it agrees with the test modulo p."""
    __slots__ = ()

    def __init__(self, r, kind, reduced=False):
        # class invariant: modulus coefficients are integers that are 0 or not multiples of p
        Fld.__init__(self, r, kind, reduced=False, zf=True)


def fq_abs(o):
    if isinstance(o, Obj) and "n" in o.attrs:
        return o.attrs["n"]
    raise Unsupported("not an FQ object")


def coeff_abs(c, K):
    if isinstance(c, Obj):
        n = fq_abs(c)
        if isinstance(n, int) and not isinstance(n, bool) and K is not None:
            return K(n)
        return n
    if isinstance(c, Fld):
        return c
    if isinstance(c, int) and not isinstance(c, bool):
        return K(c)
    raise Unsupported(f"coefficient of type {type(c).__name__}")


def coeff_reduced(c, K):
    if isinstance(c, Obj):
        n = c.attrs.get("n")
        return isinstance(n, Fld) and n.reduced or (isinstance(n, int) and in_range(n, K.modulus))
    if isinstance(c, Fld):
        return c.reduced
    if isinstance(c, int):
        return in_range(c, K.modulus)
    return False


def fqp_poly(o, W, K):
    """abs(FQP) evaluated at the ghost indeterminate W"""
    cs = o.attrs["coeffs"]
    acc = K(0)
    Wp = K(1)
    for c in cs:
        acc = acc + coeff_abs(c, K) * Wp
        Wp = Wp * W
    return acc


def modulus_poly(mods, W, K):
    d = len(mods)
    acc = K(0)
    Wp = K(1)
    for m in mods:
        acc = acc + coeff_abs(m, K) * Wp
        Wp = Wp * W
    return acc + Wp


def eqz(a, b=None):
    """FAtom  a == b  on Fld values, numerator only (denominators are units by construction)"""
    d = a if b is None else (a - b)
    return FAtom(d.r.n, True)


# ------------------------------------------------------------------------------------------
# call-site contracts
# ------------------------------------------------------------------------------------------
class PrimeFieldInvContract:
    """utils.prime_field_inv(a, n) with n the field prime: returns inv0(a mod n) in [0, n)
    (proved at integer level with its loop invariant: contracts.ints unit utils.prime_field_inv;
    needs n prime — the class invariant)"""

    def __init__(self, K):
        self.K = K

    def apply(self, interp, fv, env):
        a, n = env["a"], env["n"]
        if n is not self.K.modulus:
            raise Unsupported("prime_field_inv with a modulus other than the field prime")
        if isinstance(a, int):
            a = self.K(a)
        if not isinstance(a, Fld):
            raise PyRaise(TypeError, "prime_field_inv of a non-integer")
        r = self.K.one() / a
        return Fld(r.r, self.K, reduced=True)


class FQOpContract:
    """the abstract FQ contract at a call site inside FQP code (modular use; proved for both
    files by the FQ units below):  result is an object of type(self) with n reduced and
    n = abs(self) OP abs'(other);  TypeError for operands that are neither FQ nor int"""

    def __init__(self, K, FQbase, op):
        self.K, self.FQbase, self.op = K, FQbase, op

    def _operand(self, other):
        if isinstance(other, Obj) and other.cls.is_subclass(self.FQbase):
            return fq_abs(other)
        if isinstance(other, Fld) and other.kind.modulus is not None:
            return other
        if isinstance(other, bool):
            return self.K(int(other))
        if isinstance(other, int):
            return self.K(other)
        if isinstance(other, PToken) and other is self.K.modulus:
            return Fld(R(0), self.K, reduced=False)      # the modulus itself as an int operand: 0 modulo p, not reduced
        if other is None or isinstance(other, (str, bytes, list, tuple, dict, float)) or (isinstance(other, Obj) and not other.cls.is_subclass(self.FQbase)):
            raise PyRaise(TypeError, "Expected an int or FQ object")
        # a value of the engine whose Python type the model does not know: never turn that into a TypeError of the code
        raise Unsupported(f"FQ operand of an unmodelled kind ({type(other).__name__})")

    def apply(self, interp, fv, env):
        vals = list(env.values())
        self_ = vals[0]
        a = fq_abs(self_)
        op = self.op
        if op == "neg":
            r = -a
        elif op == "int":
            return a
        else:
            b = self._operand(vals[1])
            if op in ("add", "radd"):
                r = a + b
            elif op == "sub":
                r = a - b
            elif op == "rsub":
                r = b - a
            elif op in ("mul", "rmul"):
                r = a * b
            elif op in ("div", "truediv"):
                r = a / b
            elif op in ("rdiv", "rtruediv"):
                r = b / a
            elif op in ("eq", "ne"):
                if not (a.reduced and b.reduced):
                    raise Unsupported("FQ comparison with an unreduced integer inside FQP code")
                at = eqz(a, b)
                return at if op == "eq" else ~at
            else:
                raise Unsupported(op)
        o = Obj(self_.cls)
        o.attrs["n"] = Fld(r.r, self.K, reduced=True)
        return o


FQ_OPS = ["add", "radd", "sub", "rsub", "mul", "rmul", "div", "truediv", "rdiv", "rtruediv", "neg", "int", "eq", "ne"]


def fq_contracts(fs):
    return {f"{fs.modname}.FQ.__{op}__": FQOpContract(fs.K, fs.FQ, op) for op in FQ_OPS}


class ReductionLoop:
    """loop contract of the reduction loop in FQP.__mul__ (reference: `while len(b) > d`,
    optimized: `for exp in range(d-2, -1, -1)`).
    invariant:  sum_i b[i] W^i  =  abs(self)(W) * abs(other)(W)   in  (Z/p)[W]/(M(W))
    Hoare rule applied per concrete iteration with havocked list contents, so every VC is a small
    identity even for d = 12 with symbolic modulus coefficients."""

    def __init__(self, fs, name):
        self.fs, self.name = fs, name
        self.iterations = 0

    def _value(self, b, W):
        K = self.fs.K
        acc, Wp = K(0), K(1)
        for c in b:
            acc = acc + coeff_abs(c, K) * Wp
            Wp = Wp * W
        return acc

    def _havoc(self, path, b):
        K = self.fs.K
        for i in range(len(b)):
            k = next(path.fresh_id)
            c = b[i]
            if isinstance(c, Obj):
                o = Obj(c.cls)
                o.attrs["n"] = Fld(R(Poly.var(f"h{k}")), K, reduced=True)
                b[i] = o
            else:
                b[i] = Fld(R(Poly.var(f"h{k}")), K, reduced=False)

    def _target(self, fr, W):
        K = self.fs.K
        return fqp_poly(fr.env["self"], W, K) * fqp_poly(fr.env["other"], W, K)

    def _common(self, interp, fr, cond, step):
        path = cur()
        prev, path.in_source = path.in_source, False
        try:
            W = path.ghost["W"]
            b = fr.env["b"]
            target = self._target(fr, W)
            path.prove(f"{self.name}/loop.reduce/entry", eqz(self._value(b, W), target), kind="invariant",
                       detail="schoolbook product: sum b[k] W^k = A(W) B(W)")
            n = 0
            while cond():
                n += 1
                if n > 64:
                    raise Unsupported("reduction loop does not terminate within 64 iterations")
                self._havoc(path, b)
                path.assume(eqz(self._value(b, W), target), "loop invariant (havocked state)")
                L0 = len(b)
                path.in_source = True
                step()
                path.in_source = False
                path.prove(f"{self.name}/loop.reduce/preserve", eqz(self._value(b, W), target), kind="invariant",
                           detail=f"one reduction step at length {L0} keeps the value modulo M(W)")
                path.prove(f"{self.name}/loop.reduce/decreases", len(b) < L0, kind="decreases")
                self.iterations += 1
            self._havoc(path, b)
            path.assume(eqz(self._value(b, W), target), "loop invariant at exit")
        finally:
            path.in_source = prev

    def run_while(self, interp, st, fr):
        self._common(interp, fr, lambda: interp.truth(interp.eval(st.test, fr)),
                     lambda: interp.exec_block(st.body, fr))

    def run_for(self, interp, st, fr):
        items = list(interp.iterate(interp.eval(st.iter, fr)))
        pos = [0]

        def cond():
            return pos[0] < len(items)

        def step():
            interp.assign(st.target, items[pos[0]], fr)
            pos[0] += 1
            interp.exec_block(st.body, fr)
        self._common(interp, fr, cond, step)


def field_interp(ctx, modname, d=None, mods=None, top=None, modular_fq=True, loops=True):
    it = mk_interp(ctx, top)
    fs = FieldSetup(it, modname, d, mods)
    it.cfg.contracts[f"{UTILS}.prime_field_inv"] = PrimeFieldInvContract(fs.K)
    if modular_fq:
        it.cfg.contracts.update(fq_contracts(fs))
    if loops and d is not None:
        it.cfg.loops[(f"{modname}.FQP.__mul__", 2)] = ReductionLoop(fs, f"{modname}.FQP.__mul__[d={d}]")
    return it, fs


def setup_quotient(path, fs, irreducible=False):
    """ghost indeterminate W with the relation M(W) = 0"""
    W = fsym("W", fs.K)
    path.ghost["W"] = W
    path.assume(eqz(modulus_poly(fs.mods, W, fs.K)), "M(W) = 0: work in (Z/p)[W]/(M)")
    return W


def sym_mods(d, K):
    return [Fld(R(Poly.var(f"m{i}")), K, reduced=False) for i in range(d)]


REAL_MODS = {("bn128", 2): (1, 0), ("bn128", 12): (82, 0, 0, 0, 0, 0, -18, 0, 0, 0, 0, 0),
             ("bls12_381", 2): (1, 0), ("bls12_381", 12): (2, 0, 0, 0, 0, 0, -2, 0, 0, 0, 0, 0)}


def call_method(it, obj, name, args):
    m, _ = obj.cls.lookup(name)
    if m is None:
        raise PyRaise(AttributeError, name)
    q = m.qualname
    it.cfg.top = q
    try:
        return "ret", it.call_function(m, [obj] + list(args), {}, recv=obj, force_inline=True)
    except PyRaise as pr:
        return "raise", pr.exc_cls


# ------------------------------------------------------------------------------------------
# FQ units (both files)
# ------------------------------------------------------------------------------------------
FQ_BIN = {"__add__": lambda a, b: a + b, "__radd__": lambda a, b: a + b,
          "__sub__": lambda a, b: a - b, "__rsub__": lambda a, b: b - a,
          "__mul__": lambda a, b: a * b, "__rmul__": lambda a, b: a * b,
          "__div__": lambda a, b: a / b, "__truediv__": lambda a, b: a / b,
          "__rdiv__": lambda a, b: b / a, "__rtruediv__": lambda a, b: b / a}


def check_fq_result(path, name, fs, res, want):
    ok = isinstance(res, Obj) and res.cls is fs.GFQ and isinstance(res.attrs.get("n"), (Fld, int))
    path.prove(f"{name}/ensures.type", ok, detail=f"result is an object of type(self): {res!r}"[:200])
    if not ok:
        return
    n = res.attrs["n"]
    path.prove(f"{name}/ensures.valid", coeff_reduced(res, fs.K), detail="result stored reduced: 0 <= n < p")
    path.prove(f"{name}/ensures.abs", eqz(coeff_abs(n, fs.K), want), detail="abs(result) = abs(self) OP abs'(other)")


def u_fq_binop(ctx, modname, meth):
    name = f"{modname}.FQ.{meth}"

    def body(path):
        it, fs = field_interp(ctx, modname, modular_fq=False)
        x = fs.sym_fq("a")
        kind_ = path.choose(3, "operand")
        if kind_ == 0:
            path.sig[-1] = "other:FQ"
            other, ob = fs.sym_fq("b"), None
            ob = fq_abs(other)
        elif kind_ == 1:
            path.sig[-1] = "other:int"
            other = fs.sym_int("k")
            ob = other
        else:
            path.sig[-1] = "other:neither"
            other = None
        k, res = call_method(it, x, meth, [other])
        if kind_ == 2:
            path.prove(f"{name}/raises.TypeError", k == "raise" and res is TypeError,
                       detail="operand that is neither FQ nor int is rejected with TypeError")
            return
        if k == "raise":
            path.prove(f"{name}/raises.none", False, detail=f"raised {res.__name__} on an accepted operand")
            return
        check_fq_result(path, name, fs, res, FQ_BIN[meth](fq_abs(x), ob))
    ctx.ex.run(body, name)


def u_fq_misc(ctx, modname):
    base = f"{modname}.FQ"

    def body_neg(path):
        it, fs = field_interp(ctx, modname, modular_fq=False)
        x = fs.sym_fq("a")
        k, res = call_method(it, x, "__neg__", [])
        if k == "raise":
            path.prove(f"{base}.__neg__/raises.none", False)
            return
        check_fq_result(path, f"{base}.__neg__", fs, res, -fq_abs(x))

    def body_init(path):
        it, fs = field_interp(ctx, modname, modular_fq=False)
        which = path.choose(3, "val")
        if which == 0:
            path.sig[-1] = "val:int"
            v = fs.sym_int("k")
            want = v
        elif which == 1:
            path.sig[-1] = "val:FQ"
            v = fs.sym_fq("a")
            want = fq_abs(v)
        else:
            path.sig[-1] = "val:neither"
            v = None
        it.cfg.top = f"{base}.__init__"
        try:
            res = it.instantiate(fs.GFQ, [v], {})
        except PyRaise as pr:
            path.prove(f"{base}.__init__/raises.TypeError", which == 2 and pr.exc_cls is TypeError,
                       detail=f"raised {pr.exc_cls.__name__}")
            return
        if which == 2:
            path.prove(f"{base}.__init__/raises.TypeError", False, detail="non-int, non-FQ value accepted")
            return
        check_fq_result(path, f"{base}.__init__", fs, res, want)

    def body_eq(path):
        it, fs = field_interp(ctx, modname, modular_fq=False)
        x, y = fs.sym_fq("a"), fs.sym_fq("b")
        for meth in ("__eq__", "__ne__"):
            k, res = call_method(it, x, meth, [y])
            if k == "raise":
                path.prove(f"{base}.{meth}/raises.none", False)
                continue
            got = res if isinstance(res, bool) else path.case(res, f"{meth}.result")
            same = eqz(fq_abs(x), fq_abs(y))
            want_true = (meth == "__eq__")
            path.prove(f"{base}.{meth}/ensures.iff", same if got == want_true else ~same,
                       detail="== on reduced representatives is equality in Z/p")

    def body_consts(path):
        it, fs = field_interp(ctx, modname, modular_fq=False)
        for nm, val in (("one", 1), ("zero", 0)):
            m, _ = fs.GFQ.lookup(nm)
            it.cfg.top = m.qualname
            try:
                res = it.call_function(m, [fs.GFQ], {}, recv=fs.GFQ, force_inline=True)
            except PyRaise as pr:
                path.prove(f"{base}.{nm}/raises.none", False)
                continue
            check_fq_result(path, f"{base}.{nm}", fs, res, fs.K(val))
        x = fs.sym_fq("a")
        k, res = call_method(it, x, "__int__", [])
        path.prove(f"{base}.__int__/ensures", k == "ret" and isinstance(res, Fld) and res.reduced and
                   bool(path.pc.prove_zero((res - fq_abs(x)).r.n)), detail="int(x) is the canonical representative")
    ctx.ex.run(body_neg, f"{base}.__neg__")
    ctx.ex.run(body_init, f"{base}.__init__")
    ctx.ex.run(body_eq, f"{base}.__eq__")
    ctx.ex.run(body_consts, f"{base}.one")


for _mod, _tag in ((REF, "ref"), (OPT, "opt")):
    for _meth in FQ_BIN:
        UNITS[f"{_tag}.FQ.{_meth}"] = Unit(f"{_tag}.FQ.{_meth}", u_fq_binop, [f"{_mod}.FQ.{_meth}"],
                                          props=("C08", "C14"), args=(_mod, _meth))
    UNITS[f"{_tag}.FQ.misc"] = Unit(f"{_tag}.FQ.misc", u_fq_misc,
                                    [f"{_mod}.FQ.{m}" for m in ("__neg__", "__init__", "__eq__", "__ne__", "one", "zero", "__int__")],
                                    props=("C08", "C14"), args=(_mod,))


# ------------------------------------------------------------------------------------------
# FQP units (both files; d = 2 and d = 12; symbolic prime, symbolic modulus coefficients)
# ------------------------------------------------------------------------------------------
def check_fqp_result(path, name, fs, W, res, want, quotient=False):
    """valid(res) and abs(res) = want   (as polynomials in W; modulo M(W) when `quotient`)"""
    ok = isinstance(res, Obj) and res.cls is fs.GX and isinstance(res.attrs.get("coeffs"), tuple) \
        and len(res.attrs["coeffs"]) == fs.d
    path.prove(f"{name}/ensures.type", ok, detail=f"result is an object of type(self) with d coefficients: {res!r}"[:160])
    if not ok:
        return
    cs = res.attrs["coeffs"]
    path.prove(f"{name}/ensures.valid", all(coeff_reduced(c, fs.K) for c in cs),
               detail="every coefficient is stored reduced into [0, p)")
    if fs.modname == REF:
        path.prove(f"{name}/ensures.valid", all(isinstance(c, Obj) and c.cls.is_subclass(fs.FQ) for c in cs),
                   detail="reference class: coefficients are FQ objects")
    path.prove(f"{name}/ensures.abs", eqz(fqp_poly(res, W, fs.K), want),
               detail="abs(result) = abs(self) OP abs'(other)" + (" in (Z/p)[W]/(M)" if quotient else ""))


def _fqp_env(ctx, path, modname, d, top=None):
    it, fs = field_interp(ctx, modname, d, sym_mods(d, FldKind("tmp")), top=top)
    # the modulus coefficients must be of the run's kind
    fs.mods = tuple(ModCoeff(R(Poly.var(f"m{i}")), fs.K, reduced=False) for i in range(d))
    fs.GX.attrs[f"FQ{d}_MODULUS_COEFFS"] = fs.mods
    # optimized classes filter zero modulus coefficients into mc_tuples: take the all-non-zero branch;
    # the identities proved are polynomial in the m_i and the skipped case c = 0 subtracts top*0
    # (filter-elimination side obligation: unit *.FQP.mc_tuples)
    if modname == OPT:
        for m in fs.mods:
            path.assume(FAtom(m.r.n, False), "modulus coefficient on the non-zero branch of the mc_tuples filter")
    W = setup_quotient(path, fs)
    return it, fs, W


class FQPInvContract:
    """FQP.inv at a call site inside the class (x / y = x * y.inv()):  returns a valid element R of type(self) with
    R = 0 if self = 0 and R * self = 1 in (Z/p)[W]/(M) otherwise — proved for every degree pair by the units *.FQP.inv.* /
    *.FQ2.inv.  The case distinction is a ghost fork: both branches together are exactly the postcondition of inv."""

    def __init__(self, fs, W, fq_coeffs=False):
        self.fs, self.W, self.fq_coeffs = fs, W, fq_coeffs
        self.last = None

    def apply(self, interp, fv, env):
        path = cur()
        fs = self.fs
        y = env["self"]
        if not (isinstance(y, Obj) and y.cls.is_subclass(fs.GX)):
            raise Unsupported("FQP.inv contract on a receiver that is not an element of the class")
        k = next(path.fresh_id)
        r = fs.sym_fqp(f"inv{k}_", self.fq_coeffs)
        Y = fqp_poly(y, self.W, fs.K)
        Rp = fqp_poly(r, self.W, fs.K)
        g = fsym(f"ghost_inv_case{k}", fs.K)
        if path.case(eqz(g), "inv: receiver = 0?"):
            for c in y.attrs["coeffs"]:
                path.assume(eqz(coeff_abs(c, fs.K)), "inv contract, case self = 0")
            for c in r.attrs["coeffs"]:
                path.assume(eqz(coeff_abs(c, fs.K)), "inv contract, case self = 0: inv(0) = 0")
        else:
            path.assume(eqz(Rp * Y, fs.K(1)), "inv contract, case self != 0: inv(self) * self = 1 in (Z/p)[W]/(M)")
        self.last = (r, Rp)
        return r


def u_fqp_linear(ctx, modname, d, fq_coeffs=False):
    base = f"{modname}.FQP"

    def run(meth, operand):
        name = f"{base}.{meth}[d={d}" + (",FQ-object coefficients]" if fq_coeffs else "]")

        def body(path):
            it, fs, W = _fqp_env(ctx, path, modname, d)
            x = fs.sym_fqp("a", fq_coeffs)
            A = fqp_poly(x, W, fs.K)
            if operand == "same":
                y = fs.sym_fqp("b", fq_coeffs)
                B = fqp_poly(y, W, fs.K)
            elif operand == "int":
                y = fs.sym_int("k")
                B = y
            elif operand == "fq":
                y = fs.sym_fq("q")
                B = fq_abs(y)
            elif operand == "none":
                y = None
            args = [] if operand == "unary" else [y]
            invc = None
            if operand == "same" and meth in ("__div__", "__truediv__"):
                # modular: inv enters through its contract (proved by the inv units), * and == are the real code
                invc = FQPInvContract(fs, W, fq_coeffs)
                it.cfg.contracts[f"{modname}.FQP.inv"] = invc
            k, res = call_method(it, x, meth, args)
            accepted = ACCEPT.get((modname, meth), ())
            if operand != "unary" and operand not in accepted:
                path.prove(f"{name}/raises.TypeError[{operand}]", k == "raise" and res is TypeError,
                           detail=f"operand kind {operand} is rejected with TypeError (got {k} {getattr(res, '__name__', res)})"[:200])
                return
            if k == "raise":
                path.prove(f"{name}/raises.none[{operand}]", False, detail=f"raised {res.__name__}")
                return
            if meth in ("__eq__", "__ne__"):
                got = res if isinstance(res, bool) else path.case(res, f"{meth}.result")
                truth = (meth == "__eq__") == got          # True: the code says 'equal'
                xs, ys = x.attrs["coeffs"], y.attrs["coeffs"]
                if truth:
                    for i in range(d):
                        path.prove(f"{name}/ensures.iff", eqz(coeff_abs(xs[i], fs.K), coeff_abs(ys[i], fs.K)),
                                   detail="equal iff all canonical coefficients agree")
                else:
                    # some coefficient differs
                    differs = False
                    for i in range(d):
                        if path.pc.prove_nonzero((coeff_abs(xs[i], fs.K) - coeff_abs(ys[i], fs.K)).r.n):
                            differs = True
                    path.prove(f"{name}/ensures.iff", differs, detail="declared different: some coefficient provably differs")
                return
            if invc is not None:
                # x / y = x * inv(y) for the element inv(y) that the contract of inv describes: with it, (x / y) * y = x for y != 0
                # and x / 0 = 0.  If the code did not call inv at all, the quotient must still satisfy both clauses.
                if invc.last is not None:
                    want = A * invc.last[1]
                    check_fqp_result(path, name + f"[{operand}]", fs, W, res, want, quotient=True)
                else:
                    ok = isinstance(res, Obj) and res.cls is fs.GX
                    path.prove(f"{name}[{operand}]/ensures.type", ok)
                    if ok:
                        Q = fqp_poly(res, W, fs.K)
                        g = fsym("ghost_div_case", fs.K)
                        if path.case(eqz(g), "divisor = 0?"):
                            for c in y.attrs["coeffs"]:
                                path.assume(eqz(coeff_abs(c, fs.K)), "case divisor = 0")
                            path.prove(f"{name}[{operand}]/ensures.abs", eqz(Q), detail="x / 0 = 0 (inv0 convention)")
                        else:
                            path.prove(f"{name}[{operand}]/ensures.abs", eqz(Q * B, A), detail="(x / y) * y = x in (Z/p)[W]/(M)")
                return
            want = {"__add__": lambda: A + B, "__sub__": lambda: A - B, "__neg__": lambda: -A,
                    "__mul__": lambda: A * B, "__rmul__": lambda: A * B,
                    "__div__": lambda: A / B, "__truediv__": lambda: A / B}[meth]()
            check_fqp_result(path, name + f"[{operand}]", fs, W, res, want, quotient=(operand == "same" and meth in ("__mul__", "__rmul__")))
        ctx.ex.run(body, name)

    for meth in ("__add__", "__sub__"):
        for operand in ("same", "int", "none"):
            run(meth, operand)
    run("__neg__", "unary")
    for meth in ("__mul__", "__rmul__"):
        for operand in ("same", "int", "fq", "none"):
            run(meth, operand)
    for meth in ("__div__", "__truediv__"):
        for operand in ("same", "int", "fq", "none"):
            run(meth, operand)
    for meth in ("__eq__", "__ne__"):
        for operand in ("same", "int"):
            run(meth, operand)


ACCEPT = {}
for _m in ("__add__", "__sub__", "__eq__", "__ne__"):
    ACCEPT[(REF, _m)] = ("same",)
    ACCEPT[(OPT, _m)] = ("same",)
for _m in ("__mul__", "__rmul__", "__div__", "__truediv__"):
    ACCEPT[(REF, _m)] = ("same", "int", "fq")
    ACCEPT[(OPT, _m)] = ("same", "int")


def u_fqp_consts(ctx, modname, d):
    base = f"{modname}.FQP"

    def body(path):
        it, fs, W = _fqp_env(ctx, path, modname, d)
        for nm, val in (("one", 1), ("zero", 0)):
            m, _ = fs.GX.lookup(nm)
            it.cfg.top = m.qualname
            try:
                res = it.call_function(m, [fs.GX], {}, recv=fs.GX, force_inline=True)
            except PyRaise as pr:
                path.prove(f"{base}.{nm}[d={d}]/raises.none", False, detail=pr.exc_cls.__name__)
                continue
            check_fqp_result(path, f"{base}.{nm}[d={d}]", fs, W, res, fs.K(val))
        # constructor: any int coefficients are reduced; wrong length is refused
        cs = [fs.sym_int(f"k{i}") for i in range(d)]
        try:
            res = it.instantiate(fs.GX, [cs], {})
            want = fs.K(0)
            Wp = fs.K(1)
            for c in cs:
                want = want + c * Wp
                Wp = Wp * W
            check_fqp_result(path, f"{base}.__init__[d={d}]", fs, W, res, want)
        except PyRaise as pr:
            path.prove(f"{base}.__init__[d={d}]/raises.none", False, detail=pr.exc_cls.__name__)
        try:
            it.instantiate(fs.GX, [cs[:-1]], {})
            path.prove(f"{base}.__init__[d={d}]/raises.length", False, detail="wrong number of coefficients accepted")
        except PyRaise as pr:
            path.prove(f"{base}.__init__[d={d}]/raises.length", True)
    ctx.ex.run(body, f"{base}.consts[d={d}]")


def u_fqp_mc_tuples(ctx, d):
    """filter-elimination side obligation for the optimized classes: a modulus coefficient that is
    0 is skipped by `mc_tuples`; including it would subtract top*0 — the state is unchanged either way,
    so the all-non-zero branch verified above covers every modulus."""
    name = f"{OPT}.FQ{d}.mc_tuples"

    def body(path):
        it, fs = field_interp(ctx, OPT, d, [0] * d)
        fs.mods = tuple([0] * (d - 1) + [ModCoeff(R(Poly.var("m")), fs.K, reduced=False)])
        fs.GX.attrs[f"FQ{d}_MODULUS_COEFFS"] = fs.mods
        path.assume(FAtom(fs.mods[-1].r.n, False), "one non-zero coefficient")
        cs = [fs.sym_int(f"k{i}") for i in range(d)]
        o = it.instantiate(fs.GX, [cs], {})
        mt = o.attrs.get("mc_tuples")
        ok = isinstance(mt, list) and len(mt) == 1 and mt[0][0] == d - 1 and mt[0][1] is fs.mods[-1]
        path.prove(f"{name}/ensures.filter", ok,
                   detail="mc_tuples = exactly the (index, coefficient) pairs with non-zero coefficient, from the class attribute")
    ctx.ex.run(body, name)


for _mod, _tag in ((REF, "ref"), (OPT, "opt")):
    for _d in (2, 12):
        UNITS[f"{_tag}.FQP.linear.d{_d}"] = Unit(
            f"{_tag}.FQP.linear.d{_d}", u_fqp_linear,
            [f"{_mod}.FQP.{m}" for m in ("__add__", "__sub__", "__neg__", "__mul__", "__rmul__", "__div__", "__truediv__", "__eq__", "__ne__")],
            props=("C08", "C14"), args=(_mod, _d))
        UNITS[f"{_tag}.FQP.consts.d{_d}"] = Unit(
            f"{_tag}.FQP.consts.d{_d}", u_fqp_consts,
            [f"{_mod}.FQP.{m}" for m in ("one", "zero", "__init__")] + [f"{_mod}.FQ{_d}.__init__"],
            props=("C08", "C14"), args=(_mod, _d))
for _d in (2, 12):
    # the optimized classes also accept FQ objects as coefficients (IntOrFQ): same contract, that representation
    UNITS[f"opt.FQP.linear.d{_d}.fqcoeffs"] = Unit(
        f"opt.FQP.linear.d{_d}.fqcoeffs", u_fqp_linear,
        [f"{OPT}.FQP.{m}" for m in ("__add__", "__sub__", "__neg__", "__mul__", "__rmul__", "__div__", "__truediv__", "__eq__", "__ne__")],
        props=("C08", "C14"), args=(OPT, _d, True))
for _d in (2, 12):
    UNITS[f"opt.FQP.mc_tuples.d{_d}"] = Unit(f"opt.FQP.mc_tuples.d{_d}", u_fqp_mc_tuples, [f"{OPT}.FQ{_d}.__init__"],
                                             props=("C08", "C14"), args=(_d,))


# ------------------------------------------------------------------------------------------
# __pow__ : the square-and-multiply loop over an abstract commutative ring (all four classes)
# ------------------------------------------------------------------------------------------
import z3                                                     # noqa: E402
from pyvc.core import ZAtom, PathAbort                        # noqa: E402
from pyvc.sym import SInt, zt, sdivmod                        # noqa: E402


class AbsRingKind(FldKind):
    """an element of 'the class under test', viewed only through its ring contract: `a * b` is the
    ring product (contract of __mul__, proved above), `type(self)(1)` / `type(self)([1,0,..])` is 1"""

    def __init__(self, name, degree=None):
        FldKind.__init__(self, name, None)
        self.attrs = {} if degree is None else {"degree": degree}

    def __call__(self, v):
        if isinstance(v, list) and v and all(isinstance(c, int) for c in v) and all(c == 0 for c in v[1:]):
            return Fld(R(v[0]), self, reduced=True)
        return FldKind.__call__(self, v)


class PowLoop:
    """while other > 0:  invariant  o * t^other = x^n   (ghost X = x^n, T = t^other);
    lemma instances (lean/Pow.lean pow_double_step, pow_double_mul_step, pow_zero_exp):
       t^(2k) = (t*t)^k,   t^(2k+1) = (t*t)^k * t,   t^0 = 1;   decreases other"""

    def __init__(self, name):
        self.name = name

    def run_while(self, interp, st, fr):
        path = cur()
        prev, path.in_source = path.in_source, False
        try:
            K = fr.env["self"].kind
            X = path.ghost["X"]
            n0 = path.ghost["n0"]
            from pyvc.loops import require_declared
            require_declared(st, fr, {"o", "t", "other"}, self.name)
            o, t, other = fr.env["o"], fr.env["t"], fr.env["other"]
            nm = self.name
            path.prove(f"{nm}/loop.pow/entry", eqz(o, K(1)), kind="invariant", detail="o = 1")
            path.prove(f"{nm}/loop.pow/entry", eqz(t, fr.env["self"]), kind="invariant", detail="t = x")
            path.prove(f"{nm}/loop.pow/entry", ZAtom(zt(other) == zt(n0)), kind="invariant", detail="other = n")
            k = next(path.fresh_id)
            oh, th, T = fsym(f"o{k}", K), fsym(f"t{k}", K), fsym(f"T{k}", K)
            nh = SInt(z3.Int(f"other!{k}"))
            path.assume(nh >= 0, "invariant: other >= 0")
            path.assume(eqz(oh * T, X), "invariant: o * t^other = x^n")
            fr.env["o"], fr.env["t"], fr.env["other"] = oh, th, nh
            path.in_source = True
            guard = interp.truth(interp.eval(st.test, fr), "loop guard")
            path.in_source = False
            if guard:
                q_, r_ = sdivmod(nh, 2)
                T2 = fsym(f"S{k}", K)              # (t*t)^(other // 2)
                if path.case(ZAtom(zt(r_) == 1), "other odd?"):
                    path.assume(eqz(T, T2 * th), "t^(2k+1) = (t*t)^k * t")
                else:
                    path.assume(eqz(T, T2), "t^(2k) = (t*t)^k")
                path.in_source = True
                interp.exec_block(st.body, fr)
                path.in_source = False
                o2, t2, n2 = fr.env["o"], fr.env["t"], fr.env["other"]
                path.prove(f"{nm}/loop.pow/preserve", eqz(t2, th * th), kind="invariant", detail="t' = t*t")
                path.prove(f"{nm}/loop.pow/preserve", ZAtom(zt(n2) == zt(q_)), kind="invariant", detail="other' = other // 2")
                path.prove(f"{nm}/loop.pow/preserve", eqz(o2 * T2, X), kind="invariant", detail="o' * t'^other' = x^n")
                path.prove(f"{nm}/loop.pow/decreases", ZAtom(z3.And(zt(n2) >= 0, zt(n2) < zt(nh))), kind="decreases")
                raise PathAbort()
            path.assume(ZAtom(zt(nh) == 0), "exit: other = 0")
            path.assume(eqz(T, K(1)), "t^0 = 1")
        finally:
            path.in_source = prev


def u_pow(ctx, modname, clsname, degree):
    q = f"{modname}.{clsname}.__pow__"

    def body(path):
        it = mk_interp(ctx, q, loops={(q, 0): PowLoop(q)})
        mod = it.prog.load(modname)
        cls = it.module_value(mod, clsname)
        fv, _ = cls.lookup("__pow__")
        K = AbsRingKind(clsname, degree)
        x = fsym("x", K)
        n = SInt(z3.Int("n"))
        path.assume(n >= 0, "requires n >= 0")
        path.ghost["X"] = fsym("X", K)         # ghost: x^n, the n-fold product
        path.ghost["n0"] = n
        try:
            res = it.call_function(fv, [x, n], {}, recv=x, force_inline=True)
        except PyRaise as pr:
            path.prove(f"{q}/raises.none", False, detail=pr.exc_cls.__name__)
            return
        path.prove(f"{q}/ensures.abs", isinstance(res, Fld) and eqz(res, path.ghost["X"]),
                   detail="x ** n = the n-fold product x^n for every n >= 0 (no recursion: no depth bound needed)")
    ctx.ex.run(body, q)
    ctx.trust("ring contract of * on the class (units *.FQ.__mul__, *.FQP.linear.*) is what `o * t` means in __pow__")


for _mod, _tag in ((REF, "ref"), (OPT, "opt")):
    UNITS[f"{_tag}.FQ.__pow__"] = Unit(f"{_tag}.FQ.__pow__", u_pow, [f"{_mod}.FQ.__pow__"], props=("C08", "C14"),
                                       args=(_mod, "FQ", None))
    UNITS[f"{_tag}.FQP.__pow__"] = Unit(f"{_tag}.FQP.__pow__", u_pow, [f"{_mod}.FQP.__pow__"], props=("C08", "C14"),
                                        args=(_mod, "FQP", 12))


# ------------------------------------------------------------------------------------------
# FQP.inv for d = 2: complete symbolic path enumeration (DESIGN L1); every degree: the loop contract further below
# ------------------------------------------------------------------------------------------
def u_fq2_inv(ctx, modname):
    q = f"{modname}.FQP.inv"
    name = f"{q}[d=2]"

    def body(path):
        it, fs, W = _fqp_env(ctx, path, modname, 2, top=q)
        # the inner multiplication in __div__-by-int goes through the FQ contracts; nothing else needed
        x = fs.sym_fqp("a")
        A = fqp_poly(x, W, fs.K)
        k, res = call_method(it, x, "inv", [])
        if k == "raise":
            path.prove(f"{name}/raises.none", False, detail=f"raised {res.__name__}")
            return
        cs = x.attrs["coeffs"]
        a0, a1 = coeff_abs(cs[0], fs.K), coeff_abs(cs[1], fs.K)
        ok = isinstance(res, Obj) and res.cls is fs.GX
        path.prove(f"{name}/ensures.type", ok)
        if not ok:
            return
        path.prove(f"{name}/ensures.valid", all(coeff_reduced(c, fs.K) for c in res.attrs["coeffs"]))
        Rv = fqp_poly(res, W, fs.K)
        # class invariant 'M is irreducible' = M has no root in the field (d = 2), instantiated at the two
        # places the Euclid needs:  M(0) = m0 != 0   and   M(-a0/a1) != 0  (a1 != 0)
        m0, m1 = [coeff_abs(m, fs.K) for m in fs.mods]
        zero0 = path.case(eqz(a0), "a0=0?")
        zero1 = path.case(eqz(a1), "a1=0?")
        if zero0 and zero1:
            path.prove(f"{name}/ensures.inv0", eqz(Rv), detail="inv(0) = 0")
            return
        if not zero1:
            path.assume(FAtom((a0 * a0 - a0 * a1 * m1 + a1 * a1 * m0).r.n, False),
                        "M irreducible: a1^2 M(-a0/a1) = a0^2 - a0 a1 m1 + a1^2 m0 != 0")
        path.assume(FAtom(m0.r.n, False), "M irreducible: M(0) = m0 != 0")
        path.prove(f"{name}/ensures.inverse", eqz(Rv * A, fs.K(1)), detail="x * inv(x) = 1 in (Z/p)[W]/(M)")
    ctx.ex.run(body, name)
    ctx.assume("class invariant (precondition on user instantiations): the modulus polynomial is irreducible over Z/p, instantiated as 'no root' "
               "for d = 2; for the eight real extension classes it is the closed fact fields.modulus-irreducible (Rabin's test, evaluated on every run)")


for _mod, _tag in ((REF, "ref"), (OPT, "opt")):
    UNITS[f"{_tag}.FQ2.inv"] = Unit(f"{_tag}.FQ2.inv", u_fq2_inv, [f"{_mod}.FQP.inv", f"{UTILS}.deg"] +
                                    ([f"{UTILS}.poly_rounded_div"] if _mod == REF else [f"{_mod}.FQP.optimized_poly_rounded_div"]),
                                    props=("C08", "C14"), args=(_mod,))


# ------------------------------------------------------------------------------------------
# sgn0 of the optimized classes against RFC 9380 section 4.1 (z3: parities)
# ------------------------------------------------------------------------------------------
def u_sgn0(ctx):
    base = OPT

    def rfc_sgn0(xs):
        """sign of the first non-zero coefficient (0 for the zero element): closed form of the RFC loop"""
        e = z3.IntVal(0)
        for x in reversed(xs):
            e = z3.If(x != 0, x % 2, e)
        return e

    def run(clsname, d, fq_coeffs=False):
        name = f"{base}.{clsname}.sgn0" + (f"[d={d}]" if clsname == "FQP" else "") + ("[FQ-object coefficients]" if fq_coeffs else "")

        def body(path):
            it = mk_interp(ctx, name)
            mod = it.prog.load(base)
            cls = it.module_value(mod, clsname)
            p = SInt(z3.Int("p"))
            path.assume(p > 2, "odd prime modulus")
            gcls = ClassVal("G" + clsname, mod, _FakeClassNode("G" + clsname), [cls],
                            {"field_modulus": p, "degree": d})
            o = Obj(gcls)
            xs = []
            if clsname == "FQ":
                n = SInt(z3.Int("n"))
                path.assume(ZAtom(z3.And(zt(n) >= 0, zt(n) < zt(p))), "valid: 0 <= n < p")
                o.attrs["n"] = n
                xs = [zt(n)]
            else:
                cs = []
                gfq = ClassVal("GFQ", mod, _FakeClassNode("GFQ"), [it.module_value(mod, "FQ")], {"field_modulus": p})
                ns = []
                for i in range(d):
                    c = SInt(z3.Int(f"c{i}"))
                    path.assume(ZAtom(z3.And(zt(c) >= 0, zt(c) < zt(p))), "valid: 0 <= c_i < p")
                    ns.append(c)
                    if fq_coeffs:
                        # the optimized classes accept IntOrFQ coefficients: the same element, coefficients held as FQ objects
                        fo = Obj(gfq)
                        fo.attrs["n"] = c
                        cs.append(fo)
                    else:
                        cs.append(c)
                o.attrs["coeffs"] = tuple(cs)
                o.attrs["degree"] = d
                xs = [zt(c) for c in ns]
            fv, _ = gcls.lookup("sgn0")
            it.cfg.top = fv.qualname
            try:
                res = it.call_function(fv, [o], {}, recv=o, force_inline=True)
            except PyRaise as pr:
                path.prove(f"{name}/raises.none", False, detail=pr.exc_cls.__name__)
                return
            path.prove(f"{name}/ensures.rfc9380", ZAtom(zt(res) == rfc_sgn0(xs)),
                       detail="sgn0 = parity of the first non-zero coefficient (RFC 9380 section 4.1)")
        ctx.ex.run(body, name)
    run("FQ", 1)
    run("FQ2", 2)
    run("FQP", 3)
    run("FQP", 12)
    run("FQ2", 2, True)
    run("FQP", 3, True)


def u_fq_compare(ctx, modname):
    """comparison operators of FQ at integer level (z3), both files against the SAME reading: an FQ operand is compared by its
    canonical representative, an int operand is compared AS GIVEN (not reduced) — `FQ(3) == p + 3` is False in both files.
    ==, !=, <, and the functools.total_ordering derivations <=, >, >= for every n in [0, p) and every integer k."""
    import ast as _ast
    base = f"{modname}.FQ"
    OPS = [("__eq__", _ast.Eq, lambda a, b: a == b), ("__ne__", _ast.NotEq, lambda a, b: a != b), ("__lt__", _ast.Lt, lambda a, b: a < b),
           ("__le__", _ast.LtE, lambda a, b: a <= b), ("__gt__", _ast.Gt, lambda a, b: a > b), ("__ge__", _ast.GtE, lambda a, b: a >= b)]

    def run(opname, node, spec, operand):
        name = f"{base}.{opname}[{operand}]"

        def body(path):
            it = mk_interp(ctx, f"{base}.{opname}")
            mod = it.prog.load(modname)
            cls = it.module_value(mod, "FQ")
            p = SInt(z3.Int("p"))
            path.assume(p > 1, "modulus >= 2")
            gcls = ClassVal("GFQ", mod, _FakeClassNode("GFQ"), [cls], {"field_modulus": p})

            def elem(nm):
                o = Obj(gcls)
                n = SInt(z3.Int(nm))
                path.assume(ZAtom(z3.And(zt(n) >= 0, zt(n) < zt(p))), f"valid: 0 <= {nm} < p")
                o.attrs["n"] = n
                return o, n
            x, n = elem("n")
            if operand == "FQ":
                y, k = elem("m")
            elif operand == "int":
                k = SInt(z3.Int("k"))
                y = k
            else:
                y, k = None, None
            try:
                res = it.compare(node(), x, y)
            except PyRaise as pr:
                path.prove(f"{name}/raises.TypeError", operand == "neither" and pr.exc_cls is TypeError,
                           detail=f"raised {pr.exc_cls.__name__}")
                return
            if operand == "neither":
                if opname in ("__eq__", "__ne__"):
                    path.prove(f"{name}/raises.TypeError", False, detail="operand that is neither FQ nor int accepted")
                return
            got = res if isinstance(res, bool) else path.case(res, "result")
            want = spec(zt(n), zt(k))
            path.prove(f"{name}/ensures.iff", ZAtom(want if got else z3.Not(want)),
                       detail="the verdict is the comparison of the canonical representative n with " +
                              ("the other canonical representative" if operand == "FQ" else "the integer as given (not reduced)"))
        ctx.ex.run(body, name)
    for opname, node, spec in OPS:
        for operand in ("FQ", "int", "neither"):
            run(opname, node, spec, operand)


for _mod, _tag in ((REF, "ref"), (OPT, "opt")):
    UNITS[f"{_tag}.FQ.compare"] = Unit(f"{_tag}.FQ.compare", u_fq_compare,
                                       [f"{_mod}.FQ.{m}" for m in ("__eq__", "__ne__", "__lt__")], props=("C08", "C14"), args=(_mod,))

UNITS["opt.sgn0"] = Unit("opt.sgn0", u_sgn0, [f"{OPT}.FQ.sgn0", f"{OPT}.FQP.sgn0", f"{OPT}.FQ2.sgn0", f"{OPT}.mod_int"],
                         props=("C14", "C10"))


# ------------------------------------------------------------------------------------------
# FQP.inv for any degree (d = 2 and d = 12 instantiated): the extended Euclid under a loop contract
# ------------------------------------------------------------------------------------------
# State of the loop: four lists of length d+1 read as polynomials lm, hm, low, high.  Invariant
#   (I1)  lm(W)·A(W) = low(W)  and  hm(W)·A(W) = high(W)   in (Z/p)[W]/(M)       (A = abs(self))
#   (I3)  lm·high − hm·low = ±M   as polynomials (one step negates the left-hand side exactly)
#   (B)   high has exact degree dh >= 1, low has degree dl <= d-1 (exact unless low = 0),
#         lm[k] = 0 for k > d-dh,  hm[k] = 0 for k > d-dl
#   (T)   representation: low/high entries are valid field elements (reference: FQ objects, optimized:
#         reduced ints), lm/hm entries are ints (optimized: reduced)
# (B) is what makes the *truncated* products of the code (i+j <= d only) exact.  The quotient `r` is used
# through the contract of (optimized_)poly_rounded_div only: length, reducedness and leading coefficient —
# its lower coefficients are arbitrary (the code's division is not the textbook one, and need not be).
# Exit (deg(low) = 0, low = c): c != 0 unless self = 0 by lean/Euclid.lean:inv_exit_ne_zero from I1, I3, B and
# the class invariant 'M irreducible';  then  (lm/c)·A = 1  by I1.
# One Hoare-rule instance per degree pair (dh, dl): the lists are havocked with concrete zero tails.
def _poly_at(cs, X, K):
    acc, Xp = K(0), K(1)
    for c in cs:
        acc = acc + coeff_abs(c, K) * Xp
        Xp = Xp * X
    return acc


def _known_degree(path, cs, K, what):
    """exact degree of a coefficient list under the path facts (entries above provably zero, the entry itself
    provably non-zero); 0 for the provably zero list"""
    k = len(cs) - 1
    while k >= 0:
        n = coeff_abs(cs[k], K).r.n
        if path.pc.prove_zero(n):
            k -= 1
            continue
        if path.pc.prove_nonzero(n):
            return k
        raise Unsupported(f"{what}: degree not determined by the path facts at index {k}")
    return 0


class PolyRoundedDivContract:
    """(optimized_)poly_rounded_div(a, b) with deg a = da, deg b = db exact, b[db] != 0:
    returns a fresh sequence q of at most len(a) ints (any representatives), zero modulo p above index t = max(da-db,0),
    with q[t]·b[db] = a[da] when da >= db and q = 0 otherwise; a and b are not modified.  (The call-site instance has
    exactly t+1 entries; `inv` pads with zeros, so trailing zero entries make no difference.)  Proved against the real functions by the units *.poly_rounded_div."""

    def __init__(self, fs, as_list):
        self.fs, self.as_list = fs, as_list
        self.calls = 0

    def apply(self, interp, fv, env):
        path, K = cur(), self.fs.K
        a, b = env["a"], env["b"]
        if not (isinstance(a, list) and isinstance(b, list) and len(a) == len(b)):
            raise Unsupported("poly_rounded_div: operands are not lists of equal length")
        da, db = _known_degree(path, a, K, "dividend"), _known_degree(path, b, K, "divisor")
        lead = coeff_abs(b[db], K)
        if not path.pc.prove_nonzero(lead.r.n):
            raise Unsupported("poly_rounded_div: requires a non-zero divisor")
        self.calls += 1
        if da < db:
            q = [0]
        else:
            # arbitrary integer representatives: the callers must not rely on the quotient being stored reduced
            q = [Fld(R(Poly.var(f"r{next(path.fresh_id)}_{j}")), K, reduced=False) for j in range(da - db)]
            top = coeff_abs(a[da], K) / lead
            q.append(Fld(top.r, K, reduced=False))
        return q if self.as_list else tuple(q)


class EuclidLoop:
    def __init__(self, fs, name, mode, case=None):
        self.fs, self.name, self.mode, self.case = fs, name, mode, case
        self.after = None

    # ---- state -----------------------------------------------------------------------------
    def _fe(self, path, tag, zero=False, as_int=False):
        """a list entry of low/high: valid field element in the representation of the file"""
        fs = self.fs
        if zero and (as_int or fs.modname == OPT):
            return 0
        n = fs.K(0) if zero else Fld(R(Poly.var(f"{tag}")), fs.K, reduced=True)
        if fs.modname == OPT:
            return n
        o = Obj(fs.GFQ)
        o.attrs["n"] = n
        return o

    def _ie(self, tag, zero=False):
        """a list entry of lm/hm: an arbitrary int (read modulo p; nothing compares them)"""
        if zero:
            return 0
        return Fld(R(Poly.var(tag)), self.fs.K, reduced=False)

    def _assume_inv(self, path, st, W, A):
        K = self.fs.K
        path.assume(eqz(_poly_at(st["lm"], W, K) * A, _poly_at(st["low"], W, K)), "I1: lm·A = low in (Z/p)[W]/(M)")
        path.assume(eqz(_poly_at(st["hm"], W, K) * A, _poly_at(st["high"], W, K)), "I1: hm·A = high in (Z/p)[W]/(M)")

    def _det(self, st, X):
        K = self.fs.K
        return _poly_at(st["lm"], X, K) * _poly_at(st["high"], X, K) - _poly_at(st["hm"], X, K) * _poly_at(st["low"], X, K)

    def _zero_above(self, path, cs, k):
        K = self.fs.K
        return all(path.pc.prove_zero(coeff_abs(c, K).r.n) for c in cs[k + 1:])

    def _valid_fe(self, cs):
        fs = self.fs
        if fs.modname == OPT:
            return all(not isinstance(c, Obj) and coeff_reduced(c, fs.K) for c in cs)
        return all((isinstance(c, Obj) and c.cls.is_subclass(fs.FQ) and coeff_reduced(c, fs.K)) or (isinstance(c, int) and c == 0)
                   for c in cs)

    def _valid_int(self, cs):
        return all(isinstance(c, (int, Fld)) and not isinstance(c, bool) for c in cs)

    def _check_post(self, path, pre, post, dh, dl, W, X, A, tag):
        """the invariant after one step from a state with degrees (dh, dl)"""
        nm, K, d = self.name, self.fs.K, self.fs.d
        ok_shape = all(isinstance(post[k], list) and len(post[k]) == d + 1 for k in ("lm", "hm", "low", "high"))
        path.prove(f"{nm}/loop.euclid/preserve.shape", ok_shape, kind="invariant", detail=f"{tag}: four lists of length d+1")
        if not ok_shape:
            return
        path.prove(f"{nm}/loop.euclid/preserve.I1", eqz(_poly_at(post["lm"], W, K) * A, _poly_at(post["low"], W, K)),
                   kind="invariant", detail=f"{tag}: lm'·A = low' modulo M")
        path.prove(f"{nm}/loop.euclid/preserve.I1", eqz(_poly_at(post["hm"], W, K) * A, _poly_at(post["high"], W, K)),
                   kind="invariant", detail=f"{tag}: hm'·A = high' modulo M")
        path.prove(f"{nm}/loop.euclid/preserve.I3", eqz(self._det(post, X) + self._det(pre, X)), kind="invariant",
                   detail=f"{tag}: lm'·high' − hm'·low' = −(lm·high − hm·low) exactly (no truncated term)")
        # (B): high' = low (degree dl exact), lm' zero above d-dl; low' of degree <= dlb, hm' zero above d-dlb
        dlb = dh - 1 if dh >= dl else dh
        b1 = self._zero_above(path, post["high"], dl) and path.pc.prove_nonzero(coeff_abs(post["high"][dl], K).r.n)
        path.prove(f"{nm}/loop.euclid/preserve.B", b1, kind="invariant", detail=f"{tag}: high' has exact degree {dl} >= 1", via="polyid")
        path.prove(f"{nm}/loop.euclid/preserve.B", self._zero_above(path, post["lm"], d - dl), kind="invariant",
                   detail=f"{tag}: lm'[k] = 0 for k > d - deg high' = {d - dl}", via="polyid")
        path.prove(f"{nm}/loop.euclid/preserve.B", self._zero_above(path, post["low"], min(dlb, d - 1)), kind="invariant",
                   detail=f"{tag}: low'[k] = 0 for k > {min(dlb, d - 1)} (degree drops below deg high = {dh})", via="polyid")
        path.prove(f"{nm}/loop.euclid/preserve.B", self._zero_above(path, post["hm"], d - dlb), kind="invariant",
                   detail=f"{tag}: hm'[k] = 0 for k > d - {dlb}", via="polyid")
        path.prove(f"{nm}/loop.euclid/preserve.T", self._valid_fe(post["low"]) and self._valid_fe(post["high"]) and
                   self._valid_int(post["lm"]) and self._valid_int(post["hm"]), kind="invariant",
                   detail=f"{tag}: representation of the four lists")
        before = 2 * (dh + dl) + (1 if dh < dl else 0)
        after = 2 * (dl + dlb) + (1 if dh >= dl else 0)
        path.prove(f"{nm}/loop.euclid/decreases", after < before, kind="decreases",
                   detail=f"{tag}: 2(deg high + deg low) + [deg high < deg low]: {before} -> at most {after}")

    def _read(self, fr):
        return {k: fr.env[k] for k in ("lm", "hm", "low", "high")}

    # ---- the three instances of the Hoare rule -------------------------------------------------
    def run_while(self, interp, st, fr):
        path = cur()
        fs, K, d, nm = self.fs, self.fs.K, self.fs.d, self.name
        prev, path.in_source = path.in_source, False
        try:
            W, X = path.ghost["W"], path.ghost["X"]
            A = fqp_poly(fr.env["self"], W, K)
            if self.mode == "first":
                init = self._read(fr)
                path.prove(f"{nm}/loop.euclid/entry.I1", eqz(_poly_at(init["lm"], W, K) * A, _poly_at(init["low"], W, K)),
                           kind="invariant", detail="1·A = A")
                path.prove(f"{nm}/loop.euclid/entry.I1", eqz(_poly_at(init["hm"], W, K) * A, _poly_at(init["high"], W, K)),
                           kind="invariant", detail="0·A = M(W) = 0 in the quotient")
                MX = modulus_poly(fs.mods, X, K)
                path.prove(f"{nm}/loop.euclid/entry.I3", eqz(self._det(init, X), MX), kind="invariant", detail="1·M − 0·A = M")
                b = self._zero_above(path, init["lm"], 0) and self._zero_above(path, init["hm"], -1) and \
                    self._zero_above(path, init["low"], d - 1) and path.pc.prove_nonzero(coeff_abs(init["high"][d], K).r.n)
                path.prove(f"{nm}/loop.euclid/entry.B", b, kind="invariant", detail="deg high = d, lm = 1, hm = 0, deg low <= d-1", via="polyid")
                path.in_source = True
                g = interp.truth(interp.eval(st.test, fr), "loop guard")
                path.in_source = False
                if not g:
                    self.after = ("exit-first", None)
                    return                                  # deg(self) = 0: the code after the loop runs on the real state
                dl = _known_degree(path, init["low"], K, "low")
                pre = {k: list(v) for k, v in init.items()}
                path.in_source = True
                interp.exec_block(st.body, fr)
                path.in_source = False
                self._check_post(path, pre, self._read(fr), d, dl, W, X, A, f"first iteration, deg self = {dl}")
                raise PathAbort()
            dh, dl, top_int = self.case
            pre = dict(
                lm=[self._ie(f"lm{k}", zero=(k > d - dh)) for k in range(d + 1)],
                hm=[self._ie(f"hm{k}", zero=(k > d - dl)) for k in range(d + 1)],
                low=[self._fe(path, f"lo{k}", zero=(k > dl)) for k in range(d + 1)],
                high=[self._fe(path, f"hi{k}", zero=(k > dh), as_int=(top_int and k == d)) for k in range(d + 1)])
            path.assume(FAtom(coeff_abs(pre["high"][dh], K).r.n, False), "B: high has exact degree dh")
            if dl > 0:
                path.assume(FAtom(coeff_abs(pre["low"][dl], K).r.n, False), "B: low has exact degree dl")
            self._assume_inv(path, pre, W, A)
            for k, v in pre.items():
                fr.env[k] = list(v)
            path.in_source = True
            g = interp.truth(interp.eval(st.test, fr), "loop guard")
            path.in_source = False
            if self.mode == "step":
                path.prove(f"{nm}/loop.euclid/guard", g is True, kind="invariant", detail=f"deg low = {dl} >= 1: the loop continues")
                if not g:
                    raise PathAbort()
                path.in_source = True
                interp.exec_block(st.body, fr)
                path.in_source = False
                self._check_post(path, pre, self._read(fr), dh, dl, W, X, A, f"deg high = {dh}, deg low = {dl}")
                raise PathAbort()
            # exit: low = c
            path.prove(f"{nm}/loop.euclid/guard", g is False, kind="invariant", detail="deg low = 0: the loop stops")
            if g:
                raise PathAbort()
            self.after = ("exit", pre)
        finally:
            path.in_source = prev


def _euclid_env(ctx, path, modname, d, mode, case):
    q = f"{modname}.FQP.inv"
    it, fs, W = _fqp_env(ctx, path, modname, d, top=q)
    path.ghost["X"] = fsym("X", fs.K)
    lc = EuclidLoop(fs, f"{q}[d={d}]", mode, case)
    it.cfg.loops[(q, 0)] = lc
    prd = f"{UTILS}.poly_rounded_div" if modname == REF else f"{modname}.FQP.optimized_poly_rounded_div"
    it.cfg.contracts[prd] = PolyRoundedDivContract(fs, as_list=(modname == OPT))
    return it, fs, W, lc


def _check_inverse(path, name, fs, W, x, res):
    A = fqp_poly(x, W, fs.K)
    ok = isinstance(res, Obj) and res.cls is fs.GX and isinstance(res.attrs.get("coeffs"), tuple) and len(res.attrs["coeffs"]) == fs.d
    path.prove(f"{name}/ensures.type", ok, detail="result is an object of type(self) with d coefficients")
    if not ok:
        return
    path.prove(f"{name}/ensures.valid", all(coeff_reduced(c, fs.K) for c in res.attrs["coeffs"]), detail="coefficients stored reduced")
    return fqp_poly(res, W, fs.K), A


def u_fqp_inv_euclid(ctx, modname, d, dh):
    """dh = 0: entry + peeled first iteration from the real initial state (all degrees of self) and the immediate exit;
    dh >= 1: every step and the exit from a state whose `high` has degree dh"""
    q = f"{modname}.FQP.inv"
    name = f"{q}[d={d}]"
    from contracts.closed import lean_cite

    if dh == 0:
        def body(path):
            it, fs, W, lc = _euclid_env(ctx, path, modname, d, "first", None)
            x = fs.sym_fqp("a")
            k, res = call_method(it, x, "inv", [])
            if k == "raise":
                path.prove(f"{name}/raises.none", False, detail=f"raised {res.__name__}")
                return
            # only the path on which the loop is not entered arrives here: self = a0 constant
            got = _check_inverse(path, name, fs, W, x, res)
            if got is None:
                return
            Rv, A = got
            if path.case(eqz(A), "self = 0?"):
                path.prove(f"{name}/ensures.inv0", eqz(Rv), detail="inv(0) = 0")
            else:
                path.prove(f"{name}/ensures.inverse", eqz(Rv * A, fs.K(1)), detail="constant self: inv(x)·x = 1")
        ctx.ex.run(body, name + "/first")
        return

    def step(path):
        cases = [(dl, t) for dl in range(1, d) for t in ((False, True) if dh < d else (False,))]
        c = path.choose(len(cases), "degree of low / representation of the zero top entry")
        dl, top_int = cases[c]
        path.sig[-1] = f"dh={dh},dl={dl}" + (",top=int0" if top_int else "")
        it, fs, W, lc = _euclid_env(ctx, path, modname, d, "step", (dh, dl, top_int))
        x = fs.sym_fqp("a")
        call_method(it, x, "inv", [])
        path.prove(f"{name}/loop.euclid/guard", False, detail="step instance fell out of the loop contract")
    ctx.ex.run(step, name + f"/step[dh={dh}]")

    def exit_(path):
        it, fs, W, lc = _euclid_env(ctx, path, modname, d, "exit", (dh, 0, False))
        x = fs.sym_fqp("a")
        k, res = call_method(it, x, "inv", [])
        if k == "raise":
            path.prove(f"{name}/raises.none", False, detail=f"raised {res.__name__}")
            return
        got = _check_inverse(path, name, fs, W, x, res)
        if got is None or lc.after is None:
            return
        Rv, A = got
        c = coeff_abs(lc.after[1]["low"][0], fs.K)
        if path.pc.prove_zero(c.r.n):
            # c = 0: by L-EUCLID (I1, I3, B, M irreducible) this happens only for self = 0; the code then returns lm/0 = 0
            path.prove(f"{name}/ensures.inv0", eqz(Rv), detail="exit with low = 0 (only for self = 0, lean/Euclid.lean): result is 0")
        else:
            path.prove(f"{name}/ensures.inverse", eqz(Rv * A, fs.K(1)), detail=f"exit with low = c != 0, deg high = {dh}: (lm/c)·A = 1 by I1")
    ctx.ex.run(exit_, name + f"/exit[dh={dh}]")
    if dh == 1:
        lean_cite(ctx, [("Euclid.lean", "inv_exit_ne_zero", "exit of the extended Euclid: low = c with I1, I3, deg high >= 1, M irreducible, M ∤ self ⇒ c ≠ 0"),
                        ("Euclid.lean", "euclid_not_dvd", "a non-zero polynomial of degree < deg M is not divisible by M")])
        ctx.assume("class invariant (precondition on user instantiations): the modulus polynomial is irreducible over Z/p, used only through "
                   "lean/Euclid.lean at the loop exit; for the eight real extension classes it is the closed fact fields.modulus-irreducible "
                   "(Rabin's test, evaluated on every run)")


def u_poly_rounded_div(ctx, modname, d):
    """the contract PolyRoundedDivContract against the real function, for every degree pair"""
    ref = modname == REF
    q = f"{UTILS}.poly_rounded_div" if ref else f"{modname}.FQP.optimized_poly_rounded_div"
    name = f"{q}[len={d + 1}]"

    def body(path):
        cases = [(da, db) for da in range(0, d + 1) for db in range(1, d + 1)]
        c = path.choose(len(cases), "degrees")
        da, db = cases[c]
        path.sig[-1] = f"da={da},db={db}"
        it, fs, W = _fqp_env(ctx, path, modname, d, top=q)
        lc = EuclidLoop(fs, name, "none")
        a = [lc._fe(path, f"a{k}", zero=(k > da)) for k in range(d + 1)]
        b = [lc._fe(path, f"b{k}", zero=(k > db)) for k in range(d + 1)]
        path.assume(FAtom(coeff_abs(b[db], fs.K).r.n, False), "requires: b has exact degree db")
        if da > 0:
            path.assume(FAtom(coeff_abs(a[da], fs.K).r.n, False), "requires: a has exact degree da")
        a0, b0 = list(a), list(b)
        try:
            if ref:
                fv = it.module_value(it.prog.load(UTILS), "poly_rounded_div")
                it.cfg.top = q
                res = it.call_function(fv, [a, b], {}, force_inline=True)
            else:
                x = fs.sym_fqp("s")
                k, res = call_method(it, x, "optimized_poly_rounded_div", [a, b])
                if k == "raise":
                    raise PyRaise(res, "")
        except PyRaise as pr:
            path.prove(f"{name}/raises.none", False, detail=f"raised {pr.exc_cls.__name__}")
            return
        t = max(da - db, 0)
        ok = isinstance(res, (tuple, list)) and t + 1 <= len(res) <= d + 1 and \
            all(isinstance(c_, (int, Fld)) and not isinstance(c_, bool) for c_ in res)
        path.prove(f"{name}/ensures.length", ok, detail=f"between {t + 1} and d+1 int coefficients for degrees ({da}, {db})")
        if not ok:
            return
        path.prove(f"{name}/ensures.degree", all(path.pc.prove_zero(coeff_abs(c_, fs.K).r.n) for c_ in res[t + 1:]),
                   detail=f"coefficients above index {t} are zero modulo p", via="polyid")
        if da >= db:
            path.prove(f"{name}/ensures.lead", eqz(coeff_abs(res[t], fs.K) * coeff_abs(b[db], fs.K), coeff_abs(a[da], fs.K)),
                       detail="leading coefficient: q[top]·b[db] = a[da]")
        else:
            path.prove(f"{name}/ensures.lead", eqz(coeff_abs(res[0], fs.K)), detail="deg a < deg b: quotient 0")
        path.prove(f"{name}/frame", len(a) == len(a0) and all(u is v for u, v in zip(a, a0)) and
                   len(b) == len(b0) and all(u is v for u, v in zip(b, b0)), kind="frame", detail="operands are not modified")
    ctx.ex.run(body, name)


for _mod, _tag in ((REF, "ref"), (OPT, "opt")):
    _prd = f"{UTILS}.poly_rounded_div" if _mod == REF else f"{_mod}.FQP.optimized_poly_rounded_div"
    for _d in (2, 12):
        for _dh in range(0, _d + 1):
            UNITS[f"{_tag}.FQP.inv.d{_d}.dh{_dh}"] = Unit(f"{_tag}.FQP.inv.d{_d}.dh{_dh}", u_fqp_inv_euclid,
                                                         [f"{_mod}.FQP.inv", f"{UTILS}.deg"], props=("C08", "C14"), args=(_mod, _d, _dh))
        UNITS[f"{_tag}.poly_rounded_div.d{_d}"] = Unit(f"{_tag}.poly_rounded_div.d{_d}", u_poly_rounded_div, [_prd, f"{UTILS}.deg"],
                                                      props=("C08", "C14"), args=(_mod, _d))
