import Mathlib.AlgebraicGeometry.EllipticCurve.Affine.Point
import Mathlib.Tactic.LinearCombination
import Mathlib.Tactic.FieldSimp

open WeierstrassCurve

variable {F : Type} [Field F] [DecidableEq F]

/-- short Weierstrass curve y^2 = x^3 + b -/
def Wb (b : F) : WeierstrassCurve.Affine F := ⟨0, 0, 0, 0, b⟩

omit [DecidableEq F] in
lemma eqn_iff (b x y : F) : (Wb b).Equation x y ↔ y ^ 2 = x ^ 3 + b := by
  rw [WeierstrassCurve.Affine.equation_iff]
  simp [Wb]

lemma nonsing_of_eqn (b : F) (hb : b ≠ 0) (h2 : (2 : F) ≠ 0) (h3 : (3 : F) ≠ 0) (x y : F)
    (h : y ^ 2 = x ^ 3 + b) : (Wb b).Nonsingular x y := by
  rw [WeierstrassCurve.Affine.nonsingular_iff']
  refine ⟨(eqn_iff b x y).2 h, ?_⟩
  simp only [Wb, zero_mul, mul_zero, add_zero, zero_sub]
  by_cases hy : y = 0
  · left
    subst hy
    have hx : x ≠ 0 := by
      rintro rfl
      apply hb
      have := h
      simp at this
      exact this.symm ▸ rfl
    simp [h3, hx]
  · right
    simp [h2, hy]

/-- the spec law used by the contracts -/
def specAdd (P Q : Option (F × F)) : Option (F × F) :=
  match P, Q with
  | none, Q => Q
  | P, none => P
  | some (x1, y1), some (x2, y2) =>
    if x1 = x2 ∧ y1 = -y2 then none
    else if x1 = x2 then
      let m := 3 * x1 ^ 2 / (2 * y1)
      let x3 := m ^ 2 - 2 * x1
      some (x3, -m * x3 + m * x1 - y1)
    else
      let m := (y2 - y1) / (x2 - x1)
      let x3 := m ^ 2 - x1 - x2
      some (x3, -m * x3 + m * x1 - y1)

def toOpt {b : F} : (Wb b).Point → Option (F × F)
  | .zero => none
  | .some x y _ => some (x, y)

omit [DecidableEq F] in
lemma negY_Wb (b x y : F) : (Wb b).negY x y = -y := by
  simp [WeierstrassCurve.Affine.negY, Wb]

theorem toOpt_add {b : F} (P Q : (Wb b).Point) :
    toOpt (P + Q) = specAdd (toOpt P) (toOpt Q) := by
  rcases P with _ | ⟨x1, y1, hP⟩ <;> rcases Q with _ | ⟨x2, y2, hQ⟩
  · rfl
  · show toOpt ((0 : (Wb b).Point) + _) = _
    rw [zero_add]; rfl
  · show toOpt (_ + (0 : (Wb b).Point)) = _
    rw [add_zero]; rfl
  · by_cases hxy : x1 = x2 ∧ y1 = (Wb b).negY x2 y2
    · rw [WeierstrassCurve.Affine.Point.add_of_Y_eq hxy.1 hxy.2]
      have h' : x1 = x2 ∧ y1 = -y2 := by rw [negY_Wb] at hxy; exact hxy
      show none = specAdd (some (x1, y1)) (some (x2, y2))
      simp only [specAdd]
      rw [if_pos h']
    · rw [WeierstrassCurve.Affine.Point.add_some hxy]
      have hxy' : ¬ (x1 = x2 ∧ y1 = -y2) := by rw [negY_Wb] at hxy; exact hxy
      by_cases hx : x1 = x2
      · subst hx
        have hy : y1 ≠ (Wb b).negY x1 y2 := fun h => hxy ⟨rfl, h⟩
        show some ((Wb b).addX x1 x1 ((Wb b).slope x1 x1 y1 y2),
          (Wb b).addY x1 x1 y1 ((Wb b).slope x1 x1 y1 y2)) = specAdd (some (x1, y1)) (some (x1, y2))
        rw [WeierstrassCurve.Affine.slope_of_Y_ne rfl hy]
        have hne : ¬ (y1 = -y2) := fun h => hxy' ⟨rfl, h⟩
        simp only [specAdd, true_and, if_neg hne, if_true]
        simp only [WeierstrassCurve.Affine.addX, WeierstrassCurve.Affine.addY,
          WeierstrassCurve.Affine.negAddY, WeierstrassCurve.Affine.negY, Wb]
        congr 1
        refine Prod.ext ?_ ?_ <;> simp only <;> ring
      · show some ((Wb b).addX x1 x2 ((Wb b).slope x1 x2 y1 y2),
          (Wb b).addY x1 x2 y1 ((Wb b).slope x1 x2 y1 y2)) = specAdd (some (x1, y1)) (some (x2, y2))
        rw [WeierstrassCurve.Affine.slope_of_X_ne hx]
        simp only [specAdd]
        rw [if_neg hxy', if_neg hx]
        have hm : (y2 - y1) / (x2 - x1) = (y1 - y2) / (x1 - x2) := by
          rw [← neg_sub y1 y2, ← neg_sub x1 x2, neg_div_neg_eq]
        rw [hm]
        simp only [WeierstrassCurve.Affine.addX, WeierstrassCurve.Affine.addY,
          WeierstrassCurve.Affine.negAddY, WeierstrassCurve.Affine.negY, Wb]
        congr 1
        refine Prod.ext ?_ ?_ <;> simp only <;> ring

/-- on-curve predicate for the option representation -/
def OnCurve (b : F) : Option (F × F) → Prop
  | none => True
  | some (x, y) => y ^ 2 = x ^ 3 + b

section axioms
variable {b : F} (hb : b ≠ 0) (h2 : (2 : F) ≠ 0) (h3 : (3 : F) ≠ 0)
include hb h2 h3

lemma exists_point (p : Option (F × F)) (hp : OnCurve b p) : ∃ P : (Wb b).Point, toOpt P = p := by
  rcases p with _ | ⟨x, y⟩
  · exact ⟨0, rfl⟩
  · exact ⟨.some x y (nonsing_of_eqn b hb h2 h3 x y hp), rfl⟩

theorem specAdd_comm (p q : Option (F × F)) (hp : OnCurve b p) (hq : OnCurve b q) :
    specAdd p q = specAdd q p := by
  obtain ⟨P, rfl⟩ := exists_point hb h2 h3 p hp
  obtain ⟨Q, rfl⟩ := exists_point hb h2 h3 q hq
  rw [← toOpt_add, ← toOpt_add, add_comm]

theorem specAdd_assoc (p q s : Option (F × F)) (hp : OnCurve b p) (hq : OnCurve b q)
    (hs : OnCurve b s) : specAdd (specAdd p q) s = specAdd p (specAdd q s) := by
  obtain ⟨P, rfl⟩ := exists_point hb h2 h3 p hp
  obtain ⟨Q, rfl⟩ := exists_point hb h2 h3 q hq
  obtain ⟨S, rfl⟩ := exists_point hb h2 h3 s hs
  rw [← toOpt_add, ← toOpt_add, ← toOpt_add, ← toOpt_add, add_assoc]

theorem specAdd_onCurve (p q : Option (F × F)) (hp : OnCurve b p) (hq : OnCurve b q) :
    OnCurve b (specAdd p q) := by
  obtain ⟨P, rfl⟩ := exists_point hb h2 h3 p hp
  obtain ⟨Q, rfl⟩ := exists_point hb h2 h3 q hq
  rw [← toOpt_add]
  rcases (P + Q) with _ | ⟨x, y, h⟩
  · trivial
  · exact (eqn_iff b x y).1 h.1
end axioms

/-! ### identity, inverse, doubling -/

theorem specAdd_none_left (q : Option (F × F)) : specAdd none q = q := by
  cases q <;> rfl

theorem specAdd_none_right (p : Option (F × F)) : specAdd p none = p := by
  rcases p with _ | ⟨x, y⟩ <;> rfl

/-- spec negation -/
def specNeg : Option (F × F) → Option (F × F)
  | none => none
  | some (x, y) => some (x, -y)

theorem specAdd_neg (x y : F) : specAdd (some (x, y)) (some (x, -y)) = none := by
  simp [specAdd]

theorem specAdd_neg' (x y : F) : specAdd (some (x, -y)) (some (x, y)) = none := by
  simp [specAdd]

theorem specAdd_specNeg (p : Option (F × F)) : specAdd p (specNeg p) = none := by
  rcases p with _ | ⟨x, y⟩
  · rfl
  · exact specAdd_neg x y

theorem specNeg_specAdd (p : Option (F × F)) : specAdd (specNeg p) p = none := by
  rcases p with _ | ⟨x, y⟩
  · rfl
  · exact specAdd_neg' x y

omit [DecidableEq F] in
theorem specNeg_specNeg (p : Option (F × F)) : specNeg (specNeg p) = p := by
  rcases p with _ | ⟨x, y⟩
  · rfl
  · simp [specNeg]

omit [DecidableEq F] in
theorem specNeg_onCurve (b : F) (p : Option (F × F)) (hp : OnCurve b p) :
    OnCurve b (specNeg p) := by
  rcases p with _ | ⟨x, y⟩
  · trivial
  · show (-y) ^ 2 = x ^ 3 + b
    rw [neg_sq]; exact hp

/-- doubling formula (tangent case) -/
theorem specAdd_self (x y : F) (h2 : (2 : F) ≠ 0) (hy : y ≠ 0) :
    specAdd (some (x, y)) (some (x, y)) =
      some ((3 * x ^ 2 / (2 * y)) ^ 2 - 2 * x,
        -(3 * x ^ 2 / (2 * y)) * ((3 * x ^ 2 / (2 * y)) ^ 2 - 2 * x)
          + (3 * x ^ 2 / (2 * y)) * x - y) := by
  have hne : ¬ (y = -y) := by
    intro h
    have : 2 * y = 0 := by linear_combination h
    rcases mul_eq_zero.mp this with h | h
    · exact h2 h
    · exact hy h
  simp only [specAdd, true_and, if_neg hne, if_true]

/-- a point of order two doubles to the identity -/
theorem specAdd_self_of_y_eq_zero (x : F) : specAdd (some (x, 0)) (some (x, 0)) = none := by
  simp [specAdd]

/-- chord formula -/
theorem specAdd_chord (x1 y1 x2 y2 : F) (hx : x1 ≠ x2) :
    specAdd (some (x1, y1)) (some (x2, y2)) =
      some (((y2 - y1) / (x2 - x1)) ^ 2 - x1 - x2,
        -((y2 - y1) / (x2 - x1)) * (((y2 - y1) / (x2 - x1)) ^ 2 - x1 - x2)
          + ((y2 - y1) / (x2 - x1)) * x1 - y1) := by
  have h1 : ¬ (x1 = x2 ∧ y1 = -y2) := fun h => hx h.1
  simp only [specAdd, if_neg h1, if_neg hx]

/-! ### the scaling isomorphism `(x, y) ↦ (x / c², y / c³)` from `y² = x³ + b` to
`y² = x³ + b / c⁶` (twist / untwist maps) -/

omit [DecidableEq F] in
theorem scale_eqn (c b x y : F) (hc : c ≠ 0) (h : y ^ 2 = x ^ 3 + b) :
    (y / c ^ 3) ^ 2 = (x / c ^ 2) ^ 3 + b / c ^ 6 := by
  field_simp
  linear_combination h

omit [DecidableEq F] in
theorem scale_eqn_iff (c b x y : F) (hc : c ≠ 0) :
    (y / c ^ 3) ^ 2 = (x / c ^ 2) ^ 3 + b / c ^ 6 ↔ y ^ 2 = x ^ 3 + b := by
  constructor
  · intro h
    field_simp at h
    linear_combination h
  · exact scale_eqn c b x y hc

def scalePt (c : F) : Option (F × F) → Option (F × F)
  | none => none
  | some (x, y) => some (x / c ^ 2, y / c ^ 3)

omit [DecidableEq F] in
theorem scalePt_onCurve (c b : F) (hc : c ≠ 0) (p : Option (F × F)) (hp : OnCurve b p) :
    OnCurve (b / c ^ 6) (scalePt c p) := by
  rcases p with _ | ⟨x, y⟩
  · trivial
  · exact scale_eqn c b x y hc hp

omit [DecidableEq F] in
theorem scalePt_onCurve_iff (c b : F) (hc : c ≠ 0) (p : Option (F × F)) :
    OnCurve (b / c ^ 6) (scalePt c p) ↔ OnCurve b p := by
  rcases p with _ | ⟨x, y⟩
  · exact Iff.rfl
  · exact scale_eqn_iff c b x y hc

omit [DecidableEq F] in
theorem scalePt_specNeg (c : F) (p : Option (F × F)) :
    scalePt c (specNeg p) = specNeg (scalePt c p) := by
  rcases p with _ | ⟨x, y⟩
  · rfl
  · simp [scalePt, specNeg, neg_div]

omit [DecidableEq F] in
theorem scalePt_injective (c : F) (hc : c ≠ 0) (p q : Option (F × F))
    (h : scalePt c p = scalePt c q) : p = q := by
  have h2 : c ^ 2 ≠ 0 := pow_ne_zero 2 hc
  have h3 : c ^ 3 ≠ 0 := pow_ne_zero 3 hc
  rcases p with _ | ⟨x1, y1⟩ <;> rcases q with _ | ⟨x2, y2⟩
  · rfl
  · simp [scalePt] at h
  · simp [scalePt] at h
  · simp only [scalePt, Option.some.injEq, Prod.mk.injEq] at h
    rw [div_left_inj' h2, div_left_inj' h3] at h
    rw [h.1, h.2]

/-- slope of the tangent scales by `1 / c` (holds also when `y = 0`, both sides being `0`) -/
lemma tangent_slope_scale (c x y : F) (hc : c ≠ 0) :
    3 * (x / c ^ 2) ^ 2 / (2 * (y / c ^ 3)) = 3 * x ^ 2 / (2 * y) / c := by
  by_cases hy : 2 * y = 0
  · have : 2 * (y / c ^ 3) = 0 := by rw [← mul_div_assoc, hy, zero_div]
    rw [this, hy, div_zero, div_zero, zero_div]
  · have hy2 : (2 : F) ≠ 0 := left_ne_zero_of_mul hy
    have hy1 : y ≠ 0 := right_ne_zero_of_mul hy
    field_simp

/-- slope of the chord scales by `1 / c` -/
lemma chord_slope_scale (c x1 y1 x2 y2 : F) (hc : c ≠ 0) :
    (y2 / c ^ 3 - y1 / c ^ 3) / (x2 / c ^ 2 - x1 / c ^ 2) = (y2 - y1) / (x2 - x1) / c := by
  by_cases hx : x2 - x1 = 0
  · have : x2 / c ^ 2 - x1 / c ^ 2 = 0 := by rw [← sub_div, hx, zero_div]
    rw [this, hx, div_zero, div_zero, zero_div]
  · field_simp

/-- the scaling map commutes with the spec addition law (all cases, no on-curve hypothesis) -/
theorem scalePt_specAdd (c : F) (hc : c ≠ 0) (p q : Option (F × F)) :
    scalePt c (specAdd p q) = specAdd (scalePt c p) (scalePt c q) := by
  have h2 : c ^ 2 ≠ 0 := pow_ne_zero 2 hc
  have h3 : c ^ 3 ≠ 0 := pow_ne_zero 3 hc
  rcases p with _ | ⟨x1, y1⟩ <;> rcases q with _ | ⟨x2, y2⟩
  · rfl
  · rfl
  · rfl
  · have ex : x1 / c ^ 2 = x2 / c ^ 2 ↔ x1 = x2 := div_left_inj' h2
    have ey : y1 / c ^ 3 = -(y2 / c ^ 3) ↔ y1 = -y2 := by
      rw [← neg_div, div_left_inj' h3]
    by_cases hxy : x1 = x2 ∧ y1 = -y2
    · have hxy' : x1 / c ^ 2 = x2 / c ^ 2 ∧ y1 / c ^ 3 = -(y2 / c ^ 3) := ⟨ex.2 hxy.1, ey.2 hxy.2⟩
      simp only [specAdd, scalePt, if_pos hxy, if_pos hxy']
    · have hxy' : ¬ (x1 / c ^ 2 = x2 / c ^ 2 ∧ y1 / c ^ 3 = -(y2 / c ^ 3)) :=
        fun h => hxy ⟨ex.1 h.1, ey.1 h.2⟩
      by_cases hx : x1 = x2
      · have hx' : x1 / c ^ 2 = x2 / c ^ 2 := ex.2 hx
        simp only [specAdd, scalePt, if_neg hxy, if_neg hxy', if_pos hx, if_pos hx']
        rw [tangent_slope_scale c x1 y1 hc]
        congr 1
        refine Prod.ext ?_ ?_ <;> simp only <;> field_simp
      · have hx' : ¬ (x1 / c ^ 2 = x2 / c ^ 2) := fun h => hx (ex.1 h)
        simp only [specAdd, scalePt, if_neg hxy, if_neg hxy', if_neg hx, if_neg hx']
        rw [chord_slope_scale c x1 y1 x2 y2 hc]
        congr 1
        refine Prod.ext ?_ ?_ <;> simp only <;> field_simp

#print axioms specAdd_assoc
#print axioms toOpt_add
#print axioms scalePt_specAdd
