import Mathlib.Algebra.Polynomial.FieldDivision
import Mathlib.RingTheory.Polynomial.Basic
import Mathlib.Tactic

open Polynomial

/-! L-EUCLID: exit lemma of the extended Euclid in `FQP.inv`.

State at loop exit: `low = C c`, with the invariants
  (I1)  `M ∣ lm * a - low`            (lm·a ≡ low  mod M)
  (I3)  `lm * high - hm * low = C s * M`,  `s ≠ 0`   (s = ±1 in the code)
  (deg) `1 ≤ natDegree high`
`M` irreducible and `¬ M ∣ a` (a ≠ 0 of degree < deg M).  Then `c ≠ 0`. -/
theorem inv_exit_ne_zero {F : Type*} [Field F] (M a lm hm high : F[X]) (c s : F) (hs : s ≠ 0)
    (hM : Irreducible M) (hdet : lm * high - hm * C c = C s * M) (hdeg : 1 ≤ high.natDegree)
    (hI1 : M ∣ lm * a - C c) (ha : ¬ M ∣ a) : c ≠ 0 := by
  intro hc
  subst hc
  simp only [map_zero, mul_zero, sub_zero] at hdet hI1
  -- lm * high = C s * M, so C s⁻¹ * lm * high = M
  have hM' : M = (C s⁻¹ * lm) * high := by
    have : C s⁻¹ * (lm * high) = C s⁻¹ * (C s * M) := by rw [hdet]
    rw [← mul_assoc, ← mul_assoc, ← C_mul, inv_mul_cancel₀ hs, C_1, one_mul] at this
    exact this.symm
  rcases hM.isUnit_or_isUnit hM' with hu | hu
  · -- C s⁻¹ * lm is a unit, hence lm is a unit, hence M ∣ a
    have hlm : IsUnit lm := by
      have h1 : IsUnit (C s * (C s⁻¹ * lm)) := (isUnit_C.mpr (IsUnit.mk0 s hs)).mul hu
      rwa [← mul_assoc, ← C_mul, mul_inv_cancel₀ hs, C_1, one_mul] at h1
    exact ha ((hlm.dvd_mul_left).mp hI1)
  · -- high would be a unit: impossible, its degree is >= 1
    have := natDegree_eq_zero_of_isUnit hu
    omega

/-- a non-zero polynomial of smaller degree is not divisible by M -/
theorem euclid_not_dvd {F : Type*} [Field F] (M a : F[X]) (ha : a ≠ 0) (hd : a.degree < M.degree) :
    ¬ M ∣ a := by
  intro h
  exact absurd (degree_le_of_dvd h ha) (not_le.mpr hd)

#print axioms inv_exit_ne_zero
#print axioms euclid_not_dvd
