import Mathlib.Algebra.Field.Basic
import Mathlib.Tactic

/-! L-ECDSA: the scalar-field algebra behind ECDSA signing / verification / public-key recovery.
`K` is the scalar field `ZMod n` of the curve (any field works).  Notation:
`k` nonce, `z` message hash, `r` x-coordinate of `k•G` reduced, `d` private key,
`s = k⁻¹ (z + r d)`.  The group-level statements follow by applying `• G` and the
scalar-action laws of `Cyclic.lean`:  `R = k•G`, `Q = d•G`. -/

variable {K : Type*} [Field K]

/-- (a) recovery: `r⁻¹ (s R - z G)` has discrete log `r⁻¹ (s k - z) = d`. -/
theorem ecdsa_recover (k z r d s : K) (hk : k ≠ 0) (hr : r ≠ 0)
    (hs : s = k⁻¹ * (z + r * d)) : r⁻¹ * (s * k - z) = d := by
  subst hs
  field_simp
  ring

/-- (b) verification: `u1 G + u2 Q` with `u1 = z s⁻¹`, `u2 = r s⁻¹` has discrete log `k`. -/
theorem ecdsa_verify (k z r d s : K) (hk : k ≠ 0) (hs0 : s ≠ 0)
    (hs : s = k⁻¹ * (z + r * d)) : z * s⁻¹ + r * s⁻¹ * d = k := by
  have hzr : z + r * d ≠ 0 := by
    intro h
    apply hs0
    rw [hs, h, mul_zero]
  have hsk : s * k = z + r * d := by
    rw [hs]; field_simp
  have : z * s⁻¹ + r * s⁻¹ * d = (z + r * d) * s⁻¹ := by ring
  rw [this, ← hsk]
  field_simp

/-- (c) low-s flip: `(r, -s)` together with the negated nonce point `-R` recovers the same key. -/
theorem ecdsa_neg_s (k z r d s : K) (hk : k ≠ 0) (hr : r ≠ 0)
    (hs : s = k⁻¹ * (z + r * d)) : r⁻¹ * ((-s) * (-k) - z) = d := by
  rw [neg_mul_neg]
  exact ecdsa_recover k z r d s hk hr hs

/-- (c') `(r, -s)` verifies iff `(r, s)` does: the verification scalar for `-s` is `-k`,
and `(-k)•G` has the same x-coordinate as `k•G`. -/
theorem ecdsa_verify_neg_s (k z r d s : K) (hk : k ≠ 0) (hs0 : s ≠ 0)
    (hs : s = k⁻¹ * (z + r * d)) : z * (-s)⁻¹ + r * (-s)⁻¹ * d = -k := by
  have := ecdsa_verify k z r d s hk hs0 hs
  rw [inv_neg]
  linear_combination -this

/-- (d) other parity: recovering with the wrong nonce point `-R` (wrong `v`) yields a different key.
The requested side conditions suffice (`hsk : s * k ≠ 0`, equivalently `z + r*d ≠ 0`, and `2 ≠ 0`):
the wrong candidate is `r⁻¹ (-(s k) - z) = d - 2 r⁻¹ (s k)`. -/
theorem ecdsa_other_parity (k z r d s : K) (hk : k ≠ 0) (hr : r ≠ 0) (h2 : (2 : K) ≠ 0)
    (hs : s = k⁻¹ * (z + r * d)) (hsk : s * k ≠ 0) : r⁻¹ * (s * (-k) - z) ≠ d := by
  intro h
  have h1 := ecdsa_recover k z r d s hk hr hs
  have h3 : r⁻¹ * (2 * (s * k)) = 0 := by linear_combination h1 - h
  rcases mul_eq_zero.mp h3 with h4 | h4
  · exact hr (inv_eq_zero.mp h4)
  · rcases mul_eq_zero.mp h4 with h5 | h5
    · exact h2 h5
    · exact hsk h5

/-- (d') explicit value of the wrong-parity candidate. -/
theorem ecdsa_other_parity_value (k z r d s : K) (hk : k ≠ 0) (hr : r ≠ 0)
    (hs : s = k⁻¹ * (z + r * d)) : r⁻¹ * (s * (-k) - z) = d - 2 * r⁻¹ * (s * k) := by
  have h1 := ecdsa_recover k z r d s hk hr hs
  linear_combination h1

/-- the side condition of (d) in terms of the signature inputs: `s * k = z + r * d`. -/
theorem ecdsa_s_mul_k (k z r d s : K) (hk : k ≠ 0) (hs : s = k⁻¹ * (z + r * d)) :
    s * k = z + r * d := by
  rw [hs]; field_simp

/-- uniqueness of the recovered key: any `d'` satisfying the signing equation with the same
`(k, z, r, s)` equals `d`. -/
theorem ecdsa_key_unique (k z r d d' s : K) (hk : k ≠ 0) (hr : r ≠ 0)
    (hs : s = k⁻¹ * (z + r * d)) (hs' : s = k⁻¹ * (z + r * d')) : d = d' := by
  rw [← ecdsa_recover k z r d s hk hr hs, ← ecdsa_recover k z r d' s hk hr hs']

#print axioms ecdsa_recover
#print axioms ecdsa_verify
#print axioms ecdsa_other_parity
