import Mathlib.Algebra.BigOperators.Group.List.Basic
import Mathlib.Algebra.Field.Basic
import Mathlib.Algebra.GroupWithZero.Basic
import Mathlib.Tactic

/-! L-POW: exponent laws (ℕ-exponents), restated for citation by the contracts of `__pow__`,
`final_exponentiate` and the pairing product check. -/

section monoid
variable {M : Type*} [CommMonoid M]

theorem pow_add_exp (x : M) (a b : ℕ) : x ^ (a + b) = x ^ a * x ^ b := pow_add x a b

theorem pow_pow_exp (x : M) (a b : ℕ) : (x ^ a) ^ b = x ^ (a * b) := (pow_mul x a b).symm

theorem mul_pow_exp (x y : M) (a : ℕ) : (x * y) ^ a = x ^ a * y ^ a := mul_pow x y a

theorem pow_zero_exp (x : M) : x ^ 0 = 1 := pow_zero x

theorem pow_one_exp (x : M) : x ^ 1 = x := pow_one x

theorem one_pow_exp (a : ℕ) : (1 : M) ^ a = 1 := one_pow a

/-- square-and-multiply step, even exponent: `x^(2n) = (x*x)^n` -/
theorem pow_double_step (x : M) (n : ℕ) : x ^ (2 * n) = (x * x) ^ n := by
  rw [pow_mul, pow_two]

/-- square-and-multiply step, odd exponent: `x^(2n+1) = (x*x)^n * x` -/
theorem pow_double_mul_step (x : M) (n : ℕ) : x ^ (2 * n + 1) = (x * x) ^ n * x := by
  rw [pow_succ, pow_double_step]

/-- recursion used by `FQP.__pow__` / `FQ.__pow__`: `x^n = (x*x)^(n/2)` for even `n`,
`(x*x)^(n/2) * x` for odd `n`. -/
theorem pow_binary_rec (x : M) (n : ℕ) :
    x ^ n = if n % 2 = 0 then (x * x) ^ (n / 2) else (x * x) ^ (n / 2) * x := by
  split_ifs with h
  · rw [← pow_double_step]; congr 1; omega
  · rw [← pow_double_mul_step]; congr 1; omega

/-- the final exponentiation distributes over a finite product of Miller-loop values -/
theorem final_exp_prod (l : List M) (e : ℕ) : (l.prod) ^ e = (l.map (· ^ e)).prod := by
  induction l with
  | nil => simp
  | cons a t ih => simp only [List.prod_cons, List.map_cons, mul_pow, ih]

/-- two-factor special case used by BLS `verify`: `(f1 * f2)^e = f1^e * f2^e`. -/
theorem final_exp_pair (f1 f2 : M) (e : ℕ) : (f1 * f2) ^ e = f1 ^ e * f2 ^ e := mul_pow f1 f2 e

end monoid

section field
variable {K : Type*} [Field K]

theorem pow_div_self (x : K) (hx : x ≠ 0) (a : ℕ) (ha : 1 ≤ a) : x ^ a / x = x ^ (a - 1) := by
  obtain ⟨n, rfl⟩ : ∃ n, a = n + 1 := ⟨a - 1, by omega⟩
  rw [Nat.add_sub_cancel, pow_succ, mul_div_assoc, div_self hx, mul_one]

theorem pow_sub_exp (x : K) (hx : x ≠ 0) (a b : ℕ) (h : b ≤ a) : x ^ (a - b) = x ^ a / x ^ b := by
  rw [pow_sub₀ x hx h, div_eq_mul_inv]

theorem inv_pow_exp (x : K) (a : ℕ) : (x⁻¹) ^ a = (x ^ a)⁻¹ := inv_pow x a

theorem div_pow_exp (x y : K) (a : ℕ) : (x / y) ^ a = x ^ a / y ^ a := div_pow x y a

/-- negative exponents as used by `FQ.__pow__` (`n < 0` branch is not in py_ecc, but `inv` is
`x^(p-2)`): if `x^(m+1) = 1` then `x^m = x⁻¹`. -/
theorem pow_pred_eq_inv (x : K) (m : ℕ) (h : x ^ (m + 1) = 1) : x ^ m = x⁻¹ := by
  rw [pow_succ] at h
  exact eq_inv_of_mul_eq_one_left h

end field

#print axioms final_exp_prod
#print axioms pow_binary_rec
#print axioms pow_div_self
