import Mathlib.GroupTheory.OrderOfElement
import Mathlib.Data.ZMod.Basic
import Mathlib.Data.Int.ModEq
import Mathlib.Tactic

/-! L-CYCLIC: discrete-log facts in an additive commutative group `A` with an element `G`
of additive order `r`.  These are the code-independent facts cited by the contracts of
`multiply`, `is_inf`/`subgroup_check`, key generation and BLS verification. -/

section dlog
variable {A : Type*} [AddCommGroup A]

/-- (a) two scalar multiples of `G` coincide iff the scalars agree modulo the order of `G`. -/
theorem zsmul_eq_iff_modEq (G : A) (r : ℕ) (hr : addOrderOf G = r) (a b : ℤ) :
    a • G = b • G ↔ a ≡ b [ZMOD r] := by
  rw [← hr]
  exact zsmul_eq_zsmul_iff_modEq

/-- (a') same statement with natural-number scalars. -/
theorem nsmul_eq_iff_modEq (G : A) (r : ℕ) (hr : addOrderOf G = r) (a b : ℕ) :
    a • G = b • G ↔ a ≡ b [MOD r] := by
  rw [← hr]
  exact nsmul_eq_nsmul_iff_modEq

/-- (a'') reduction of the scalar modulo the order does not change the multiple. -/
theorem zsmul_emod_order (G : A) (r : ℕ) (hr : addOrderOf G = r) (a : ℤ) :
    (a % (r : ℤ)) • G = a • G := by
  rw [zsmul_eq_iff_modEq G r hr]
  exact Int.mod_modEq a r

/-- (b) a non-zero element killed by a prime `r` has order exactly `r`. -/
theorem addOrderOf_eq_of_prime (G : A) (r : ℕ) (hp : r.Prime) (hG : r • G = 0) (hne : G ≠ 0) :
    addOrderOf G = r := by
  have : Fact r.Prime := ⟨hp⟩
  exact addOrderOf_eq_prime hG hne

/-- (c) for a point of prime order `r`:  `k • G = 0 ↔ r ∣ k`. -/
theorem zsmul_eq_zero_iff_dvd (G : A) (r : ℕ) (hp : r.Prime) (hG : r • G = 0) (hne : G ≠ 0)
    (k : ℤ) : k • G = 0 ↔ (r : ℤ) ∣ k := by
  have hr : addOrderOf G = r := addOrderOf_eq_of_prime G r hp hG hne
  rw [← hr]
  exact addOrderOf_dvd_iff_zsmul_eq_zero.symm

/-- (c') natural-number version. -/
theorem nsmul_eq_zero_iff_dvd (G : A) (r : ℕ) (hp : r.Prime) (hG : r • G = 0) (hne : G ≠ 0)
    (k : ℕ) : k • G = 0 ↔ r ∣ k := by
  have hr : addOrderOf G = r := addOrderOf_eq_of_prime G r hp hG hne
  rw [← hr]
  exact addOrderOf_dvd_iff_nsmul_eq_zero.symm

/-- (c'') the discrete logarithm is injective on `[0, r)`: private key ↦ public key is injective. -/
theorem zsmul_inj_on_range (G : A) (r : ℕ) (hp : r.Prime) (hG : r • G = 0) (hne : G ≠ 0)
    (a b : ℤ) (ha : 0 ≤ a ∧ a < r) (hb : 0 ≤ b ∧ b < r) (h : a • G = b • G) : a = b := by
  have hr : addOrderOf G = r := addOrderOf_eq_of_prime G r hp hG hne
  have hm : a ≡ b [ZMOD r] := (zsmul_eq_iff_modEq G r hr a b).1 h
  have h1 : a % (r : ℤ) = a := Int.emod_eq_of_lt ha.1 ha.2
  have h2 : b % (r : ℤ) = b := Int.emod_eq_of_lt hb.1 hb.2
  have : a % (r : ℤ) = b % (r : ℤ) := hm
  rw [h1, h2] at this
  exact this

/-- (c''') a multiple `k • G` with `0 < k < r` of a point of prime order `r` is non-zero. -/
theorem zsmul_ne_zero_of_lt (G : A) (r : ℕ) (hp : r.Prime) (hG : r • G = 0) (hne : G ≠ 0)
    (k : ℤ) (hk : 0 < k ∧ k < r) : k • G ≠ 0 := by
  intro h
  rw [zsmul_eq_zero_iff_dvd G r hp hG hne] at h
  have := Int.le_of_dvd hk.1 h
  omega

/-! (d) scalar action laws (ℤ-scalars) restated -/

theorem smul_add_scalar (a b : ℤ) (P : A) : (a + b) • P = a • P + b • P := add_zsmul P a b

theorem smul_mul_scalar (a b : ℤ) (P : A) : (a * b) • P = a • (b • P) := mul_zsmul P a b

theorem smul_mul_scalar' (a b : ℤ) (P : A) : (a * b) • P = b • (a • P) := mul_zsmul' P a b

theorem smul_add_point (a : ℤ) (P Q : A) : a • (P + Q) = a • P + a • Q := zsmul_add P Q a

theorem smul_neg_scalar (a : ℤ) (P : A) : (-a) • P = -(a • P) := neg_zsmul P a

theorem smul_neg_point (a : ℤ) (P : A) : a • (-P) = -(a • P) := zsmul_neg P a

theorem smul_sub_scalar (a b : ℤ) (P : A) : (a - b) • P = a • P - b • P := by
  rw [sub_zsmul, sub_eq_add_neg]

theorem smul_two (P : A) : (2 : ℤ) • P = P + P := two_zsmul P

theorem smul_zero_scalar (P : A) : (0 : ℤ) • P = 0 := zero_zsmul P

theorem smul_one_scalar (P : A) : (1 : ℤ) • P = P := one_zsmul P

theorem smul_zero_point (a : ℤ) : a • (0 : A) = 0 := zsmul_zero a

/-- double-and-add step, even case: `(2 * n) • P = n • (P + P)` -/
theorem smul_double_step (n : ℤ) (P : A) : (2 * n) • P = n • (P + P) := by
  rw [mul_comm, mul_zsmul, two_zsmul]

/-- double-and-add step, odd case: `(2 * n + 1) • P = n • (P + P) + P` -/
theorem smul_double_add_step (n : ℤ) (P : A) : (2 * n + 1) • P = n • (P + P) + P := by
  rw [add_zsmul, one_zsmul, smul_double_step]

/-- natural and integer scalar multiples agree -/
theorem natCast_smul_eq (n : ℕ) (P : A) : ((n : ℤ)) • P = n • P := natCast_zsmul P n

end dlog

/-! (e) BLS verification algebra in the scalar field `ZMod r`. -/
section bls
variable {r : ℕ} [Fact r.Prime]

theorem bls_sub_eq_zero_iff (s h sk : ZMod r) : s - h * sk = 0 ↔ s = h * sk := sub_eq_zero

/-- exponent of the pairing product `e(sig, G1) * e(H(m), -pk)` in the base `e(G2gen, G1gen)`:
it vanishes iff the signature scalar is `sk * h`. -/
theorem bls_verify_iff (s h sk : ZMod r) : s * 1 + h * (-sk) = 0 ↔ s = sk * h := by
  constructor
  · intro H
    have : s - sk * h = 0 := by linear_combination H
    exact sub_eq_zero.mp this
  · rintro rfl
    ring

/-- uniqueness of the signing scalar: for a non-zero hash scalar `h`, two secret keys that produce
the same signature scalar are equal. -/
theorem bls_sk_unique (h sk sk' : ZMod r) (hh : h ≠ 0) (e : sk * h = sk' * h) : sk = sk' :=
  mul_right_cancel₀ hh e

/-- aggregate verification exponent: `(∑ skᵢ * hᵢ) * 1 + ∑ hᵢ * (-skᵢ) = 0`. -/
theorem bls_aggregate_exponent (l : List (ZMod r × ZMod r)) :
    (l.map (fun p => p.1 * p.2)).sum * 1 + (l.map (fun p => p.2 * (-p.1))).sum = 0 := by
  induction l with
  | nil => simp
  | cons a t ih =>
    simp only [List.map_cons, List.sum_cons]
    linear_combination ih

/-- a statement of group-level BLS correctness: in a group `A` with a point `G` of prime order `r`,
`s • G = (sk * h) • G` iff `s ≡ sk * h (mod r)`. -/
theorem bls_group_level {A : Type*} [AddCommGroup A] (G : A) (hG : r • G = 0) (hne : G ≠ 0)
    (s h sk : ℤ) : s • G = (sk * h) • G ↔ ((s : ZMod r) = (sk : ZMod r) * (h : ZMod r)) := by
  have hp : r.Prime := Fact.out
  have hr : addOrderOf G = r := addOrderOf_eq_of_prime G r hp hG hne
  rw [zsmul_eq_iff_modEq G r hr, ← Int.cast_mul, ZMod.intCast_eq_intCast_iff]

end bls

#print axioms zsmul_eq_iff_modEq
#print axioms zsmul_eq_zero_iff_dvd
#print axioms bls_verify_iff
