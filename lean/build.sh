#!/usr/bin/env bash
# Type-checks every *.lean file of this directory independently with plain `lean <file>`
# (Mathlib is precompiled and on the default search path; no lake project, no network),
# rejects forbidden words, and writes STATUS.json.  Works from any cwd.
#
#   exit 0  iff  every file compiled without errors, no forbidden word was found and every
#                `#print axioms` line reports only propext / Classical.choice / Quot.sound.
#
# Per-file compiler output (including the `#print axioms` reports) goes to build_<Name>.log.

set -u
DIR="$(cd "$(dirname "${BASH_SOURCE[0]}")" && pwd)"
cd "$DIR" || exit 2

LEAN="${LEAN:-lean}"
if ! command -v "$LEAN" >/dev/null 2>&1; then
  echo "build.sh: '$LEAN' not found on PATH" >&2
  exit 2
fi
LEAN_VERSION="$("$LEAN" --version 2>/dev/null | head -n 1)"

shopt -s nullglob
FILES=( *.lean )
if [ "${#FILES[@]}" -eq 0 ]; then
  echo "build.sh: no .lean files in $DIR" >&2
  exit 2
fi

TMP="$(mktemp -d)"
trap 'rm -rf "$TMP"' EXIT
rm -f build_*.log

now() { date +%s.%N; }

T0="$(now)"
for f in "${FILES[@]}"; do
  name="${f%.lean}"
  (
    t0="$(now)"
    "$LEAN" "$f" > "build_${name}.log" 2>&1
    rc=$?
    t1="$(now)"
    echo "$rc" > "$TMP/$name.rc"
    awk -v a="$t0" -v b="$t1" 'BEGIN { printf "%.1f", b - a }' > "$TMP/$name.secs"
  ) &
done
wait
T1="$(now)"
WALL="$(awk -v a="$T0" -v b="$T1" 'BEGIN { printf "%.1f", b - a }')"

# forbidden words (whole words; `axiom` does not match the `#print axioms` command)
FORBIDDEN_RE='(^|[^A-Za-z0-9_])(sorry|admit|native_decide|axiom)($|[^A-Za-z0-9_])'

json_escape() { printf '%s' "$1" | sed -e 's/\\/\\\\/g' -e 's/"/\\"/g'; }

ALL_OK=true
OUT="$TMP/STATUS.json"
{
  printf '{\n'
  printf '  "lean_version": "%s",\n' "$(json_escape "$LEAN_VERSION")"
  printf '  "wall_seconds": %s,\n' "$WALL"
  printf '  "files": {\n'
} > "$OUT"

first=1
for f in "${FILES[@]}"; do
  name="${f%.lean}"
  rc="$(cat "$TMP/$name.rc" 2>/dev/null || echo 1)"
  secs="$(cat "$TMP/$name.secs" 2>/dev/null || echo 0.0)"
  log="build_${name}.log"
  ok=true
  reasons=()

  if [ "$rc" != "0" ]; then ok=false; reasons+=("lean exit code $rc"); fi
  if grep -qE '(^|: )error' "$log" 2>/dev/null; then ok=false; reasons+=("errors in $log"); fi
  if grep -q "declaration uses 'sorry'" "$log" 2>/dev/null; then
    ok=false; reasons+=("sorry warning in $log")
  fi
  if grep -nE "$FORBIDDEN_RE" "$f" > "$TMP/$name.forbidden"; then
    ok=false; reasons+=("forbidden word in $f: $(head -n 1 "$TMP/$name.forbidden")")
  fi
  # every `#print axioms` report may only mention the three standard axioms
  if grep -E "depends on axioms" "$log" 2>/dev/null \
      | sed -E 's/.*depends on axioms: \[(.*)\]/\1/' | tr ',' '\n' | sed -E 's/^ +| +$//g' \
      | grep -vE '^(propext|Classical\.choice|Quot\.sound)$' | grep -q . ; then
    ok=false; reasons+=("non-standard axiom reported in $log")
  fi
  if grep -q "sorryAx" "$log" 2>/dev/null; then ok=false; reasons+=("sorryAx in $log"); fi

  [ "$ok" = true ] || ALL_OK=false

  thms="$(grep -E '^(theorem|lemma)[[:space:]]' "$f" \
          | sed -E 's/^(theorem|lemma)[[:space:]]+([^[:space:]({:]+).*/\2/')"
  thm_json=""
  while IFS= read -r t; do
    [ -n "$t" ] || continue
    if [ -n "$thm_json" ]; then thm_json="$thm_json, "; fi
    thm_json="$thm_json\"$(json_escape "$t")\""
  done <<< "$thms"

  reason_json=""
  for r in ${reasons[@]+"${reasons[@]}"}; do
    if [ -n "$reason_json" ]; then reason_json="$reason_json, "; fi
    reason_json="$reason_json\"$(json_escape "$r")\""
  done

  if [ $first -eq 0 ]; then printf ',\n' >> "$OUT"; fi
  first=0
  printf '    "%s": {"ok": %s, "seconds": %s, "log": "%s", "problems": [%s], "theorems": [%s]}' \
    "$f" "$ok" "$secs" "$log" "$reason_json" "$thm_json" >> "$OUT"

  if [ "$ok" = true ]; then
    echo "ok    $f  (${secs}s)"
  else
    echo "FAIL  $f  (${secs}s): ${reasons[*]}"
  fi
done

{
  printf '\n  },\n'
  printf '  "all_ok": %s\n' "$ALL_OK"
  printf '}\n'
} >> "$OUT"

cp "$OUT" "$DIR/STATUS.json"
echo "wall time: ${WALL}s   all_ok: $ALL_OK   -> $DIR/STATUS.json"
[ "$ALL_OK" = true ]
