import Mathlib.Data.ZMod.Basic
import Mathlib.FieldTheory.Finite.Basic
import Mathlib.Algebra.CharP.Lemmas
import Mathlib.Tactic

/-! L-ZMOD: canonical representatives -/
theorem rep_add (p : ℕ) (hp : 0 < p) (a b : ℤ) :
    0 ≤ (a + b) % (p : ℤ) ∧ (a + b) % (p : ℤ) < p ∧
      (((a + b) % (p : ℤ) : ℤ) : ZMod p) = (a : ZMod p) + b := by
  have hp' : (0 : ℤ) < p := by exact_mod_cast hp
  exact ⟨Int.emod_nonneg _ hp'.ne', Int.emod_lt_of_pos _ hp', by rw [ZMod.intCast_mod]; push_cast; rfl⟩

theorem rep_mul (p : ℕ) (hp : 0 < p) (a b : ℤ) :
    0 ≤ (a * b) % (p : ℤ) ∧ (a * b) % (p : ℤ) < p ∧
      (((a * b) % (p : ℤ) : ℤ) : ZMod p) = (a : ZMod p) * b := by
  have hp' : (0 : ℤ) < p := by exact_mod_cast hp
  exact ⟨Int.emod_nonneg _ hp'.ne', Int.emod_lt_of_pos _ hp', by rw [ZMod.intCast_mod]; push_cast; rfl⟩

/-- equality of canonical representatives is equality in ZMod -/
theorem rep_eq_iff (p : ℕ) (a b : ℤ) (ha : 0 ≤ a ∧ a < p) (hb : 0 ≤ b ∧ b < p) :
    a = b ↔ ((a : ZMod p) = (b : ZMod p)) := by
  constructor
  · rintro rfl; rfl
  · intro h
    rw [ZMod.intCast_eq_intCast_iff_dvd_sub] at h
    obtain ⟨k, hk⟩ := h
    have : k = 0 := by nlinarith [ha.1, ha.2, hb.1, hb.2]
    subst this; linarith

/-! L-FERMAT / L-SQRT34 in a finite field -/
section
variable {K : Type*} [Field K] [Fintype K]

theorem sqrt34 (hq : Fintype.card K % 4 = 3) (y : K) :
    ((y ^ 2) ^ ((Fintype.card K + 1) / 4)) ^ 2 = y ^ 2 := by
  have h4 : (Fintype.card K + 1) / 4 * 4 = Fintype.card K + 1 := by omega
  have : ((y ^ 2) ^ ((Fintype.card K + 1) / 4)) ^ 2 = y ^ ((Fintype.card K + 1) / 4 * 4) := by
    rw [← pow_mul, ← pow_mul]; congr 1; ring
  rw [this, h4, pow_succ, FiniteField.pow_card]
  ring

theorem euler_pm_one (hodd : Fintype.card K % 2 = 1) (a : K) (ha : a ≠ 0) :
    a ^ ((Fintype.card K - 1) / 2) = 1 ∨ a ^ ((Fintype.card K - 1) / 2) = -1 := by
  have h2 : (Fintype.card K - 1) / 2 * 2 = Fintype.card K - 1 := by omega
  have hsq : (a ^ ((Fintype.card K - 1) / 2)) ^ 2 = 1 := by
    rw [← pow_mul, h2, FiniteField.pow_card_sub_one_eq_one a ha]
  set x := a ^ ((Fintype.card K - 1) / 2)
  have : (x - 1) * (x + 1) = 0 := by ring_nf; rw [hsq]; ring
  rcases mul_eq_zero.mp this with h | h
  · left; exact sub_eq_zero.mp h
  · right; exact eq_neg_of_add_eq_zero_left h

theorem ringChar_ne_two_of_odd (hodd : Fintype.card K % 2 = 1) : ringChar K ≠ 2 := by
  intro h
  have := FiniteField.even_card_iff_char_two.mp h
  omega

/-- Euler's criterion, the `isSquare` half: for `a ≠ 0` in a finite field of odd order,
`a^((q-1)/2) = 1` iff `a` is a square. -/
theorem euler_isSquare_iff (hodd : Fintype.card K % 2 = 1) (a : K) (ha : a ≠ 0) :
    a ^ ((Fintype.card K - 1) / 2) = 1 ↔ IsSquare a := by
  have he : (Fintype.card K - 1) / 2 = Fintype.card K / 2 := by omega
  rw [he]
  exact (FiniteField.isSquare_iff (ringChar_ne_two_of_odd hodd) ha).symm

/-- Euler's criterion, non-residue half: `a^((q-1)/2) = -1` iff `a` is not a square. -/
theorem euler_not_isSquare_iff (hodd : Fintype.card K % 2 = 1) (a : K) (ha : a ≠ 0) :
    a ^ ((Fintype.card K - 1) / 2) = -1 ↔ ¬ IsSquare a := by
  have h2 : (2 : K) ≠ 0 := Ring.two_ne_zero (ringChar_ne_two_of_odd hodd)
  have hne : (1 : K) ≠ -1 := by
    intro h
    apply h2
    linear_combination h
  rw [← euler_isSquare_iff hodd a ha]
  constructor
  · intro h h1
    rw [h1] at h
    exact hne h
  · intro h
    rcases euler_pm_one hodd a ha with h1 | h1
    · exact absurd h1 h
    · exact h1

/-- zero is a square and `0^((q-1)/2) = 0` for `q > 2`: the Euler value of `0` is `0`
(py_ecc's `sgn0`/`is_square` helpers rely on `0` being treated separately). -/
theorem euler_zero (hq : 3 ≤ Fintype.card K) : (0 : K) ^ ((Fintype.card K - 1) / 2) = 0 := by
  apply zero_pow
  omega

/-- L-SQRT34, square case, stated for an arbitrary square `a`. -/
theorem sqrt34_of_isSquare (hq : Fintype.card K % 4 = 3) (a : K) (ha : IsSquare a) :
    (a ^ ((Fintype.card K + 1) / 4)) ^ 2 = a := by
  obtain ⟨y, rfl⟩ := ha
  rw [← pow_two]
  exact sqrt34 hq y

/-- exponent bookkeeping for `q ≡ 3 (mod 4)`: `(a^((q+1)/4))^2 = a * a^((q-1)/2)`. -/
theorem sqrt34_candidate_sq (hq : Fintype.card K % 4 = 3) (a : K) :
    (a ^ ((Fintype.card K + 1) / 4)) ^ 2 = a * a ^ ((Fintype.card K - 1) / 2) := by
  rw [← pow_mul, ← pow_succ']
  congr 1
  omega

/-- L-SQRT34, non-square case: the candidate squares to `-a`, so the `candidate² = a` test of the
square-root routines fails exactly for non-squares. -/
theorem sqrt34_of_not_isSquare (hq : Fintype.card K % 4 = 3) (a : K) (ha : a ≠ 0)
    (hns : ¬ IsSquare a) : (a ^ ((Fintype.card K + 1) / 4)) ^ 2 = -a := by
  have hodd : Fintype.card K % 2 = 1 := by omega
  rw [sqrt34_candidate_sq hq a, (euler_not_isSquare_iff hodd a ha).2 hns]
  ring

/-- the `candidate² = a` check is exact: it succeeds iff `a` is a square (for `q ≡ 3 mod 4`). -/
theorem sqrt34_check_iff (hq : Fintype.card K % 4 = 3) (a : K) :
    (a ^ ((Fintype.card K + 1) / 4)) ^ 2 = a ↔ IsSquare a := by
  constructor
  · intro h
    exact ⟨a ^ ((Fintype.card K + 1) / 4), by rw [← pow_two, h]⟩
  · exact sqrt34_of_isSquare hq a

/-- L-FERMAT: inverse by exponentiation, `a^(q-2) = a⁻¹` for `a ≠ 0`. -/
theorem fermat_inv (hq : 2 ≤ Fintype.card K) (a : K) (ha : a ≠ 0) :
    a ^ (Fintype.card K - 2) = a⁻¹ := by
  have h1 : a ^ (Fintype.card K - 2) * a = 1 := by
    rw [← pow_succ]
    have : Fintype.card K - 2 + 1 = Fintype.card K - 1 := by omega
    rw [this]
    exact FiniteField.pow_card_sub_one_eq_one a ha
  exact eq_inv_of_mul_eq_one_left h1

omit [Fintype K] in
/-- the two square roots of a square are `± y`. -/
theorem sq_eq_sq_cases (x y : K) (h : x ^ 2 = y ^ 2) : x = y ∨ x = -y :=
  sq_eq_sq_iff_eq_or_eq_neg.mp h

/-- L-FROB: Frobenius is additive / multiplicative in characteristic p -/
theorem frob_add {R : Type*} [CommRing R] (p : ℕ) [Fact p.Prime] [CharP R p] (x y : R) :
    (x + y) ^ p = x ^ p + y ^ p := add_pow_char x y p

theorem frob_fix (p : ℕ) [Fact p.Prime] (c : ZMod p) : c ^ p = c := ZMod.pow_card c
end

#print axioms euler_isSquare_iff
#print axioms sqrt34_of_not_isSquare
#print axioms rep_eq_iff
