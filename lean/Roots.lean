import Mathlib.FieldTheory.Finite.Basic
import Mathlib.Tactic

/-! L-CYCLIC pieces -/
theorem coprime_kill {A : Type*} [AddCommGroup A] (T : A) (h r : ℤ) (hc : IsCoprime h r)
    (h1 : h • T = 0) (h2 : r • T = 0) : T = 0 := by
  obtain ⟨u, v, huv⟩ := hc
  have : (u * h + v * r) • T = T := by rw [huv, one_zsmul]
  rw [← this, add_zsmul, mul_zsmul, mul_zsmul, h1, h2]; simp

/-- r•(k•G + T) = 0 ↔ T = 0 when r•G = 0, h•T = 0, gcd(h,r)=1 : subgroup_check is exact -/
theorem subgroup_check_exact {A : Type*} [AddCommGroup A] (G T : A) (k h r : ℤ)
    (hc : IsCoprime h r) (hG : r • G = 0) (hT : h • T = 0) :
    r • (k • G + T) = 0 ↔ T = 0 := by
  constructor
  · intro H
    have : r • T = 0 := by
      have : r • (k • G + T) = k • (r • G) + r • T := by
        rw [zsmul_add, ← mul_zsmul, ← mul_zsmul, mul_comm]
      rw [this, hG, zsmul_zero, zero_add] at H; exact H
    exact coprime_kill T h r hc hT this
  · rintro rfl
    rw [add_zero, ← mul_zsmul, mul_comm, mul_zsmul, hG, zsmul_zero]

/-! roots of unity of order dividing 8 in a field with a fixed ζ, ζ^4 = -1 -/
section
variable {K : Type*} [Field K]

theorem fourth_root_cases (i t : K) (hi : i ^ 2 = -1) (ht : t ^ 4 = 1) :
    t = 1 ∨ t = -1 ∨ t = i ∨ t = -i := by
  have : (t - 1) * (t + 1) * (t - i) * (t + i) = 0 := by
    have : (t - 1) * (t + 1) * (t - i) * (t + i) = (t ^ 2 - 1) * (t ^ 2 - i ^ 2) := by ring
    rw [this, hi]; ring_nf; rw [ht]; ring
  rcases mul_eq_zero.mp this with h | h
  · rcases mul_eq_zero.mp h with h | h
    · rcases mul_eq_zero.mp h with h | h
      · left; exact sub_eq_zero.mp h
      · right; left; exact eq_neg_of_add_eq_zero_left h
    · right; right; left; exact sub_eq_zero.mp h
  · right; right; right; exact eq_neg_of_add_eq_zero_left h

/-- the eighth-roots square-root recipe of `modular_squareroot_in_FQ2` is complete:
    for a = y², with c = a^e where 2e - 1 = (Q-1)/8·... abstractly: if c² = a·t with t = s² a fourth
    root of unity's square root s given, then (c/s)² = a. -/
theorem sqrt_from_candidate (a c t s : K) (hs : s ≠ 0) (hc : c ^ 2 = a * t) (hst : s ^ 2 = t) :
    (c / s) ^ 2 = a := by
  rw [div_pow, hc, hst]
  have : t ≠ 0 := by rw [← hst]; exact pow_ne_zero 2 hs
  field_simp
end

/-- in a finite field of odd order Q with 8 ∣ Q - 1:  t := y^((Q-1)/4) is a fourth root of unity, and
    for a = y², a^((Q-1)/8) = t.  (check = candidate²/a in the code) -/
theorem check_is_fourth_root {K : Type*} [Field K] [Fintype K] (h8 : 8 ∣ Fintype.card K - 1)
    (y : K) (hy : y ≠ 0) :
    ((y ^ 2) ^ ((Fintype.card K - 1) / 8)) ^ 4 = 1 := by
  obtain ⟨m, hm⟩ := h8
  have h1 : (Fintype.card K - 1) / 8 = m := by omega
  rw [h1, ← pow_mul, ← pow_mul]
  have : 2 * (m * 4) = Fintype.card K - 1 := by omega
  rw [this]
  exact FiniteField.pow_card_sub_one_eq_one y hy

/-! ### square root of a quotient `u / v` (hash-to-curve `sqrt_division_FQ2`) and its η-variant -/
section sqrtdiv
variable {K : Type*} [Field K]

/-- exponent bookkeeping for `q ≡ 9 (mod 16)`: with `γ = u v⁷ (u v¹⁵)^((q-9)/16)` one has
`γ² v = u · (u v¹⁵)^((q-1)/8)`.  (Pure exponent arithmetic, valid in any commutative ring.) -/
theorem sqrt_div_gamma_sq (q : ℕ) (hq : q % 16 = 9) (u v : K) :
    (u * v ^ 7 * (u * v ^ 15) ^ ((q - 9) / 16)) ^ 2 * v = u * (u * v ^ 15) ^ ((q - 1) / 8) := by
  have he : (q - 1) / 8 = 2 * ((q - 9) / 16) + 1 := by omega
  rw [he]
  generalize (q - 9) / 16 = m
  ring

/-- `u v¹⁵` is a square iff `u / v` is (for `v ≠ 0`): `u v¹⁵ = (u / v) · (v⁸)²`. -/
theorem mul_pow15_eq (u v : K) (hv : v ≠ 0) : u * v ^ 15 = u / v * (v ^ 8) ^ 2 := by
  field_simp

theorem isSquare_mul_pow15_iff (u v : K) (hv : v ≠ 0) : IsSquare (u * v ^ 15) ↔ IsSquare (u / v) := by
  have h8 : v ^ 8 ≠ 0 := pow_ne_zero 8 hv
  rw [mul_pow15_eq u v hv]
  constructor
  · rintro ⟨w, hw⟩
    refine ⟨w / v ^ 8, ?_⟩
    have h16 : (v ^ 8) ^ 2 ≠ 0 := pow_ne_zero 2 h8
    rw [div_mul_div_comm, ← hw, ← pow_two, mul_div_assoc, div_self h16, mul_one]
  · rintro ⟨w, hw⟩
    refine ⟨w * v ^ 8, ?_⟩
    rw [hw]; ring

/-- candidate correction: if `g² v = u t` and `η² t = 1` then `η g` is a square root of `u / v`. -/
theorem sqrt_div_candidate (g u v t η : K) (hg : g ^ 2 * v = u * t) (hη : η ^ 2 * t = 1) :
    (η * g) ^ 2 * v = u := by
  have : (η * g) ^ 2 * v = η ^ 2 * (g ^ 2 * v) := by ring
  rw [this, hg]
  linear_combination u * hη

/-- the loop test `(η g)² v - u = 0` is exact: it succeeds iff `η² t = 1`. -/
theorem sqrt_div_candidate_iff (g u v t η : K) (hu : u ≠ 0) (hg : g ^ 2 * v = u * t) :
    (η * g) ^ 2 * v - u = 0 ↔ η ^ 2 * t = 1 := by
  have : (η * g) ^ 2 * v - u = u * (η ^ 2 * t - 1) := by
    have : (η * g) ^ 2 * v = η ^ 2 * (g ^ 2 * v) := by ring
    rw [this, hg]; ring
  rw [this, mul_eq_zero, sub_eq_zero]
  constructor
  · rintro (h | h)
    · exact absurd h hu
    · exact h
  · intro h; exact Or.inr h

/-- η-variant (second SWU candidate `x1 = Z t² x0`): the candidate is `g t³`, the numerator
`(Z t²)³ u`; the loop test succeeds iff `η² · chk = Z³` where `chk` is the eighth-root check value
of the first candidate. -/
theorem sqrt_div_eta_iff (g u v chk η Z t : K) (hu : u ≠ 0) (ht : t ≠ 0)
    (hg : g ^ 2 * v = u * chk) :
    (η * (g * t ^ 3)) ^ 2 * v - (Z * t ^ 2) ^ 3 * u = 0 ↔ η ^ 2 * chk = Z ^ 3 := by
  have h6 : t ^ 6 ≠ 0 := pow_ne_zero 6 ht
  have : (η * (g * t ^ 3)) ^ 2 * v - (Z * t ^ 2) ^ 3 * u = t ^ 6 * u * (η ^ 2 * chk - Z ^ 3) := by
    have : (η * (g * t ^ 3)) ^ 2 * v = η ^ 2 * t ^ 6 * (g ^ 2 * v) := by ring
    rw [this, hg]; ring
  rw [this, mul_eq_zero, sub_eq_zero]
  constructor
  · rintro (h | h)
    · exact absurd h (mul_ne_zero h6 hu)
    · exact h
  · intro h; exact Or.inr h

theorem sqrt_div_eta (g u v chk η Z t : K) (hg : g ^ 2 * v = u * chk) (hη : η ^ 2 * chk = Z ^ 3) :
    (η * (g * t ^ 3)) ^ 2 * v = (Z * t ^ 2) ^ 3 * u := by
  have : (η * (g * t ^ 3)) ^ 2 * v = η ^ 2 * t ^ 6 * (g ^ 2 * v) := by ring
  rw [this, hg]
  linear_combination t ^ 6 * u * hη

/-- all eighth roots of unity, given a primitive one `ζ` (`ζ⁴ = -1`). -/
theorem eighth_root_cases (ζ t : K) (hζ : ζ ^ 4 = -1) (ht : t ^ 8 = 1) :
    t = 1 ∨ t = -1 ∨ t = ζ ^ 2 ∨ t = -ζ ^ 2 ∨ t = ζ ∨ t = -ζ ∨ t = ζ ^ 3 ∨ t = -ζ ^ 3 := by
  have hi : (ζ ^ 2) ^ 2 = -1 := by rw [← pow_mul]; exact hζ
  have hfac : (t ^ 4 - 1) * ((t - ζ) * (t + ζ) * ((t - ζ ^ 3) * (t + ζ ^ 3))) = 0 := by
    have : (t ^ 4 - 1) * ((t - ζ) * (t + ζ) * ((t - ζ ^ 3) * (t + ζ ^ 3)))
        = (t ^ 4 - 1) * (t ^ 4 - (ζ ^ 4 + 1) * ζ ^ 2 * t ^ 2 + ζ ^ 4 * ζ ^ 4) := by ring
    rw [this, hζ]
    linear_combination ht
  rcases mul_eq_zero.mp hfac with h | h
  · have h4 : t ^ 4 = 1 := sub_eq_zero.mp h
    rcases fourth_root_cases (ζ ^ 2) t hi h4 with h | h | h | h
    · exact Or.inl h
    · exact Or.inr (Or.inl h)
    · exact Or.inr (Or.inr (Or.inl h))
    · exact Or.inr (Or.inr (Or.inr (Or.inl h)))
  · rcases mul_eq_zero.mp h with h | h
    · rcases mul_eq_zero.mp h with h | h
      · exact Or.inr (Or.inr (Or.inr (Or.inr (Or.inl (sub_eq_zero.mp h)))))
      · exact Or.inr (Or.inr (Or.inr (Or.inr (Or.inr (Or.inl (eq_neg_of_add_eq_zero_left h))))))
    · rcases mul_eq_zero.mp h with h | h
      · exact Or.inr (Or.inr (Or.inr (Or.inr (Or.inr (Or.inr (Or.inl (sub_eq_zero.mp h)))))))
      · exact Or.inr (Or.inr (Or.inr (Or.inr (Or.inr (Or.inr (Or.inr
          (eq_neg_of_add_eq_zero_left h)))))))

end sqrtdiv

/-- in a finite field with `8 ∣ q - 1` the check value `(u v¹⁵)^((q-1)/8)` is an eighth root of
unity whenever `u v ≠ 0`. -/
theorem check_is_eighth_root {K : Type*} [Field K] [Fintype K] (h8 : 8 ∣ Fintype.card K - 1)
    (a : K) (ha : a ≠ 0) : (a ^ ((Fintype.card K - 1) / 8)) ^ 8 = 1 := by
  obtain ⟨m, hm⟩ := h8
  have h1 : (Fintype.card K - 1) / 8 = m := by omega
  rw [h1, ← pow_mul]
  have : m * 8 = Fintype.card K - 1 := by omega
  rw [this]
  exact FiniteField.pow_card_sub_one_eq_one a ha

/-- the check value `a^((Q-1)/8)` to the fourth power is Euler's symbol `a^((Q-1)/2)`: it is 1 for squares and -1 for
    non-squares (Fields.lean euler_isSquare_iff / euler_not_isSquare_iff) -/
theorem check_pow_four {K : Type*} [Field K] [Fintype K] (h8 : 8 ∣ Fintype.card K - 1) (a : K) :
    (a ^ ((Fintype.card K - 1) / 8)) ^ 4 = a ^ ((Fintype.card K - 1) / 2) := by
  obtain ⟨m, hm⟩ := h8
  have h1 : (Fintype.card K - 1) / 8 = m := by omega
  have h2 : (Fintype.card K - 1) / 2 = m * 4 := by omega
  rw [h1, h2, ← pow_mul]


#print axioms subgroup_check_exact
#print axioms check_pow_four
#print axioms sqrt_div_eta_iff
#print axioms eighth_root_cases
