import Mathlib.Algebra.Group.Basic
import Mathlib.Algebra.Module.Basic
import Mathlib.Tactic

/-! L-COFACTOR: clearing the cofactor lands in the r-torsion.

`A` is the group of rational points (any additive commutative group), `n = h * r` kills every point
(Lagrange, with `#A = h r`). -/

/-- G2-style: the effective cofactor is a multiple `k * h` of the cofactor `h`. -/
theorem clear_cofactor_multiple {A : Type*} [AddCommGroup A] (h r k : ℤ) (P : A)
    (hn : (h * r) • P = 0) : r • ((k * h) • P) = 0 := by
  have : r • ((k * h) • P) = k • ((h * r) • P) := by
    simp only [← mul_smul]; congr 1; ring
  rw [this, hn, smul_zero]

/-- G1-style: the cofactor part (the points killed by `h`) has exponent dividing `e`
    (closed fact bls.struct-G1); then `e • P` is killed by `r`. -/
theorem clear_cofactor_exponent {A : Type*} [AddCommGroup A] (h r e : ℤ) (P : A)
    (hn : (h * r) • P = 0) (hexp : ∀ T : A, h • T = 0 → e • T = 0) : r • (e • P) = 0 := by
  have h1 : h • (r • P) = 0 := by rw [← mul_smul]; exact hn
  have h2 : e • (r • P) = 0 := hexp _ h1
  have : r • (e • P) = e • (r • P) := by simp only [← mul_smul]; congr 1; ring
  rw [this, h2]

#print axioms clear_cofactor_multiple
#print axioms clear_cofactor_exponent
