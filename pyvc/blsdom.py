"""Abstract domain for the BLS ciphersuite layer (DESIGN §4 L6).

Points are terms of an uninterpreted sort `Pt`; what is known about them are uninterpreted
predicates/functions — isO, sub (member of the prime-order subgroup), dl (discrete log w.r.t. the
generator, meaningful under sub), the decoders (ok1/pt1 on 48-byte strings, ok2/pt2 on 96-byte
strings), the encoders enc1/enc2 and the hash H2(msg, DST).  The contracts of the callees of
ciphersuites.py (proved in contracts.codec / contracts.groups / contracts.curves, or assumed: A-PAIRING)
are applied at the call sites as *ground instances* of their postconditions; no quantified axiom is sent
to the solver.
"""
from __future__ import annotations

import z3

from .core import ZAtom, FAtom, Fld, FldKind, Unsupported, cur
from .poly import Poly, R as PR
from .interp import PyRaise, ValidationError
from .pymodel import SymTruth
from .sym import SInt, SBytes, zt, bt, BytesSort, implied

R = 52435875175126190479447740508185965837690552500527637822603658699938581184513
Pt = z3.DeclareSort("Pt")
Int, Bool = z3.IntSort(), z3.BoolSort()

ok1, pt1 = z3.Function("ok1", BytesSort, Bool), z3.Function("pt1", BytesSort, Pt)
ok2, pt2 = z3.Function("ok2", BytesSort, Bool), z3.Function("pt2", BytesSort, Pt)
enc1, enc2 = z3.Function("enc1", Pt, BytesSort), z3.Function("enc2", Pt, BytesSort)
isO, sub, dl = z3.Function("isO", Pt, Bool), z3.Function("sub", Pt, Bool), z3.Function("dl", Pt, Int)
H2 = z3.Function("hash_to_G2", BytesSort, BytesSort, Pt)
mulP, addP, negP = z3.Function("mulP", Int, Pt, Pt), z3.Function("addP", Pt, Pt, Pt), z3.Function("negP", Pt, Pt)
G1gen = z3.Const("G1gen", Pt)
O1, O2 = z3.Const("O1", Pt), z3.Const("O2", Pt)


KR = FldKind("ZmodR")            # exponents / discrete logs: the field Z/r (r prime: A-PRIME), polyid with char = r


def dlR(path, t):
    """the discrete log of the point term t as an element of Z/r: one polyid variable per distinct atom term;
    composite terms get their value from the contract that built them (BPoint.d)"""
    path.pc.char = R
    tab = path.ghost.setdefault("dlR", {})
    key = t.sexpr()
    if key not in tab:
        if t.eq(G1gen):
            tab[key] = KR(1)
        elif t.eq(O1) or t.eq(O2):
            tab[key] = KR(0)
        else:
            tab[key] = Fld(PR(Poly.var(f"dl{len(tab)}")), KR)
    return tab[key]


def scalarR(path, k):
    """an integer scalar read modulo r"""
    if isinstance(k, bool):
        k = int(k)
    if isinstance(k, int):
        return KR(k % R)
    tab = path.ghost.setdefault("scR", {})
    key = zt(k).sexpr()
    if key not in tab:
        tab[key] = Fld(PR(Poly.var(f"k{len(tab)}")), KR)
    return tab[key]


class BPoint(SymTruth):
    """a valid representative (some projective triple) of the abstract point `t` of group g ('G1' / 'G2');
    d = its discrete log in Z/r (meaningful when the point is in the subgroup)"""

    def __init__(self, g, t, d=None):
        self.g, self.t = g, t
        self.d = d if d is not None else dlR(cur(), t)

    def truth(self, interp):
        return True

    def sym_getitem(self, interp, idx):
        # pairing() inspects P[-1]; everything else must go through contracts
        raise Unsupported("coordinate access on an abstract BLS point")

    def __repr__(self):
        return f"BPoint({self.g}, {self.t})"


class GTVal:
    """an element of the target group known through its exponent in Z/r: the value is e(G2gen, G1gen)^exp up to
    the final exponentiation (A-PAIRING).  `*` adds exponents, `== FQ12.one()` tests exp = 0 in Z/r (polyid)."""

    def __init__(self, exp, finalized=False):
        self.exp, self.finalized = exp, finalized

    def __mul__(self, o):
        if isinstance(o, GTVal):
            return GTVal(self.exp + o.exp, self.finalized and o.finalized)
        return NotImplemented

    __rmul__ = __mul__

    def __eq__(self, o):
        if isinstance(o, GTVal):
            if not (self.finalized and o.finalized):
                raise Unsupported("comparison of pairing values before the final exponentiation")
            return FAtom((self.exp - o.exp).r.n, True, "pairing product == 1")
        return NotImplemented

    def __ne__(self, o):
        r = self.__eq__(o)
        return r if r is NotImplemented else ~r

    __hash__ = None


def facts_generator(path):
    """closed facts about the generator (eval: generators, generators-order): G1gen is in the subgroup with dlog 1"""
    if path.ghost.get("bls-gen-facts"):
        return
    path.ghost["bls-gen-facts"] = True
    path.zc += [sub(G1gen), dl(G1gen) == 1, z3.Not(isO(G1gen)), isO(O1), isO(O2), sub(O1), sub(O2), dl(O1) == 0, dl(O2) == 0]


def dl_facts(path, t):
    """for a point term: its dlog is a canonical residue, and (L-CYCLIC) it is the identity iff the dlog is 0"""
    key = ("dl-facts", t.get_id())
    seen = path.ghost.setdefault("bls-terms", {})
    if key in seen and seen[key].eq(t):
        return
    seen[key] = t
    path.zc += [z3.Implies(sub(t), z3.And(dl(t) >= 0, dl(t) < R)), z3.Implies(sub(t), isO(t) == (dl(t) == 0)),
                z3.Implies(isO(t), sub(t))]


# ---------------------------------------------------------------------------------------------------
# call-site contracts
# ---------------------------------------------------------------------------------------------------
class DecodeContract:
    """pubkey_to_G1 / signature_to_G2 at a call site (contracts.codec: soundness, canonicity, completeness):
       for a string of the nominal length n:  raises ValueError iff not ok(b);  otherwise returns a valid
       representative of pt(b), with enc(pt(b)) = b  (canonical) — and pt(enc(p)) = p, ok(enc(p)) for valid p.
       For any other length nothing is promised: it raises ValueError or returns some valid point."""

    def __init__(self, top, g):
        self.top, self.g = top, g
        self.n = 48 if g == "G1" else 96
        self.ok, self.pt, self.enc = (ok1, pt1, enc1) if g == "G1" else (ok2, pt2, enc2)

    def apply(self, interp, fv, env):
        path = cur()
        b = list(env.values())[0]
        if not isinstance(b, (SBytes, bytes)):
            raise PyRaise(TypeError, "decoder on a non-bytes value")
        bt_ = bt(b)
        if not implied(path, z3.Length(bt_) == self.n):
            # off-nominal length: unspecified result (this is what D1 was about; KeyValidate now gates the length)
            path.prove(f"{self.top}/call[{fv.node.name}]/requires.length", False, kind="requires",
                       detail=f"decoder called on a string whose length is not known to be {self.n}")
            if path.choose(2, "decode?") == 0:
                raise PyRaise(ValueError, "decode")
            return BPoint(self.g, z3.Const(f"anyPt!{next(path.fresh_id)}", Pt))
        if path.case(ZAtom(self.ok(bt_)), f"{fv.node.name} ok?"):
            t = self.pt(bt_)
            path.zc.append(self.enc(t) == bt_)                   # canonicity (C11)
            dl_facts(path, t)
            d = None
            b0 = z3.simplify(bt_)
            if z3.is_app(b0) and b0.decl().eq(self.enc) and implied(path, t == b0.arg(0)):
                d = dlR(path, z3.simplify(b0.arg(0)))            # decode(encode(p)) = p: same discrete log
            return BPoint(self.g, t, d)
        raise PyRaise(ValueError, "decode")


class EncodeContract:
    """G1_to_pubkey / G2_to_signature at a call site: enc(p) has the nominal length and decodes back to p"""

    def __init__(self, g):
        self.g = g
        self.n = 48 if g == "G1" else 96
        self.ok, self.pt, self.enc = (ok1, pt1, enc1) if g == "G1" else (ok2, pt2, enc2)

    def apply(self, interp, fv, env):
        path = cur()
        p = list(env.values())[0]
        if not isinstance(p, BPoint):
            raise Unsupported("encoder on a non-point")
        e = self.enc(p.t)
        # completeness of the round trip (C11): for G1 it excludes the order-3 points with x = 0 (known finding D2),
        # which are outside the subgroup; so the instance is stated for subgroup points
        path.zc += [z3.Length(e) == self.n, z3.Implies(sub(p.t), z3.And(self.ok(e), self.pt(e) == p.t))]
        return SBytes(e)


class GroupOpContract:
    """optimized_curve multiply / add / neg / is_inf on abstract points (L2 contracts), with the subgroup facts
    that follow from L-GROUP / L-CYCLIC instantiated at the result"""

    def __init__(self, op):
        self.op = op

    def apply(self, interp, fv, env):
        path = cur()
        vals = list(env.values())
        if self.op == "is_inf":
            p = vals[0]
            dl_facts(path, p.t)
            return ZAtom(isO(p.t))
        if self.op == "multiply":
            p, k = vals
            kt = zt(k)
            if not implied(path, kt >= 0):
                raise Unsupported("multiply with a possibly negative scalar")
            t = mulP(kt, p.t)
            path.zc += [z3.Implies(sub(p.t), sub(t))]
            if isinstance(k, int) or z3.is_int_value(z3.simplify(kt)):
                path.zc += [z3.Implies(sub(p.t), dl(t) == (kt * dl(p.t)) % R)]
            elif p.t.eq(G1gen):
                path.zc += [dl(t) == kt % R]
            dl_facts(path, t)
            dl_facts(path, p.t)
            return BPoint(p.g, t, scalarR(path, k) * p.d)
        if self.op == "add":
            a, b = vals
            t = addP(a.t, b.t)
            path.zc += [z3.Implies(z3.And(sub(a.t), sub(b.t)), z3.And(sub(t), dl(t) == (dl(a.t) + dl(b.t)) % R)),
                        z3.Implies(isO(a.t), t == b.t), z3.Implies(isO(b.t), t == a.t)]
            dl_facts(path, t)
            return BPoint(a.g, t, a.d + b.d)
        if self.op == "neg":
            a = vals[0]
            t = negP(a.t)
            path.zc += [z3.Implies(sub(a.t), z3.And(sub(t), dl(t) == z3.If(dl(a.t) == 0, 0, R - dl(a.t)))), isO(t) == isO(a.t)]
            dl_facts(path, t)
            return BPoint(a.g, t, -a.d)
        raise Unsupported(self.op)


class SubgroupCheckContract:
    """g2_primitives.subgroup_check (unit bls.subgroup_check, C17): res <=> r . abs(P) = O, i.e. P in the subgroup"""

    def apply(self, interp, fv, env):
        p = list(env.values())[0]
        dl_facts(cur(), p.t)
        return ZAtom(sub(p.t))


class HashToG2Contract:
    """hash_to_G2(message, DST, sha256) (C10): a valid point of the prime-order subgroup, a function of (message, DST)"""

    def __init__(self, top):
        self.top = top
        self.calls = []

    def apply(self, interp, fv, env):
        path = cur()
        m, d = env["message"], env["DST"]
        t = H2(bt(m), bt(d))
        self.calls.append((m, d, env.get("hash_function")))
        path.zc += [sub(t)]
        dl_facts(path, t)
        return BPoint("G2", t)


class PairingContract:
    """optimized pairing(Q, P, final_exponentiate=False) at a call site.
       requires  Q, P valid representatives IN THE PRIME-ORDER SUBGROUPS  (call-site obligation: third clause of C04)
       ensures   (A-PAIRING, assumed)  the product of such values passes the final check iff sum dl(Q_i) dl(P_i) = 0 (mod r)"""

    def __init__(self, top):
        self.top = top
        self.calls = 0

    def apply(self, interp, fv, env):
        path = cur()
        self.calls += 1
        Q, P = env["Q"], env["P"]
        for nm, v, g in (("Q", Q, "G2"), ("P", P, "G1")):
            ok = isinstance(v, BPoint) and v.g == g
            path.prove(f"{self.top}/call[pairing#{self.calls}]/requires.valid-{nm}", ok, kind="requires",
                       detail=f"{nm} is a valid point of {g}")
            if not ok:
                raise Unsupported("pairing on a non-point")
            path.prove(f"{self.top}/call[pairing#{self.calls}]/requires.subgroup-{nm}", ZAtom(sub(v.t)), kind="requires",
                       detail=f"no pairing on a point outside the prime-order subgroup ({nm})")
        fe = env.get("final_exponentiate", True)
        return GTVal(Q.d * P.d, finalized=bool(fe))


class FinalExpContract:
    def apply(self, interp, fv, env):
        v = list(env.values())[0]
        if not isinstance(v, GTVal):
            raise Unsupported("final_exponentiate of a non-pairing value")
        return GTVal(v.exp, True)


class FQ12OneContract:
    def apply(self, interp, fv, env):
        cur().pc.char = R
        return GTVal(KR(0), True)


class NonInt:
    """a value that is not an instance of int (nor of bytes): str / float / None ... stand-in"""

    def __repr__(self):
        return "<non-int value>"
