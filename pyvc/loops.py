"""Generic Hoare-rule loop contract over z3-sorted state (symbolic trip count).

  entry:     invariant holds for the state reaching the loop            -> obligation  loop<k>/entry
  havoc:     every modified variable (and every ghost) becomes a fresh symbol; assume invariant
  guard true:  execute the body once; ghost step; prove invariant again -> obligation  loop<k>/preserve
               prove the measure decreases and stays >= 0                -> obligation  loop<k>/decreases
               (path ends)
  guard false: continue after the loop from  invariant and not guard
"""
from __future__ import annotations

import z3

from .core import cur, ZAtom, PathAbort, Unsupported
from .sym import SInt, SBytes, zt


def fresh_like(path, name, v):
    k = next(path.fresh_id)
    if isinstance(v, (SInt, int)) and not isinstance(v, bool):
        return SInt(z3.Int(f"{name}!{k}"))
    if isinstance(v, (SBytes, bytes, bytearray)):
        from .pymodel import MutBytes
        t = z3.Const(f"{name}!{k}", z3.SeqSort(z3.BitVecSort(8)))
        return MutBytes(t) if isinstance(v, (MutBytes, bytearray)) else SBytes(t)
    from .pymodel import SymBytesList
    if isinstance(v, SymBytesList):
        return SymBytesList.fresh(path, name)
    if isinstance(v, list) and all(isinstance(x, (bytes, SBytes)) for x in v):
        return SymBytesList.fresh(path, name)
    if hasattr(v, "fresh_like"):
        return v.fresh_like(path, name)
    raise Unsupported(f"cannot havoc loop variable {name} of type {type(v).__name__}")


class Z3Loop:
    """vars: names of the local variables the loop modifies.
    inv(env, ghost) -> list of (label, z3 BoolRef);  ghost_init(env) -> dict;  ghost_havoc(path) -> dict;
    ghost_step(env_before, ghost, env_after) -> dict;  lemmas(env, ghost) -> list of z3 BoolRef assumed in
    the body branch (instances of spec recurrences / Euclid step);  measure(env) -> z3 Int term."""

    def __init__(self, name, vars, inv, ghost_init=None, ghost_havoc=None, ghost_step=None, lemmas=None,
                 measure=None, exit_lemmas=None, for_target=None):
        self.name, self.vars, self.inv = name, list(vars), inv
        self.ghost_init, self.ghost_havoc, self.ghost_step = ghost_init, ghost_havoc, ghost_step
        self.lemmas, self.measure, self.exit_lemmas = lemmas, measure, exit_lemmas
        self.for_target = for_target

    def _prove_inv(self, path, env, ghost, stage):
        for label, t in self.inv(env, ghost):
            path.prove(f"{self.name}/{stage}.{label}", ZAtom(t), kind="invariant")

    def run_while(self, interp, st, fr):
        self._run(interp, st, fr, lambda: interp.truth(interp.eval(st.test, fr), "loop guard"), None)

    def _run(self, interp, st, fr, guard, pre_body):
        path = cur()
        prev, path.in_source = path.in_source, False
        try:
            env = fr.env
            ghost = self.ghost_init(env) if self.ghost_init else {}
            self._prove_inv(path, env, ghost, "entry")
            for v in self.vars:
                if v in env:
                    env[v] = fresh_like(path, v, env[v])
                else:
                    raise Unsupported(f"loop variable {v} not bound at loop entry")
            ghost = self.ghost_havoc(path) if self.ghost_havoc else {}
            for label, t in self.inv(env, ghost):
                path.assume(t, f"invariant.{label}")
            path.in_source = True
            g = guard()
            path.in_source = False
            if g:
                before = dict(env)
                if self.lemmas:
                    for t in self.lemmas(env, ghost):
                        path.assume(t, "lemma instance")
                m0 = self.measure(env) if self.measure else None
                path.in_source = True
                if pre_body:
                    pre_body()
                interp.exec_block(st.body, fr)
                path.in_source = False
                g2 = self.ghost_step(before, ghost, env) if self.ghost_step else ghost
                self._prove_inv(path, env, g2, "preserve")
                if self.measure:
                    m1 = self.measure(env)
                    path.prove(f"{self.name}/decreases", ZAtom(z3.And(m1 >= 0, m1 < m0)), kind="decreases")
                raise PathAbort()
            if self.exit_lemmas:
                for t in self.exit_lemmas(env, ghost):
                    path.assume(t, "lemma instance at exit")
            path.ghost[f"loop-ghost:{self.name}"] = ghost
            path.ghost[f"loop-env:{self.name}"] = dict(env)
        finally:
            path.in_source = prev


def _run_for(self, interp, st, fr):
    """for <name> in range(lo, hi) with symbolic bounds: the loop variable becomes part of the state;
    invariant must mention it through env[<name>] (value *before* the iteration runs)."""
    import ast
    from .pymodel import SymRange
    it = interp.eval(st.iter, fr)
    if isinstance(it, range):
        it = SymRange(it.start, it.stop) if it.step == 1 else None
    if not isinstance(it, SymRange) or not isinstance(st.target, ast.Name):
        raise Unsupported("loop contract on a for-loop that is not `for name in range(lo, hi)`")
    tgt = st.target.id
    lo, hi = it.lo, it.hi
    fr.env[tgt] = lo if isinstance(lo, SInt) else SInt(z3.IntVal(lo)) if isinstance(lo, int) else lo
    if tgt not in self.vars:
        self.vars.append(tgt)
    path = cur()
    path.ghost[f"loop-range:{self.name}"] = (lo, hi)

    def guard():
        return interp.truth(ZAtom(zt(fr.env[tgt]) < zt(hi)), "loop guard")

    class _Body:
        body = list(st.body) + [ast.parse(f"{tgt} = {tgt} + 1").body[0]]
    self._run(interp, _Body, fr, guard, None)
    # after the loop Python leaves the last value in the target; nothing in py_ecc reads it


Z3Loop.run_for = _run_for
