"""Generic Hoare-rule loop contract over z3-sorted state (symbolic trip count).

  entry:     invariant holds for the state reaching the loop            -> obligation  loop<k>/entry
  havoc:     every modified variable (and every ghost) becomes a fresh symbol; assume invariant
  guard true:  execute the body once; ghost step; prove invariant again -> obligation  loop<k>/preserve
               prove the measure decreases and stays >= 0                -> obligation  loop<k>/decreases
               (path ends)
  guard false: continue after the loop from  invariant and not guard
"""
from __future__ import annotations

import z3

from .core import cur, ZAtom, PathAbort, Unsupported
from .interp import _Return
from .sym import SInt, SBytes, zt


def fresh_like(path, name, v):
    k = next(path.fresh_id)
    if isinstance(v, (SInt, int)) and not isinstance(v, bool):
        return SInt(z3.Int(f"{name}!{k}"))
    if isinstance(v, (SBytes, bytes, bytearray)):
        from .pymodel import MutBytes
        t = z3.Const(f"{name}!{k}", z3.SeqSort(z3.BitVecSort(8)))
        return MutBytes(t) if isinstance(v, (MutBytes, bytearray)) else SBytes(t)
    from .pymodel import SymBytesList
    if isinstance(v, SymBytesList):
        return SymBytesList.fresh(path, name)
    if isinstance(v, list) and all(isinstance(x, (bytes, SBytes)) for x in v):
        return SymBytesList.fresh(path, name)
    if hasattr(v, "fresh_like"):
        return v.fresh_like(path, name)
    raise Unsupported(f"cannot havoc loop variable {name} of type {type(v).__name__}")


_MUTATORS = {"append", "extend", "insert", "pop", "remove", "clear", "update", "add", "sort", "reverse", "setdefault", "discard"}


def _modified_names(st):
    """names of locals that the loop statement `st` (its body, and for a for-loop its target) may assign or mutate"""
    import ast
    out = []

    def add(n):
        if n not in out:
            out.append(n)

    def base(e):
        while isinstance(e, (ast.Subscript, ast.Attribute)):
            e = e.value
        return e.id if isinstance(e, ast.Name) else None
    body = getattr(st, "body", [])
    for top in body:
        for n in ast.walk(top):
            if isinstance(n, ast.Name) and isinstance(n.ctx, (ast.Store, ast.Del)):
                add(n.id)
            elif isinstance(n, (ast.Subscript, ast.Attribute)) and isinstance(n.ctx, (ast.Store, ast.Del)):
                b = base(n)
                if b:
                    add(b)
            elif isinstance(n, ast.Call) and isinstance(n.func, ast.Attribute) and n.func.attr in _MUTATORS:
                b = base(n.func.value)
                if b:
                    add(b)
    return out


def require_declared(st, fr, declared, name):
    """a loop contract that runs one symbolic iteration describes the locals it names; a local that is bound at loop entry and
    assigned or mutated by the body in the source under check, but unknown to the contract, is loop-carried state the contract
    says nothing about: the contract does not apply (the unit is undecided) — never reason with the entry value"""
    extra = [v for v in _modified_names(st) if v not in declared and v in fr.env]
    if extra:
        raise Unsupported(f"loop contract {name}: the loop modifies locals the sidecar contract does not describe ({', '.join(extra)})")


class Z3Loop:
    """vars: names of the local variables the loop modifies.
    inv(env, ghost) -> list of (label, z3 BoolRef);  ghost_init(env) -> dict;  ghost_havoc(path) -> dict;
    ghost_step(env_before, ghost, env_after) -> dict;  lemmas(env, ghost) -> list of z3 BoolRef assumed in
    the body branch (instances of spec recurrences / Euclid step);  measure(env) -> z3 Int term."""

    def __init__(self, name, vars, inv, ghost_init=None, ghost_havoc=None, ghost_step=None, lemmas=None,
                 measure=None, exit_lemmas=None, for_target=None, for_lo=None):
        self.name, self.vars = name, list(vars)
        self._inv, self._ghost_step, self._lemmas, self._measure, self._exit_lemmas = inv, ghost_step, lemmas, measure, exit_lemmas
        self.ghost_init, self.ghost_havoc = ghost_init, ghost_havoc
        self.for_target = for_target
        self.for_lo = for_lo
        self._index_view = None
        self.inv = lambda env, gh: self._inv(self._view(env), gh)
        self.ghost_step = (lambda b, gh, a: self._ghost_step(self._view(b), gh, self._view(a))) if ghost_step else None
        self.lemmas = (lambda env, gh: self._lemmas(self._view(env), gh)) if lemmas else None
        self.measure = (lambda env: self._measure(self._view(env))) if measure else None
        self.exit_lemmas = (lambda env, gh: self._exit_lemmas(self._view(env), gh)) if exit_lemmas else None

    def _view(self, env):
        if self._index_view is None:
            return env
        tgt, lo, lo0 = self._index_view
        if tgt not in env:
            return env
        lo_t = zt(lo) if not isinstance(lo, int) else z3.IntVal(lo)
        if z3.is_int_value(lo_t) and lo_t.as_long() == lo0:
            return env
        v = dict(env)
        v[tgt] = SInt(z3.simplify(zt(env[tgt]) - lo_t + lo0))
        return v

    def _prove_inv(self, path, env, ghost, stage):
        for label, t in self.inv(env, ghost):
            path.prove(f"{self.name}/{stage}.{label}", ZAtom(t), kind="invariant")

    def run_while(self, interp, st, fr):
        self._run(interp, st, fr, lambda: interp.truth(interp.eval(st.test, fr), "loop guard"), None)

    def _run(self, interp, st, fr, guard, pre_body):
        path = cur()
        prev, path.in_source = path.in_source, False
        try:
            env = fr.env
            ghost = self.ghost_init(env) if self.ghost_init else {}
            self._prove_inv(path, env, ghost, "entry")
            # the havoc set is the declared one plus every local the loop body assigns or mutates in the source under check (a
            # contract that forgot one would otherwise reason with its entry value); a name that is not bound at entry is
            # written by the body before it is read (or the read is reported as an unbound name), so it needs no havoc
            extras = [x for x in _modified_names(st) if x not in self.vars and x != getattr(self, "_tgt", None)]
            for v in list(self.vars) + extras:
                if v in env:
                    env[v] = fresh_like(path, v, env[v])
                    if v in extras:
                        # loop-carried state the invariant does not constrain: a counter-model further down this path may be an
                        # unreachable state, so a refutation there is only 'not proved'
                        path.weak_invariant = (getattr(path, "weak_invariant", None) or []) + [f"{self.name}: {v}"]
            ghost = self.ghost_havoc(path) if self.ghost_havoc else {}
            for label, t in self.inv(env, ghost):
                path.assume(t, f"invariant.{label}")
            path.in_source = True
            g = guard()
            path.in_source = False
            if g:
                before = dict(env)
                if self.lemmas:
                    for t in self.lemmas(env, ghost):
                        path.assume(t, "lemma instance")
                m0 = self.measure(env) if self.measure else None
                path.in_source = True
                if pre_body:
                    pre_body()
                try:
                    interp.exec_block(st.body, fr)
                except _Return:
                    # `return` inside the loop body: the function's postcondition is proved by the unit from this state; the
                    # ghost state it sees is the one after this (partial) iteration
                    path.in_source = False
                    path.ghost[f"loop-ghost:{self.name}"] = self.ghost_step(before, ghost, env) if self.ghost_step else ghost
                    path.ghost[f"loop-env:{self.name}"] = dict(env)
                    path.ghost[f"loop-return:{self.name}"] = True
                    raise
                path.in_source = False
                g2 = self.ghost_step(before, ghost, env) if self.ghost_step else ghost
                self._prove_inv(path, env, g2, "preserve")
                if self.measure:
                    m1 = self.measure(env)
                    path.prove(f"{self.name}/decreases", ZAtom(z3.And(m1 >= 0, m1 < m0)), kind="decreases")
                raise PathAbort()
            if self.exit_lemmas:
                for t in self.exit_lemmas(env, ghost):
                    path.assume(t, "lemma instance at exit")
            path.ghost[f"loop-ghost:{self.name}"] = ghost
            path.ghost[f"loop-env:{self.name}"] = dict(env)
        finally:
            path.in_source = prev


def _run_for(self, interp, st, fr):
    """for <name> in range(lo, hi) with symbolic bounds: the loop variable becomes part of the state;
    invariant must mention it through env[<name>] (value *before* the iteration runs)."""
    import ast
    from .pymodel import SymRange
    it = interp.eval(st.iter, fr)
    if isinstance(it, range):
        it = SymRange(it.start, it.stop) if it.step == 1 else None
    if not isinstance(it, SymRange) or not isinstance(st.target, ast.Name):
        raise Unsupported("loop contract on a for-loop that is not `for name in range(lo, hi)`")
    tgt = st.target.id
    if tgt in _modified_names(st):
        # Python's for statement iterates independently of what the body does to the target; this rule counts with the target
        raise Unsupported(f"loop contract on a for-loop whose body assigns its own target `{tgt}`")
    lo, hi = it.lo, it.hi
    if self.for_lo is not None:
        # the contract speaks about the index as the unchanged tree counts it (from self.for_lo): show the invariant, the
        # lemma instances and the measure the value  target - lo + for_lo  (identical when the range still starts there)
        self._index_view = (tgt, lo, self.for_lo)
    fr.env[tgt] = lo if isinstance(lo, SInt) else SInt(z3.IntVal(lo)) if isinstance(lo, int) else lo
    if tgt not in self.vars:
        self.vars.append(tgt)
    self._tgt = tgt
    path = cur()
    path.ghost[f"loop-range:{self.name}"] = (lo, hi)

    def guard():
        return interp.truth(ZAtom(zt(fr.env[tgt]) < zt(hi)), "loop guard")

    class _Body:
        body = list(st.body) + [ast.parse(f"{tgt} = {tgt} + 1").body[0]]
    self._run(interp, _Body, fr, guard, None)
    # after the loop Python leaves the last value in the target; nothing in py_ecc reads it


Z3Loop.run_for = _run_for
