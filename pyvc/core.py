"""Paths, decisions, obligations and the symbolic value kinds shared by the source-level
executor (interp.py) and by host-level spec / contract code.

A *path* is one run of (code under contract + contract clauses) under a fixed list of branch
decisions.  Whenever a branch on a symbolic condition is met, the context is asked whether the
condition is already decided; if not, the path forks by *decision replay*: the function is
re-executed from the start with a longer decision prefix.  This keeps the executor an ordinary
interpreter over mutable state (no state copying).
"""
from __future__ import annotations

import itertools
import time

import z3

from .poly import PCtx, Poly, Rat, R, P, Infeasible, KernelTimeout, ONE, ZERO

_current = None     # the Path being executed (host-level operators need it)


def cur():
    if _current is None:
        raise RuntimeError("no active path")
    return _current


class Unsupported(Exception):
    """construct outside the supported subset -> property undecided (exit 2), never 'held'"""


class PathAbort(Exception):
    """internal: stop executing this path (e.g. after a loop-body check)"""


# ----------------------------------------------------------------------------------------
# atoms
# ----------------------------------------------------------------------------------------
class FAtom:
    """poly == 0  (eq=True)  or  poly != 0  (eq=False) over the field domain"""
    __slots__ = ("p", "eq", "note")

    def __init__(self, p, eq=True, note=""):
        self.p = p
        self.eq = eq
        self.note = note

    def __invert__(self):
        return FAtom(self.p, not self.eq, self.note)

    def __bool__(self):
        return cur().case(self)

    def __repr__(self):
        return f"[{self.p} {'==' if self.eq else '!='} 0]"


class ZAtom:
    """wrapper for a z3 Bool used as a Python-level condition"""
    __slots__ = ("t",)

    def __init__(self, t):
        self.t = t

    def __bool__(self):
        return cur().case(self)

    def __invert__(self):
        return ZAtom(z3.Not(self.t))

    def __repr__(self):
        return f"[{self.t}]"


# ----------------------------------------------------------------------------------------
# field values
# ----------------------------------------------------------------------------------------
class PToken:
    """a symbolic prime modulus p >= 2 (the class attribute `field_modulus` of a generic field
    class); the only operations the source performs with it are `x % p`, `pow(x, e, p)` and
    passing it to prime_field_inv -- all handled through the ModInt reading"""

    def __init__(self, name="p"):
        self.name = name
        self.kind = None            # set by the unit: the ModInt kind whose modulus this token is

    def __repr__(self):
        return f"<prime {self.name}>"

    # arithmetic with the modulus itself: p is 0 in Z/p; the integer result is neither reduced nor zero-faithful
    def _z(self):
        if self.kind is None:
            raise Unsupported("arithmetic on the field modulus outside a ModInt context")
        return Fld(R(0), self.kind, reduced=False, zf=False)

    def __add__(self, o):
        return self._z() + o

    __radd__ = __add__

    def __sub__(self, o):
        return self._z() - o

    def __rsub__(self, o):
        return o - self._z() if isinstance(o, Fld) else self._z()._co(o) - self._z()

    def __mul__(self, o):
        return self._z() * o

    __rmul__ = __mul__


def in_range(v, modulus):
    """is the literal integer v certainly in [0, modulus)?"""
    if modulus is None:
        return True
    if isinstance(modulus, PToken):
        return v in (0, 1)
    return 0 <= v < modulus


class FldKind:
    """the 'class' of a symbolic field element: carries what `.one()`, `.zero()`,
    `.__class__` need, plus (for the integer-mod-P reading used by secp256k1 and by the field
    classes) the modulus: a concrete int or a PToken."""

    def __init__(self, name, modulus=None):
        self.name = name
        self.modulus = modulus      # int / PToken for the ModInt reading, else None

    def one(self):
        return Fld(R(1), self, reduced=True)

    def zero(self):
        return Fld(R(0), self, reduced=True)

    def __call__(self, v):
        if isinstance(v, Fld):
            return v
        if isinstance(v, int):
            return Fld(R(v), self, reduced=in_range(v, self.modulus))
        raise Unsupported(f"{self.name}({type(v).__name__})")

    def __repr__(self):
        return f"<FldKind {self.name}>"


class Fld:
    """symbolic element of an arbitrary field (characteristic outside PCtx.char_excl).
    For kinds with a modulus it reads as 'an integer, viewed modulo P'; `reduced` then says the
    integer itself is known to lie in [0, P)."""
    __slots__ = ("r", "kind", "reduced", "zf")

    def __init__(self, r, kind, reduced=True, zf=None):
        self.r = r
        self.kind = kind
        self.reduced = reduced
        # zero-faithful: the integer is 0 exactly when it is 0 modulo p.  Holds for reduced values,
        # for -x and x*y of zero-faithful x, y (p prime), not for sums.
        self.zf = bool(reduced or kind.modulus is None) if zf is None else bool(zf or reduced)

    # -- helpers
    def _co(self, o):
        if isinstance(o, Fld):
            return o
        if isinstance(o, bool):
            o = int(o)
        if isinstance(o, int):
            return Fld(R(o), self.kind, reduced=in_range(o, self.kind.modulus), zf=(o in (0, 1, -1)))
        return None

    def _mk(self, r, zf=False):
        return Fld(r, self.kind, reduced=(self.kind.modulus is None), zf=zf)

    def __add__(self, o):
        if isinstance(o, int) and not isinstance(o, bool) and o == 0:
            return self                     # n + 0 is n exactly
        o = self._co(o)
        return NotImplemented if o is None else self._mk(self.r + o.r)

    __radd__ = __add__

    def __sub__(self, o):
        if isinstance(o, int) and not isinstance(o, bool) and o == 0:
            return self
        o = self._co(o)
        return NotImplemented if o is None else self._mk(self.r - o.r)

    def __rsub__(self, o):
        o = self._co(o)
        if o is None:
            return NotImplemented
        return self._mk(o.r - self.r, zf=(self.zf and o.r.n.is_zero()))

    def __mul__(self, o):
        if isinstance(o, int) and not isinstance(o, bool) and o == 1:
            return self
        o = self._co(o)
        return NotImplemented if o is None else self._mk(self.r * o.r, zf=(self.zf and o.zf))

    __rmul__ = __mul__

    def __neg__(self):
        return self._mk(-self.r, zf=self.zf)

    def __pow__(self, k):
        if isinstance(k, bool) or not isinstance(k, int) or k < 0:
            raise Unsupported(f"field power with exponent {k!r}")
        if k > 64:
            raise Unsupported("large symbolic power; needs a contract")
        return self._mk(self.r ** k)

    def _no_int_div(self):
        if self.kind.modulus is not None and cur().in_source:
            raise Unsupported("true division `/` of plain integers in the source (float result)")

    def __truediv__(self, o):
        o = self._co(o)
        if o is None:
            return NotImplemented
        self._no_int_div()
        return fdiv(self, o)

    def __rtruediv__(self, o):
        o = self._co(o)
        if o is None:
            return NotImplemented
        self._no_int_div()
        return fdiv(o, self)

    def __mod__(self, m):
        km = self.kind.modulus
        if km is not None and (m is km or (isinstance(m, int) and isinstance(km, int) and m == km)):
            return Fld(self.r, self.kind, reduced=True)
        raise Unsupported("% on a field value with something other than the field modulus")

    def __rmod__(self, o):
        raise Unsupported("% with a field value as divisor")

    def _cmp_ok(self, o):
        if self.kind.modulus is not None and cur().in_source:
            # comparison with the literal 0 only needs zero-faithfulness
            if o.r.n.is_zero() and self.zf:
                return
            if self.r.n.is_zero() and o.zf:
                return
        if self.kind.modulus is not None and cur().in_source and not (self.reduced and o.reduced):
            cur().safety("compare-canonical", False,
                         "comparison of an integer that is not reduced modulo P")

    def __eq__(self, o):
        o2 = self._co(o)
        if o2 is None:
            return NotImplemented
        self._cmp_ok(o2)
        d = self.r - o2.r
        return FAtom(d.n, True)

    def __ne__(self, o):
        a = self.__eq__(o)
        return a if a is NotImplemented else ~a

    def __bool__(self):
        # truthiness of an integer mod P:  value != 0
        if self.kind.modulus is None:
            return True   # objects are truthy
        self._cmp_ok(self.kind.zero())
        return cur().case(FAtom(self.r.n, False))

    __hash__ = None

    # class-like API used by py_ecc code
    def one(self):
        return self.kind.one()

    def zero(self):
        return self.kind.zero()

    def __repr__(self):
        return f"Fld{self.r}"


def fdiv(a, b):
    """a / b with the inv0 convention; forks on b == 0 unless the context decides"""
    p = cur()
    if p.case(FAtom(b.r.n, True, "divisor")):
        return a.kind.zero()
    # b != 0 is now in the context, so b.r.n is a unit
    return a._mk(Rat(a.r.n * b.r.d, a.r.d * b.r.n))


def fsym(name, kind):
    return Fld(R(Poly.var(name)), kind, reduced=True)


# ----------------------------------------------------------------------------------------
# obligations
# ----------------------------------------------------------------------------------------
class Obligation:
    __slots__ = ("name", "path_sig", "status", "backend", "seconds", "detail", "witness", "kind")

    def __init__(self, name, path_sig, status, backend, seconds, detail="", witness=None, kind="ensures"):
        self.name = name            # <function>/<clause>
        self.path_sig = path_sig
        self.status = status        # proved | refuted | unknown
        self.backend = backend
        self.seconds = seconds
        self.detail = detail
        self.witness = witness
        self.kind = kind

    def as_dict(self):
        return dict(name=self.name, path=self.path_sig, status=self.status, backend=self.backend,
                    seconds=round(self.seconds, 4), detail=self.detail[:2000],
                    witness=self.witness)


# ----------------------------------------------------------------------------------------
# z3 helpers
# ----------------------------------------------------------------------------------------
Z3_TIMEOUT_MS = 10000
BRANCH_TIMEOUT_MS = 1500      # deciding a branch: an undecided condition simply forks


_HEAVY_KINDS = None
_heavy_cache = {}


def is_heavy(t):
    """does the term contain sequence concatenation / extraction (expensive for *sat* queries)?"""
    global _HEAVY_KINDS
    if _HEAVY_KINDS is None:
        _HEAVY_KINDS = {z3.Z3_OP_SEQ_CONCAT, z3.Z3_OP_SEQ_EXTRACT, z3.Z3_OP_SEQ_AT, z3.Z3_OP_SEQ_REPLACE}
    k = t.get_id()
    if k in _heavy_cache:
        return _heavy_cache[k]
    seen = set()
    stack = [t]
    res = False
    while stack:
        x = stack.pop()
        i = x.get_id()
        if i in seen:
            continue
        seen.add(i)
        if z3.is_quantifier(x):
            stack.append(x.body())
            continue
        if z3.is_app(x):
            if x.decl().kind() in _HEAVY_KINDS:
                res = True
                break
            stack.extend(x.children())
    _heavy_cache[k] = res
    return res


_len_vars = {}
_abs_cache = {}
_var_count = [0]


def _var_for(kind, term, sort=None):
    """one abstraction variable per distinct (live) term"""
    key = (kind, term.get_id())
    hit = _len_vars.get(key)
    if hit is not None and hit[0].eq(term):
        return hit[1]
    _var_count[0] += 1
    v = z3.Const(f"{kind}#{_var_count[0]}", sort if sort is not None else z3.IntSort())
    _len_vars[key] = (term, v)
    return v


_BOOL_OPS = None
_ARITH_OPS = None


def _abstract(t):
    """Boolean + linear-integer skeleton of a formula (an over-approximation: every model of t is a model of the
    skeleton).  Kept: Boolean structure, integer comparisons, linear arithmetic, ite.  Replaced by one variable per
    distinct (live) term: Length(s), non-linear products, integer-valued functions of non-integer arguments
    (os2ip(b), dl(P)), and every other atom (uninterpreted predicates, equalities between sequences / points).
    Returns (skeleton, side conditions)."""
    global _BOOL_OPS, _ARITH_OPS
    if _BOOL_OPS is None:
        _BOOL_OPS = {z3.Z3_OP_AND, z3.Z3_OP_OR, z3.Z3_OP_NOT, z3.Z3_OP_IMPLIES, z3.Z3_OP_XOR, z3.Z3_OP_TRUE, z3.Z3_OP_FALSE,
                     z3.Z3_OP_ITE, z3.Z3_OP_IFF}
        _ARITH_OPS = {z3.Z3_OP_ADD, z3.Z3_OP_SUB, z3.Z3_OP_UMINUS, z3.Z3_OP_LE, z3.Z3_OP_LT, z3.Z3_OP_GE, z3.Z3_OP_GT,
                      z3.Z3_OP_ITE, z3.Z3_OP_ANUM}
    k = t.get_id()
    hit = _abs_cache.get(k)
    if hit is not None and hit[0].eq(t):
        return hit[1]
    side = []

    def rec(x):
        kk = x.get_id()
        h = _abs_cache.get(("r", kk))
        if h is not None and h[0].eq(x):
            side.extend(h[2])
            return h[1]
        loc = []
        r = rec1(x, loc)
        _abs_cache[("r", kk)] = (x, r, loc)
        side.extend(loc)
        return r

    def rec1(x, loc):
        if z3.is_quantifier(x) or not z3.is_app(x):
            return _var_for("q", x, z3.BoolSort()) if z3.is_bool(x) else _var_for("q", x, x.sort())
        kind = x.decl().kind()
        ch = x.children()
        if z3.is_bool(x):
            if kind in _BOOL_OPS or (kind in (z3.Z3_OP_EQ, z3.Z3_OP_DISTINCT) and all(z3.is_bool(c) for c in ch)):
                return x.decl()(*[rec(c) for c in ch]) if ch else x
            if kind in (z3.Z3_OP_EQ, z3.Z3_OP_DISTINCT, z3.Z3_OP_LE, z3.Z3_OP_LT, z3.Z3_OP_GE, z3.Z3_OP_GT) \
                    and all(z3.is_int(c) for c in ch):
                return x.decl()(*[rec(c) for c in ch])
            if kind == z3.Z3_OP_UNINTERPRETED and all(z3.is_int(c) or z3.is_bool(c) for c in ch):
                return x.decl()(*[rec(c) for c in ch]) if ch else x      # predicate over integers: keep (congruence)
            return _var_for("b", x, z3.BoolSort())
        if z3.is_int(x):
            if z3.is_int_value(x) or (kind == z3.Z3_OP_UNINTERPRETED and not ch):
                return x
            if kind in (z3.Z3_OP_ADD, z3.Z3_OP_SUB, z3.Z3_OP_UMINUS):
                return x.decl()(*[rec(c) for c in ch])
            if kind == z3.Z3_OP_ITE:
                return z3.If(rec(ch[0]), rec(ch[1]), rec(ch[2]))
            if kind == z3.Z3_OP_MUL:
                if sum(1 for c in ch if not z3.is_int_value(c)) >= 2:
                    return _var_for("nl", x)
                return x.decl()(*[rec(c) for c in ch])
            if kind in (z3.Z3_OP_MOD, z3.Z3_OP_IDIV, z3.Z3_OP_REM) and z3.is_int_value(ch[1]):
                return x.decl()(rec(ch[0]), ch[1])
            if kind == z3.Z3_OP_UNINTERPRETED and ch and all(z3.is_int(c) or z3.is_bool(c) for c in ch):
                return x.decl()(*[rec(c) for c in ch])                    # integer function of integers: keep
            v = _var_for("len" if kind == z3.Z3_OP_SEQ_LENGTH else "ia", x)
            if kind == z3.Z3_OP_SEQ_LENGTH:
                loc.append(v >= 0)
            return v
        return _var_for("o", x, x.sort())

    res = (rec(t), side)
    _abs_cache[k] = (t, res)
    return res


def light(assumptions, goal):
    """context for *deciding a branch* on `goal`.  Abstraction is sound there (an undecided branch simply
    forks): lengths of sequences become non-negative integer variables and hypotheses that still talk
    about sequence values are dropped, so the query is pure integer arithmetic.  (z3's sequence solver
    needs a minute to build a *model* with Length(s) > 255, and branch decisions are sat-flavoured.)"""
    g = _abstract(goal)
    out = []
    for a in assumptions:
        r = _abstract(a)
        out.append(r[0])
        out.extend(r[1])
    out.extend(g[1])
    return out, g[0]


RLIMIT_PER_MS = int(__import__("os").environ.get("PYVC_RLIMIT_PER_MS", "4000"))


def z3_check(assumptions, extra=None, timeout_ms=None):
    s = z3.Solver()
    s.set("timeout", timeout_ms or Z3_TIMEOUT_MS)
    # the sequence theory does not always honour `timeout`; the resource limit is deterministic
    s.set("rlimit", (timeout_ms or Z3_TIMEOUT_MS) * RLIMIT_PER_MS)
    for a in assumptions:
        s.add(a)
    if extra is not None:
        s.add(extra)
    r = s.check()
    return r, s


# ----------------------------------------------------------------------------------------
# Path
# ----------------------------------------------------------------------------------------
class Path:
    def __init__(self, explorer, decisions):
        self.ex = explorer
        self.prefix = list(decisions)
        self.taken = []             # decisions actually taken on this run
        self.sig = []               # human readable branch log
        self.pc = PCtx(chooser=self._choose)
        self.zc = []                # z3 assumptions
        self.fresh_id = itertools.count()
        self.notes = []
        self.obl_count = 0
        self.ghost = {}             # free-form per-path ghost state for contracts
        self.in_source = False      # True while repository source is being executed (not spec code)

    # ---- decisions ---------------------------------------------------------------------
    def _choose(self, n, descr):
        i = len(self.taken)
        if i < len(self.prefix):
            k = self.prefix[i]
        else:
            k = 0
            for alt in range(1, n):
                self.ex.push(self.taken + [alt])
        self.taken.append(k)
        self.sig.append(f"{descr}#{k}")
        return k

    def choose(self, n, descr="choice"):
        return self._choose(n, descr)

    def case(self, atom, label=None):
        """truth value of a condition on this path (forks when undecided)"""
        if isinstance(atom, bool):
            return atom
        if isinstance(atom, FAtom):
            if self.pc.prove_zero(atom.p):
                return atom.eq
            if self.pc.prove_nonzero(atom.p):
                return not atom.eq
            k = self._choose(2, label or atom.note or "fcase")
            # k == 0 : poly == 0 ;  k == 1 : poly != 0     (independent of atom.eq)
            try:
                if k == 0:
                    self.pc.assume_zero(atom.p, label or atom.note)
                else:
                    self.pc.assume_nonzero(atom.p, label or atom.note)
            except Infeasible:
                self.ex.infeasible += 1
                raise
            self.sig[-1] = f"{label or atom.note or _short(atom.p)}{'=0' if k == 0 else '≠0'}"
            return atom.eq if k == 0 else (not atom.eq)
        if isinstance(atom, ZAtom):
            t = atom.t
            if z3.is_true(t):
                return True
            if z3.is_false(t):
                return False
            ctxt, tl = light(self.zc, t)
            r1, _ = z3_check(ctxt, tl, BRANCH_TIMEOUT_MS)
            if r1 == z3.unsat:
                return False
            r2, _ = z3_check(ctxt, z3.Not(tl), BRANCH_TIMEOUT_MS)
            if r2 == z3.unsat:
                return True
            k = self._choose(2, label or "zcase")
            self.zc.append(t if k == 0 else z3.Not(t))
            self.sig[-1] = f"{label or _short(t)}:{'T' if k == 0 else 'F'}"
            return k == 0
        raise Unsupported(f"condition of type {type(atom).__name__}")

    # ---- assumptions -------------------------------------------------------------------
    def assume(self, atom, why=""):
        if isinstance(atom, bool):
            if not atom:
                self.ex.infeasible += 1
                raise Infeasible(why)
            return
        if isinstance(atom, FAtom):
            try:
                if atom.eq:
                    self.pc.assume_zero(atom.p, why or atom.note)
                else:
                    self.pc.assume_nonzero(atom.p, why or atom.note)
            except Infeasible:
                self.ex.infeasible += 1
                raise
            return
        if isinstance(atom, ZAtom):
            atom = atom.t
        if isinstance(atom, z3.BoolRef):
            self.zc.append(atom)
            return
        raise Unsupported(f"assume {type(atom).__name__}")

    def feasible(self):
        r, _ = z3_check(self.zc, None, 5000)
        return r != z3.unsat

    # ---- obligations -------------------------------------------------------------------
    def prove(self, name, atom, kind="ensures", detail="", via=None):
        """record one obligation `name` on this path and discharge it.  `via`: for a Boolean that the unit computed from
        answers of another back end (e.g. a conjunction of polyid zero-tests), the back end to report instead of symex"""
        t0 = time.time()
        self.obl_count += 1
        status, backend, det, wit = "unknown", "?", detail, None
        if isinstance(atom, bool):
            # decided by the symbolic executor itself (structure of the result, concrete integers, syntactic facts)
            status, backend = ("proved" if atom else "refuted"), (via or "symex")
        elif isinstance(atom, FAtom):
            backend = "polyid"
            ok = self.pc.prove_zero(atom.p) if atom.eq else self.pc.prove_nonzero(atom.p)
            if ok:
                status = "proved"
            else:
                res, env = (self.pc.refute_zero(atom.p) if atom.eq else self.pc.refute_nonzero(atom.p))
                nfp = self.pc.nf(atom.p)
                det = f"{detail} normal form of goal: {nfp!r}"
                if res == "witness":
                    status = "refuted"
                    wit = {"field": f"GF({self.pc.sample_modulus()})" if self.pc.char else "GF(2^61-1)",
                           "assignment": {k: int(v) for k, v in sorted(env.items())}}
                else:
                    status = "unknown"
                    det += f" ({res}: {env})"
        else:
            t = atom.t if isinstance(atom, ZAtom) else atom
            backend = "z3"
            status, det2, wit = smt_prove(self.zc, t)
            det = f"{detail} {det2}".strip()
            if status == "unknown":
                st2, det3 = cvc5_prove(self.zc, t)
                if st2 != "unknown":
                    status, backend = st2, "cvc5"
                    det = f"{detail} {det3}".strip()
            if status == "unknown" and (self.ex.deadline is None or time.time() + 40 < self.ex.deadline):
                # wall-clock limits are hit early on a busy machine: one more attempt with three times the budget
                st3, det4, wit3 = smt_prove(self.zc, t, 3 * Z3_TIMEOUT_MS)
                if st3 != "unknown":
                    status, backend, wit = st3, "z3", wit3
                    det = f"{detail} {det4} (second attempt, 3x budget)".strip()
        if status == "refuted" and getattr(self, "weak_invariant", None):
            status = "unknown"
            det = (det + " [counter-model only: the path runs through a loop contract whose invariant does not constrain "
                   + "; ".join(self.weak_invariant) + "]")[:900]
        ob = Obligation(name, " ".join(self.sig), status, backend, time.time() - t0, det, wit, kind)
        self.ex.record(ob)
        return status == "proved"

    def prove_any(self, name, alternatives, kind="ensures", detail=""):
        """obligation: the disjunction of `alternatives` holds; each disjunct is tried on its own first
        (keeps non-linear queries small), the full disjunction only if none is proved"""
        t0 = time.time()
        for alt in alternatives:
            t = alt.t if isinstance(alt, ZAtom) else alt
            # only the cheap abstraction here: the right alternative is linear over the monomials
            ctxt, gl = light(self.zc, t)
            st = "unknown"
            if ctxt is not self.zc:
                r0, _ = z3_check(ctxt, z3.Not(gl), 2000)
                st = "proved" if r0 == z3.unsat else "unknown"
            if st == "proved":
                self.obl_count += 1
                self.ex.record(Obligation(name, " ".join(self.sig), "proved", "z3", time.time() - t0, detail, None, kind))
                return True
        return self.prove(name, ZAtom(z3.Or([a.t if isinstance(a, ZAtom) else a for a in alternatives])), kind, detail)

    def safety(self, name, ok, detail=""):
        """a safety obligation decided syntactically/by construction by the executor"""
        fn = self.ex.current_function or "?"
        ob = Obligation(f"{fn}/safety.{name}", " ".join(self.sig), "proved" if ok else "refuted",
                        "symex", 0.0, detail, None, "safety")
        self.ex.record(ob)
        return ok

    def fresh(self, base):
        return f"{base}!{next(self.fresh_id)}"


def _short(x):
    s = str(x).replace("\n", " ")
    return s if len(s) <= 40 else s[:37] + "..."


def smt_prove(assumptions, goal, timeout_ms=None):
    """prove assumptions |= goal.  returns (status, detail, witness)"""
    goals = _conjuncts(goal)
    worst = ("proved", "", None)
    for g in goals:
        # first the sequence-free abstraction (sound for `unsat`): most obligations are arithmetic over
        # lengths and os2ip values and need no sequence reasoning at all
        ctxt, gl = light(assumptions, g)
        if ctxt is not assumptions:
            r0, _ = z3_check(ctxt, z3.Not(gl), 5000)
            if r0 == z3.unsat:
                continue
        r, s = z3_check(assumptions, z3.Not(g), timeout_ms)
        if r == z3.unsat:
            continue
        if r == z3.sat:
            m = s.model()
            wit = {}
            for d in m.decls():
                if d.arity() == 0:
                    try:
                        wit[d.name()] = str(m[d])
                    except Exception:
                        pass
            return "refuted", f"z3 model for negated goal {_short(g)}", {"z3_model": wit, "goal": str(g)[:500]}
        worst = ("unknown", f"z3: {s.reason_unknown()} on {_short(g)}", None)
    return worst


def _conjuncts(t):
    if z3.is_and(t):
        out = []
        for c in t.children():
            out += _conjuncts(c)
        return out
    return [t]


def cvc5_prove(assumptions, goal, timeout_s=20):
    """second opinion through the cvc5 CLI on the SMT-LIB rendering of the query"""
    import subprocess, tempfile, os, shutil
    exe = shutil.which("cvc5")
    if not exe:
        return "unknown", "cvc5 not found"
    s = z3.Solver()
    for a in assumptions:
        s.add(a)
    s.add(z3.Not(goal))
    txt = "(set-logic ALL)\n" + s.to_smt2()
    fd, path = tempfile.mkstemp(suffix=".smt2")
    try:
        with os.fdopen(fd, "w") as f:
            f.write(txt)
        out = subprocess.run([exe, "--strings-exp", f"--tlimit={timeout_s * 1000}", path],
                             capture_output=True, text=True, timeout=timeout_s + 5)
        res = out.stdout.strip().splitlines()[0] if out.stdout.strip() else ""
        if res == "unsat":
            return "proved", "cvc5 unsat"
        if res == "sat":
            return "refuted", "cvc5 sat"
        return "unknown", f"cvc5: {res or out.stderr.strip()[:200]}"
    except Exception as e:  # timeout etc.
        return "unknown", f"cvc5: {type(e).__name__}"
    finally:
        try:
            os.unlink(path)
        except OSError:
            pass


# ----------------------------------------------------------------------------------------
# Explorer: runs a path body under all decision sequences
# ----------------------------------------------------------------------------------------
class Explorer:
    def __init__(self, max_paths=4000):
        self.work = []
        self.obligations = []
        self.paths = 0
        self.infeasible = 0
        self.aborted = 0
        self.unsupported = []
        self.max_paths = max_paths
        self.current_function = None
        self.path_log = []
        self.deadline = None        # wall-clock limit for the whole unit (set by the unit runner)

    def push(self, decisions):
        self.work.append(list(decisions))

    def record(self, ob):
        self.obligations.append(ob)

    def run(self, body, function_name=None):
        """body(path) is executed once per feasible decision sequence"""
        global _current
        self.current_function = function_name
        self.work.append([])
        while self.work:
            dec = self.work.pop()
            if self.paths >= self.max_paths:
                self.unsupported.append(f"{function_name}: path limit {self.max_paths} reached")
                self.work.clear()
                break
            if self.deadline is not None and time.time() > self.deadline:
                self.unsupported.append(f"{function_name}: time budget of the unit exceeded after {self.paths} paths")
                self.work.clear()
                break
            path = Path(self, dec)
            prev, _current = _current, path
            try:
                self.paths += 1
                body(path)
                self.path_log.append((function_name, " ".join(path.sig), "done", path.obl_count))
            except Infeasible as e:
                self.path_log.append((function_name, " ".join(path.sig), f"infeasible: {e}", path.obl_count))
            except PathAbort:
                self.aborted += 1
                self.path_log.append((function_name, " ".join(path.sig), "end", path.obl_count))
            except KernelTimeout:
                self.unsupported.append(f"{function_name}: time budget of the unit exceeded after {self.paths} paths (inside the polyid kernel)")
                self.work.clear()
                break
            except Unsupported as e:
                self.unsupported.append(f"{function_name}: {e} [path {' '.join(path.sig)}]")
                self.path_log.append((function_name, " ".join(path.sig), f"unsupported: {e}", path.obl_count))
            except (TypeError, AttributeError, KeyError, IndexError, ValueError, NotImplementedError) as e:
                # the model of a host-level value does not support what the (edited) source does with it:
                # outside the supported subset -> undecided, never 'held'
                import traceback as _tb
                where = _tb.extract_tb(e.__traceback__)[-1]
                self.unsupported.append(f"{function_name}: host-level model error {type(e).__name__}: {e} "
                                        f"(at {where.filename.split('/')[-1]}:{where.lineno}) [path {' '.join(path.sig)}]")
                self.path_log.append((function_name, " ".join(path.sig), f"model error: {e}", path.obl_count))
            finally:
                _current = prev
        self.current_function = None
