"""Static call graph of the package under verification (re-read from the tree being checked on every run).

Used for one purpose: *a property's check includes the verification units of every function its own functions can reach*.
Verification is modular — at a call site only the callee's contract is known — so a change inside a callee is noticed only by
the callee's unit; the closure makes that unit part of every property that depends on the callee (DESIGN 0.3).

The graph over-approximates:  f(...) by name resolution through imports and package re-exports;  x.m(...) by method NAME over
all classes of the package;  operators (+ - * / ** == < unary -) inside a module that can see a field class -> all operator
methods of the field classes.  An over-approximation only adds units to a check."""
from __future__ import annotations

import ast
import os

_DUNDER_OPS = ("__add__", "__radd__", "__sub__", "__rsub__", "__mul__", "__rmul__", "__truediv__", "__rtruediv__", "__div__", "__rdiv__",
               "__pow__", "__neg__", "__eq__", "__ne__", "__lt__", "__init__", "__int__")


_BINOPS = {ast.Add: ("__add__", "__radd__"), ast.Sub: ("__sub__", "__rsub__"), ast.Mult: ("__mul__", "__rmul__"),
           ast.Div: ("__truediv__", "__rtruediv__", "__div__", "__rdiv__"), ast.Pow: ("__pow__",)}
_CMPOPS = {ast.Eq: ("__eq__",), ast.NotEq: ("__ne__", "__eq__"), ast.Lt: ("__lt__",), ast.LtE: ("__lt__", "__eq__"),
           ast.Gt: ("__lt__",), ast.GtE: ("__lt__", "__eq__")}


def _ops_module(mod):
    """modules whose functions do arithmetic on field elements with operators (the others only call named functions and
    constructors, which are resolved explicitly)"""
    parts = mod.split(".")
    return (len(parts) > 1 and parts[1] in ("bn128", "bls12_381", "optimized_bn128", "optimized_bls12_381", "fields")) or \
        mod == "py_ecc.bls.point_compression"


class Graph:
    def __init__(self, repo, pkg="py_ecc"):
        self.repo, self.pkg = repo, pkg
        self.mods = {}          # module name -> dict(tree, imports{name:(mod, orig)}, funcs{name: node}, classes{name: (node, bases)})
        self.edges = {}         # qualname -> set(qualname)
        self.methods = {}       # method name -> set(qualname)
        self.class_methods = {}  # class qualname -> {method name: qualname}
        self._load()
        self._build()

    # ---- loading ---------------------------------------------------------------------------
    def _load(self):
        root = os.path.join(self.repo, self.pkg)
        for dp, dn, fn in os.walk(root):
            dn[:] = [d for d in dn if d != "__pycache__"]
            for f in fn:
                if not f.endswith(".py"):
                    continue
                path = os.path.join(dp, f)
                rel = os.path.relpath(path, self.repo)[:-3].replace(os.sep, ".")
                is_pkg = rel.endswith(".__init__")
                mod = rel[:-9] if is_pkg else rel
                try:
                    tree = ast.parse(open(path).read())
                except SyntaxError:
                    continue
                info = dict(tree=tree, imports={}, funcs={}, classes={}, is_pkg=is_pkg, modimports={})
                for st in tree.body:
                    self._scan_stmt(mod, is_pkg, st, info)
                self.mods[mod] = info

    def _absmod(self, mod, is_pkg, level, name):
        if level == 0:
            return name or ""
        base = mod.split(".")
        if not is_pkg:
            base = base[:-1]
        base = base[: len(base) - (level - 1)]
        return ".".join(base + ([name] if name else []))

    def _scan_stmt(self, mod, is_pkg, st, info):
        if isinstance(st, ast.ImportFrom):
            src = self._absmod(mod, is_pkg, st.level, st.module)
            for a in st.names:
                info["imports"][a.asname or a.name] = (src, a.name)
        elif isinstance(st, ast.Import):
            for a in st.names:
                info["modimports"][a.asname or a.name.split(".")[0]] = a.name if a.asname else a.name.split(".")[0]
        elif isinstance(st, ast.FunctionDef):
            info["funcs"][st.name] = st
        elif isinstance(st, ast.ClassDef):
            info["classes"][st.name] = (st, [b.id if isinstance(b, ast.Name) else (b.attr if isinstance(b, ast.Attribute) else None)
                                             for b in st.bases])
        elif isinstance(st, ast.If) and "TYPE_CHECKING" in ast.dump(st.test):
            return                  # imports for annotations only
        elif isinstance(st, (ast.If, ast.Try)):
            for sub in getattr(st, "body", []) + getattr(st, "orelse", []) + getattr(st, "finalbody", []):
                self._scan_stmt(mod, is_pkg, sub, info)
        elif isinstance(st, ast.Assign) and len(st.targets) == 1 and isinstance(st.targets[0], ast.Name) and isinstance(st.value, ast.Name):
            info.setdefault("aliases", {})[st.targets[0].id] = st.value.id

    # ---- name resolution -----------------------------------------------------------------------
    def resolve(self, mod, name, depth=0):
        """-> ('func', qualname) | ('class', qualname) | ('module', name) | None"""
        if depth > 12 or mod not in self.mods:
            sub = f"{mod}.{name}"
            return ("module", sub) if sub in self.mods else None
        info = self.mods[mod]
        if name in info["funcs"]:
            return ("func", f"{mod}.{name}")
        if name in info["classes"]:
            return ("class", f"{mod}.{name}")
        if name in info.get("aliases", {}):
            return self.resolve(mod, info["aliases"][name], depth + 1)
        if name in info["imports"]:
            src, orig = info["imports"][name]
            r = self.resolve(src, orig, depth + 1)
            if r is None and f"{src}.{orig}" in self.mods:
                return ("module", f"{src}.{orig}")
            return r
        if name in info["modimports"]:
            return ("module", info["modimports"][name])
        sub = f"{mod}.{name}"
        if sub in self.mods:
            return ("module", sub)
        return None

    def _class_info(self, q):
        mod, cname = q.rsplit(".", 1)
        return mod, self.mods[mod]["classes"][cname]

    def mro_methods(self, q, seen=None):
        """{method name: qualname} including inherited ones (first definition wins)"""
        seen = seen or set()
        if q in seen:
            return {}
        seen.add(q)
        mod, (node, bases) = self._class_info(q)
        out = {}
        for st in node.body:
            if isinstance(st, ast.FunctionDef):
                out.setdefault(st.name, f"{q}.{st.name}")
        for b in bases:
            if b is None:
                continue
            r = self.resolve(mod, b)
            if r and r[0] == "class":
                for k, v in self.mro_methods(r[1], seen).items():
                    out.setdefault(k, v)
        return out

    # ---- edges ---------------------------------------------------------------------------------
    def _build(self):
        field_files = [m for m in self.mods if m.endswith("field_elements")]
        field_ops = {}
        for m in field_files:
            for cname, (node, _) in self.mods[m]["classes"].items():
                for st in node.body:
                    if isinstance(st, ast.FunctionDef) and (st.name in _DUNDER_OPS or st.name in ("inv", "sgn0", "one", "zero")):
                        field_ops.setdefault(m, set()).add(f"{m}.{cname}.{st.name}")
        for mod, info in self.mods.items():
            for cname, (node, _) in info["classes"].items():
                cq = f"{mod}.{cname}"
                self.class_methods[cq] = self.mro_methods(cq)
                for st in node.body:
                    if isinstance(st, ast.FunctionDef):
                        self.methods.setdefault(st.name, set()).add(f"{cq}.{st.name}")
        for mod, info in self.mods.items():
            sees_field = self._sees_field_class(mod, info)
            for fname, node in info["funcs"].items():
                self.edges[f"{mod}.{fname}"] = self._calls(mod, node, sees_field, field_ops, None)
            for cname, (cnode, _) in info["classes"].items():
                for st in cnode.body:
                    if isinstance(st, ast.FunctionDef):
                        self.edges[f"{mod}.{cname}.{st.name}"] = self._calls(mod, st, sees_field | ({mod} if mod in field_files else set()),
                                                                             field_ops, f"{mod}.{cname}")

    def _sees_field_class(self, mod, info):
        """the field files (field_elements / optimized_field_elements) whose classes are visible in the module"""
        files = set()
        for name in list(info["imports"]) + list(info["classes"]):
            r = self.resolve(mod, name)
            if r and r[0] == "class":
                # is it (a subclass of) a field class?
                stack, seen = [r[1]], set()
                while stack:
                    q = stack.pop()
                    if q in seen:
                        continue
                    seen.add(q)
                    if q.rsplit(".", 1)[0].endswith("field_elements"):
                        files.add(q.rsplit(".", 1)[0])
                    m2, (_, bases) = self._class_info(q)
                    for b in bases:
                        rb = self.resolve(m2, b) if b else None
                        if rb and rb[0] == "class":
                            stack.append(rb[1])
        return files

    def _calls(self, mod, fnode, sees_field, field_ops, own_class):
        out = set()
        uses_ops = set()

        def by_name(attr):
            for q in self.methods.get(attr, ()):
                qm = q.rsplit(".", 2)[0]
                if qm.endswith("field_elements") and sees_field and qm not in sees_field:
                    continue            # a method of the other field file: not visible from this module
                yield q
        for n in ast.walk(fnode):
            if isinstance(n, (ast.BinOp, ast.AugAssign)):
                uses_ops.update(_BINOPS.get(type(n.op), ()))
            elif isinstance(n, ast.UnaryOp) and isinstance(n.op, ast.USub):
                uses_ops.add("__neg__")
            elif isinstance(n, ast.Compare):
                for o in n.ops:
                    uses_ops.update(_CMPOPS.get(type(o), ()))
            if not isinstance(n, ast.Call):
                continue
            f = n.func
            if isinstance(f, ast.Name):
                r = self.resolve(mod, f.id)
                if r is None:
                    continue
                if r[0] == "func":
                    out.add(r[1])
                elif r[0] == "class":
                    ms = self.class_methods.get(r[1], {})
                    if "__init__" in ms:
                        out.add(ms["__init__"])
            elif isinstance(f, ast.Attribute):
                if isinstance(f.value, ast.Name):
                    r = self.resolve(mod, f.value.id)
                    if r and r[0] == "module":
                        r2 = self.resolve(r[1], f.attr)
                        if r2 and r2[0] == "func":
                            out.add(r2[1])
                            continue
                    if r and r[0] == "class":
                        ms = self.class_methods.get(r[1], {})
                        if f.attr in ms:
                            out.add(ms[f.attr])
                            continue
                    if f.value.id in ("cls", "self") and own_class:
                        ms = self.class_methods.get(own_class, {})
                        if f.attr in ms:
                            out.add(ms[f.attr])
                        # subclasses may override: add every method of that name defined in a subclass
                        for q in by_name(f.attr):
                            out.add(q)
                        continue
                for q in by_name(f.attr):
                    out.add(q)
        # attribute reads that are properties (sgn0)
        for n in ast.walk(fnode):
            if isinstance(n, ast.Attribute) and n.attr in ("sgn0",):
                for q in by_name(n.attr):
                    out.add(q)
        if uses_ops and _ops_module(mod):
            for m in sees_field:
                out |= {q for q in field_ops.get(m, set()) if q.rsplit(".", 1)[1] in uses_ops}
        return out

    def reachable(self, seeds):
        seen = set()
        stack = [s for s in seeds]
        while stack:
            q = stack.pop()
            if q in seen:
                continue
            seen.add(q)
            for t in self.edges.get(q, ()):
                if t not in seen:
                    stack.append(t)
        return seen


_CACHE = {}


def graph(repo):
    key = os.path.abspath(repo)
    if key not in _CACHE:
        _CACHE[key] = Graph(key)
    return _CACHE[key]
