"""./check <Cxx> [--tier quick|thorough] [--replay file] [--jobs n]   (runs under python3-vt)

exit 0  every obligation of the property discharged (known findings printed as KNOWN-FINDING)
exit 1  violation: stdout line `VIOLATION property=<id> replay=<path>[ no-failing-input-found]`
exit 2  undecided (outside subset, contract no longer matches the code shape, new obligation unknown)
exit 3  checker failure (guard tripped, traceback)
"""
from __future__ import annotations

import argparse
import json
import os
import sys
import time

HERE = os.path.dirname(os.path.dirname(os.path.abspath(__file__)))
sys.path.insert(0, HERE)


def main(argv=None):
    ap = argparse.ArgumentParser()
    ap.add_argument("prop", nargs="?")
    ap.add_argument("--tier", default=os.environ.get("VERIF_TIER", "quick"), choices=["quick", "thorough"])
    ap.add_argument("--replay")
    ap.add_argument("--jobs", type=int, default=None)
    ap.add_argument("--setup", action="store_true")
    ap.add_argument("--write-baseline", action="store_true")
    ap.add_argument("--list", action="store_true")
    ap.add_argument("--units", default=None, help="comma separated unit names (debugging)")
    ap.add_argument("-v", "--verbose", action="store_true")
    a = ap.parse_args(argv)
    seed = int(os.environ.get("VERIF_SEED", "0") or 0)

    from pyvc import registry, report
    if a.setup:
        return report.setup()
    if a.list:
        for pid, units in sorted(registry.units_by_property().items()):
            print(pid, len(units))
            for m, n in units:
                print("   ", m, n)
        return 0
    if a.replay:
        return report.replay(a.prop, a.replay)
    if not a.prop:
        ap.error("property id required")
    pid = a.prop
    try:
        return report.run_property(pid, a.tier, seed, jobs=a.jobs, write_baseline=a.write_baseline,
                                   only_units=a.units.split(",") if a.units else None, verbose=a.verbose)
    except SystemExit:
        raise
    except Exception:
        import traceback
        traceback.print_exc()
        print(f"CHECKER-FAILURE property={pid}")
        return 3


if __name__ == "__main__":
    sys.exit(main())
