"""Property-level driver: runs the units of a property, applies the soundness guards of
DESIGN §6, the violation protocol of §7, and writes evidence/<id>.json."""
from __future__ import annotations

import hashlib
import json
import os
import subprocess
import sys
import time

HERE = os.path.dirname(os.path.dirname(os.path.abspath(__file__)))
REPO = os.environ.get("PY_ECC_REPO", "/repo")
VENV_PY = os.environ.get("PY_ECC_PYTHON", "/venv/bin/python")
BASELINE = os.path.join(HERE, "baseline_obligations.json")
KNOWN = os.path.join(HERE, "known_findings.json")
REPLAY_DIR = os.environ.get("VERIF_REPLAY_DIR") or os.path.join(HERE, "replays")


def _load(path, default):
    try:
        with open(path) as f:
            return json.load(f)
    except FileNotFoundError:
        return default


def setup():
    """MANIFEST.setup_cmd: verify the tools are present; nothing to build (pure Python + z3)"""
    ok = True
    try:
        import z3
        print("z3", z3.get_version_string())
    except Exception as e:
        print("z3 missing:", e)
        ok = False
    try:
        import sympy
        print("sympy", sympy.__version__)
    except Exception as e:
        print("sympy missing:", e)
        ok = False
    r = subprocess.run([VENV_PY, "-c", "import py_ecc,sys;print('py_ecc from',py_ecc.__file__)"],
                       capture_output=True, text=True, cwd="/")
    print(r.stdout.strip() or r.stderr.strip())
    ok = ok and r.returncode == 0
    os.makedirs(os.path.join(HERE, "evidence"), exist_ok=True)
    os.makedirs(os.path.join(HERE, "replays"), exist_ok=True)
    # Lean lemma library (code-independent mathematics): type-check every file; a failure here does
    # not fail the setup -- the lemmas are then listed as *assumed* in every evidence file
    lean_dir = os.path.join(HERE, "lean")
    for f in ("STATUS.json", "HASHES.json"):
        try:
            os.unlink(os.path.join(lean_dir, f))
        except OSError:
            pass
    if os.environ.get("VERIF_SKIP_LEAN") != "1":
        try:
            r = subprocess.run(["bash", os.path.join(lean_dir, "build.sh")], capture_output=True, text=True,
                               timeout=int(os.environ.get("VERIF_LEAN_TIMEOUT", "2400")))
            print(r.stdout[-2000:])
            if r.returncode == 0:
                hs = {}
                for f in sorted(os.listdir(lean_dir)):
                    if f.endswith(".lean"):
                        hs[f] = hashlib.sha256(open(os.path.join(lean_dir, f), "rb").read()).hexdigest()
                with open(os.path.join(lean_dir, "HASHES.json"), "w") as fh:
                    json.dump(hs, fh, indent=1)
                print("lean lemma library: all files type-check")
            else:
                print("lean lemma library: build failed; lemmas will be reported as assumed")
        except Exception as e:
            print(f"lean lemma library not built ({e!r}); lemmas will be reported as assumed")
    return 0 if ok else 3


def harness(args, timeout=600, stdin=None):
    """run the concrete harness (real code, real interpreter) and parse its JSON answer"""
    env = dict(os.environ)
    env["PYTHONPATH"] = REPO + os.pathsep + env.get("PYTHONPATH", "")
    env["PY_ECC_REPO"] = REPO
    try:
        r = subprocess.run([VENV_PY, os.path.join(HERE, "harness", "concrete.py")] + list(args),
                           capture_output=True, text=True, timeout=timeout, env=env, input=stdin, cwd=HERE)
    except subprocess.TimeoutExpired:
        return dict(error="timeout")
    out = r.stdout.strip().splitlines()
    for line in reversed(out):
        if line.startswith("{"):
            try:
                return json.loads(line)
            except Exception:
                pass
    return dict(error=f"harness exit {r.returncode}: {(r.stderr or r.stdout)[-1500:]}")


def _worst(a, b):
    order = {"proved": 0, "unknown": 1, "refuted": 2}
    return a if order[a] >= order[b] else b


def run_property(pid, tier, seed, jobs=None, write_baseline=False, only_units=None, verbose=False):
    from . import registry
    from .unit import run_units
    t0 = time.time()
    meta = registry.PROPS.get(pid)
    if meta is None:
        print(f"unknown property {pid}")
        return 3
    units = registry.units_by_property().get(pid, [])
    if only_units:
        units = [(m, n) for m, n in units if n in only_units]
    if not units:
        print(f"CHECKER-FAILURE property={pid}: no verification units registered")
        return 3
    results = {}
    bymod = {}
    for m, n in units:
        bymod.setdefault(m, []).append(n)

    def progress(r):
        if verbose:
            print(f"  unit {r['unit']}: {len(r['obligations'])} obligations, {r['paths']} paths, "
                  f"{r['seconds']:.1f}s{'  CRASHED' if r['crashed'] else ''}", flush=True)
    # one pool over all units of all modules
    from .unit import run_pool
    jobs = jobs or min(16, os.cpu_count() or 4)
    order = sorted(units, key=lambda mn: -registry.unit_cost(mn[0], mn[1]))
    results = run_pool([((m, n), m, n, tier, seed) for m, n in order], jobs, progress)

    # ---- guards -------------------------------------------------------------------------
    crashed = [(k, r["crashed"]) for k, r in results.items() if r["crashed"]]
    for k, tb in crashed:
        results[k]["unsupported"] = list(results[k]["unsupported"]) + [f"engine error: {tb.strip().splitlines()[-1][:300]}"]
        print(f"  unit {k[1]} crashed (twice): {tb.strip().splitlines()[-1][:300]}", flush=True)
    obls = []
    for k, r in sorted(results.items()):
        for o in r["obligations"]:
            o = dict(o)
            o["unit"] = k[1]
            obls.append(o)
    if not obls:
        print(f"CHECKER-FAILURE property={pid}: zero obligations generated")
        return 3
    unsupported = [(k[1], u) for k, r in sorted(results.items()) for u in r["unsupported"]]

    # per-name verdict (a name may occur on many paths)
    verdict = {}
    for o in obls:
        verdict[o["name"]] = _worst(verdict.get(o["name"], "proved"), o["status"])
    # property-level composition lemmas (registry.LEMMAS): discharged iff every composed obligation is present and proved
    import fnmatch
    for lem in ([] if only_units else registry.LEMMAS.get(pid, [])):
        missing_ = [pat for pat in lem["requires"]
                    if not any(fnmatch.fnmatchcase(n_, pat) and v_ == "proved" for n_, v_ in verdict.items())]
        st = "proved" if not missing_ else "unknown"
        lo = dict(name=f"lemma/{lem['name']}", path="", status=st, backend="compose", seconds=0.0, kind="lemma", witness=None, unit="lemma",
                  detail=lem["text"] + ("" if not missing_ else "  — NOT composed, missing or unproved: " + "; ".join(missing_[:6])))
        obls.append(lo)
        verdict[lo["name"]] = st
    names = sorted(verdict)

    base_all = _load(BASELINE, {})
    if write_baseline:
        base_all[pid] = sorted(n for n in names if verdict[n] == "proved")
        with open(BASELINE, "w") as f:
            json.dump(base_all, f, indent=0, sort_keys=True)
        print(f"baseline for {pid}: {len(base_all[pid])} obligation names")
    base = set(base_all.get(pid, []))

    known = [k for k in _load(KNOWN, {"findings": []})["findings"] if k.get("property") == pid]

    # ---- classify failures ---------------------------------------------------------------
    bad = [o for o in obls if o["status"] != "proved"]
    violations = []        # (obligation dict, replay path, has_input)
    undecided = []
    known_lines = []
    for k, r in sorted(results.items()):
        for kf in r["extra"].get("known_findings", []):
            if kf.get("reproduced") and any(k_.get("id") == kf["id"] and k_.get("status") == "known" for k_ in known):
                known_lines.append(f"KNOWN-FINDING: property={pid} {kf['id']} {kf['what']}")
    seen_fn = {}
    for o in bad:
        nm = o["name"]
        if o.get("backend") == "compose":
            # a composition lemma never fails on its own: one of the obligations it composes did, and that one is reported
            undecided.append(o)
            continue
        if o["status"] == "unknown" and nm not in base and not only_units:
            undecided.append(o)
            continue
        # refuted, or an obligation that is proved on the unchanged tree and no longer discharges
        fn = nm.split("/")[0] if o.get("backend") != "frame" else nm
        key = (o["unit"], fn)
        if key not in seen_fn:
            seen_fn[key] = _concretise(pid, o, results, seed)
        conc_ = seen_fn[key]
        if o["status"] == "unknown" and not (conc_ and conc_.get("found")) and o.get("backend") != "frame":
            # the solvers gave up (time-out, resource limit, no Schwartz-Zippel witness) on an obligation that is discharged on the
            # unchanged tree, and no failing input was found on the real code: a failed proof is *undecided*, not a violation
            o = dict(o, detail=(o.get("detail") or "") + " [discharged on the unchanged tree; solver gave up now; no failing input found]")
            undecided.append(o)
            continue
        rp, has_input = _write_replay(pid, o, conc_)
        violations.append((o, rp, has_input))
    missing = sorted(n for n in base if n not in verdict) if not only_units else []
    # functions the symbolic executor could not follow (outside the supported subset): the deductive
    # verdict is 'undecided'; a concrete refutation replayed on the real code still counts (bounded)
    if unsupported:
        from . import registry as _reg
        tried = set()
        found_any = False
        pending_callers = []
        for (m, n), r in sorted(results.items()):
            if not r["unsupported"]:
                continue
            for fnq in r["functions"]:
                if fnq in tried:
                    continue
                tried.add(fnq)
                o = dict(name=f"{fnq}/outside-subset", path="", status="unknown", backend="symex",
                         detail="; ".join(r["unsupported"])[:600], witness=None, unit=n, seconds=0.0)
                conc = _concretise(pid, o, results, seed)
                if conc and conc.get("found"):
                    rp, has_input = _write_replay(pid, o, conc)
                    violations.append((o, rp, has_input))
                    found_any = True
                else:
                    pending_callers.append((fnq, n, r))
        if not found_any and not violations and pending_callers:
            # nothing found on the functions themselves: a defect may only show through a CALLER (two cooperating sites, a
            # non-canonical intermediate value): run the families of the functions under contract that can reach them
            try:
                from .callgraph import graph
                g = graph(REPO)
                under = sorted({q.split("[")[0] for r_ in results.values() for q in r_["functions"]})
                targets = {fnq.split("[")[0] for fnq, _, _ in pending_callers}
                callers = [q for q in under if q not in tried and (g.reachable([q]) & targets)]
            except Exception:
                callers = []
            for q in callers[:12]:
                tried.add(q)
                fnq, n, r = pending_callers[0]
                o = dict(name=f"{q}/outside-subset[callee {fnq.rsplit('.', 1)[-1]}]", path="", status="unknown", backend="symex",
                         detail="a callee left the supported subset: " + "; ".join(r["unsupported"])[:500], witness=None, unit=n, seconds=0.0)
                conc = _concretise(pid, o, results, seed)
                if conc and conc.get("found"):
                    rp, has_input = _write_replay(pid, o, conc)
                    violations.append((o, rp, has_input))
                    break

    # ---- thorough tier: engine self-test by mutation + CPython differential cross-check (DESIGN section 6.3 / 6.4) ----
    self_test = None
    cross_check = None
    if tier == "thorough" and not only_units and os.environ.get("VERIF_NO_SELFTEST") != "1":
        self_test = _self_test(pid)
        cross_check = _cross_check(pid, results, seed)
        for f in cross_check.get("failures", []):
            o = dict(name=f"{f['function']}/cross-check", path="", status="refuted", backend="harness",
                     detail="differential cross-check on the unchanged tree found a concrete contract violation", witness=None, unit="cross-check")
            rp, has_input = _write_replay(pid, o, f)
            violations.append((o, rp, has_input))

    # ---- evidence -------------------------------------------------------------------------
    wall = time.time() - t0
    by_backend = {}
    for o in obls:
        d = by_backend.setdefault(o["backend"], dict(n=0, s=0.0))
        d["n"] += 1
        d["s"] = round(d["s"] + o["seconds"], 3)
    functions = {}
    for k, r in sorted(results.items()):
        for q, h in r["functions"].items():
            functions[q] = h
    assumptions = list(meta.get("assumptions", []))
    trusted = list(meta.get("trusted", []))
    bounded = []
    notes = []
    for k, r in sorted(results.items()):
        for a_ in r["assumptions"]:
            if a_ not in assumptions:
                assumptions.append(a_)
        for t_ in r["trusted"]:
            if t_ not in trusted:
                trusted.append(t_)
        bounded += r["bounded"]
        notes += [f"{k[1]}: {n}" for n in r["notes"]]
    proved = [o for o in obls if o["status"] == "proved"]
    samples = []
    step = max(1, len(proved) // 8)
    for o in proved[::step][:8]:
        samples.append(dict(obligation=o["name"], path=o["path"][:200], backend=o["backend"],
                            detail=o["detail"][:200]))
    ev = dict(
        property_id=pid, tier=tier, seed=seed, level=meta.get("level", "proof"),
        wall_s=round(wall, 2), violations=len(violations),
        coverage=dict(
            obligations=len(obls), discharged=len(proved),
            obligation_names=len(names),
            checker_cmd=f"./check {pid} --tier {tier}",
            trusted_base=trusted,
            by_backend=by_backend,
            functions_under_contract=[f"{q}@{h}" for q, h in sorted(functions.items())],
            units=len(results),
            paths=sum(r["paths"] for r in results.values()),
            infeasible_paths=sum(r["infeasible"] for r in results.values()),
            bounded_standins=bounded,
            dependency_units=[n for _, n in registry.dependency_units(pid)],
            undecided=[o["name"] for o in undecided][:50],
            outside_subset=[f"{u}: {m}" for u, m in unsupported][:50],
            missing_baseline_obligations=missing[:50],
            known_findings=known_lines,
            notes=notes[:60],
            samples=samples or [dict(obligation=o["name"], status=o["status"]) for o in obls[:5]],
            solver_seconds=round(sum(o["seconds"] for o in obls), 2),
            lean_lemmas=[ll for k, r in sorted(results.items()) for ll in r["extra"].get("lean_lemmas", [])],
            self_test=self_test, cross_check={k: v for k, v in (cross_check or {}).items() if k != "failures"} or None,
            unit_seconds={k[1]: round(r["seconds"], 2) for k, r in sorted(results.items())},
        ),
        assumptions=assumptions,
    )
    evdir = os.environ.get("VERIF_EVIDENCE_DIR") or os.path.join(HERE, "evidence")     # overridden by seed sweeps / self-tests
    os.makedirs(evdir, exist_ok=True)
    with open(os.path.join(evdir, f"{pid}.json"), "w") as f:
        json.dump(ev, f, indent=1, sort_keys=True, default=str)

    # ---- verdict --------------------------------------------------------------------------
    for ln in sorted(set(known_lines)):
        print(ln)
    print(f"{pid}: {len(obls)} obligations ({len(names)} names) from {len(results)} units, "
          f"{len(proved)} discharged, {len(violations)} failed, {len(undecided)} undecided, "
          f"{len(unsupported)} outside-subset, {wall:.1f}s")
    if violations:
        printed = set()
        for o, rp, has_input in violations:
            if rp in printed:
                continue
            printed.add(rp)
            print(f"  failed obligation: {o['name']} [{o['path'][:120]}] {o['status']} ({o['backend']}): {o['detail'][:200]}")
            print(f"VIOLATION property={pid} replay={rp}" + ("" if has_input else " no-failing-input-found"))
        return 1
    if self_test and self_test.get("survivors"):
        print(f"CHECKER-FAILURE property={pid}: seeded defects not detected by the self-test: {self_test['survivors']}")
        return 3
    if crashed:
        for k, tb in crashed:
            print(f"unit {k[1]} crashed:\n{tb}")
        print(f"CHECKER-FAILURE property={pid}: {len(crashed)} unit(s) crashed and no concrete refutation was found")
        return 3
    if unsupported or undecided or missing:
        for u, m in unsupported[:20]:
            print(f"  outside-subset/unsupported in {u}: {m}")
        for o in undecided[:20]:
            print(f"  undecided: {o['name']} [{o['path'][:100]}] {o['detail'][:200]}")
        for n in missing[:20]:
            print(f"  baseline obligation no longer generated: {n}")
        print(f"UNDECIDED property={pid}")
        return 2
    return 0


def _self_test(pid):
    """engine self-test by mutation: every seeded defect of this property (seeded/<id>_k/patch.diff) is applied to a scratch copy
    of the package outside /repo and /verif (removed afterwards) and this property's quick check must report a violation"""
    import shutil
    import tempfile
    from concurrent.futures import ThreadPoolExecutor
    sd = os.path.join(HERE, "seeded")
    ids = sorted(d for d in (os.listdir(sd) if os.path.isdir(sd) else []) if d.startswith(pid + "_"))

    def one(sid):
        tmp = tempfile.mkdtemp(prefix=f"selftest-{sid}-")
        try:
            shutil.copytree(os.path.join(REPO, "py_ecc"), os.path.join(tmp, "py_ecc"))
            r = subprocess.run(["patch", "-p1", "-s", "-d", tmp, "-i", os.path.join(sd, sid, "patch.diff")], capture_output=True, text=True)
            if r.returncode:
                return sid, "patch-does-not-apply"
            env = dict(os.environ, PY_ECC_REPO=tmp, VERIF_EVIDENCE_DIR=os.path.join(tmp, "ev"), VERIF_REPLAY_DIR=os.path.join(tmp, "rp"),
                       VERIF_NO_SELFTEST="1", VERIF_TIER="quick")
            pr = subprocess.run([os.path.join(HERE, "check"), pid, "--tier", "quick", "--jobs", "4"], cwd=HERE, capture_output=True, text=True, env=env)
            return sid, pr.returncode
        finally:
            shutil.rmtree(tmp, ignore_errors=True)
    out = {}
    with ThreadPoolExecutor(max_workers=4) as ex:
        for sid, rc in ex.map(one, ids):
            out[sid] = rc
    return dict(mutants=len(ids), killed=sum(1 for v in out.values() if v == 1),
                survivors=sorted(k for k, v in out.items() if v not in (1, "patch-does-not-apply")),
                not_applicable=sorted(k for k, v in out.items() if v == "patch-does-not-apply"))


def _cross_check(pid, results, seed):
    """CPython differential cross-check: every function under contract of this property is run on the concrete family of its
    contract on the unchanged tree (a second seed); no contract violation may be found"""
    from . import registry
    dep = {n for _, n in registry.dependency_units(pid)}
    # the property's own units only: the functions of its dependency units are cross-checked under their own property
    fns = sorted({q for (m, n), r in results.items() if n not in dep for q in r["functions"]})
    tried, failures, nofam = 0, [], 0
    for fnq in fns:
        ans = harness(["refute", "--seed", str(seed + 1000)], stdin=json.dumps(dict(function=fnq, property=pid)), timeout=900)
        if ans.get("found"):
            failures.append(ans)
        elif "no concrete family" in str(ans.get("reason", "")):
            nofam += 1
        tried += int(ans.get("tried", 0) or 0)
    return dict(functions=len(fns), without_family=nofam, executions=tried, mismatches=len(failures), failures=failures)


def _concretise(pid, o, results, seed):
    """look for a real input on which the real function violates its executable contract"""
    fn = o["name"].split("/")[0]
    w = o.get("witness") or {}
    if isinstance(w, dict) and w.get("concrete"):
        return w["concrete"]            # a bounded monitor already holds the failing input
    parts = o["name"].split("/")
    if o.get("backend") == "frame" and len(parts) >= 3:
        fn = parts[1]                 # frame obligations are named <unit>/<qualified function>/modifies.nothing
    if "[" in fn:
        fn = fn.split("[")[0]
    hint = dict(function=fn, obligation=o["name"], path=o["path"], witness=o.get("witness"), property=pid,
                unit=o.get("unit"))
    ans = harness(["refute", "--seed", str(seed)], stdin=json.dumps(hint), timeout=900)
    return ans


def _write_replay(pid, o, conc):
    os.makedirs(REPLAY_DIR, exist_ok=True)
    fn = o["name"].split("/")[0]
    h = hashlib.sha1((o["name"]).encode()).hexdigest()[:10]
    has_input = bool(conc and conc.get("found"))
    rp = os.path.join(REPLAY_DIR, f"{pid}-{h}.json")
    doc = dict(property=pid, obligation=o["name"], function=fn, path=o["path"], status=o["status"],
               backend=o["backend"], solver_output=o["detail"], solver_witness=o.get("witness"),
               concrete=conc, has_failing_input=has_input)
    with open(rp, "w") as f:
        json.dump(doc, f, indent=1, default=str)
    return rp, has_input


def replay(pid, path):
    doc = _load(path, None)
    if doc is None:
        print(f"no such replay file {path}")
        return 3
    conc = doc.get("concrete") or {}
    if not conc.get("found"):
        print(f"replay {path}: obligation {doc.get('obligation')} failed without a concrete input")
        print((doc.get("solver_output") or "")[:2000])
        return 1
    ans = harness(["replay"], stdin=json.dumps(conc), timeout=900)
    print(json.dumps(ans, indent=1)[:4000])
    if ans.get("fails"):
        print(f"VIOLATION property={doc.get('property')} replay={path}")
        return 1
    if ans.get("error"):
        return 3
    return 0
