"""Verification units and their parallel execution.

A *unit* is one function of the repository under contract (or one property-level lemma over
contracts, or one closed-term fact).  Running a unit re-reads the real source from the
repository working tree, symbolically executes it path by path and returns the list of named
obligations with their verdicts.  Units are independent and run in a process pool.
"""
from __future__ import annotations

import hashlib
import os
import time
import traceback
from concurrent.futures import ProcessPoolExecutor, as_completed

REPO = os.environ.get("PY_ECC_REPO", "/repo")


class Unit:
    """name: unique id (used as obligation-name prefix); fn(ctx) does the work.
    functions: qualified names of repository functions this unit puts under contract.
    kind: 'contract' | 'lemma' | 'closed' | 'frame' | 'bounded'"""

    def __init__(self, name, fn, functions=(), kind="contract", props=(), budget_s=150, args=()):
        self.name, self.fn, self.functions, self.kind = name, fn, tuple(functions), kind
        self.props = tuple(props)
        self.budget_s = budget_s
        self.args = tuple(args)


class UnitCtx:
    """what a unit body gets: program tables, an explorer factory, and the result sink"""

    def __init__(self, unit, tier, seed):
        from .interp import Program
        from .core import Explorer
        self.unit = unit
        self.tier = tier
        self.seed = seed
        self.prog = Program(REPO)
        self.ex = Explorer()
        self.notes = []
        self.assumptions = []       # assumed contracts / lemmas used by this unit
        self.trusted = []
        self.bounded = []           # bounded stand-ins: dict(name, bound, evaluations, failures)
        self.extra = {}
        self.concrete = []          # concrete refutations found by the unit itself

    def explorer(self):
        return self.ex

    def assume(self, text):
        if text not in self.assumptions:
            self.assumptions.append(text)

    def trust(self, text):
        if text not in self.trusted:
            self.trusted.append(text)

    def note(self, text):
        self.notes.append(text)

    def closed(self, name, ok, detail="", backend="eval", seconds=0.0, witness=None):
        """record a closed-term obligation decided by evaluation"""
        from .core import Obligation
        self.ex.record(Obligation(f"{self.unit.name}/{name}", "", "proved" if ok else "refuted", backend,
                                  seconds, detail, witness, "closed"))
        return ok

    def record(self, name, status, backend, detail="", seconds=0.0, witness=None, path="", kind="ensures"):
        from .core import Obligation
        self.ex.record(Obligation(f"{self.unit.name}/{name}", path, status, backend, seconds, detail, witness, kind))
        return status == "proved"


def _source_hashes(functions):
    """sha1 of the source text of each function under contract, from the working tree"""
    import ast
    out = {}
    for q in functions:
        parts = q.split(".")
        found = None
        for k in range(len(parts) - 1, 0, -1):
            rel = "/".join(parts[:k])
            for cand in (f"{REPO}/{rel}.py", f"{REPO}/{rel}/__init__.py"):
                if os.path.exists(cand):
                    found = (cand, parts[k:])
                    break
            if found:
                break
        if not found:
            out[q] = "missing"
            continue
        path, rest = found
        try:
            src = open(path).read()
            tree = ast.parse(src)
            node = tree
            for nm in rest:
                nxt = None
                for st in node.body:
                    if isinstance(st, (ast.FunctionDef, ast.ClassDef)) and st.name == nm:
                        nxt = st
                        break
                if nxt is None:
                    # inherited method: hash the whole file instead
                    break
                node = nxt
            if node is tree or nxt is None:
                out[q] = "file:" + hashlib.sha1(src.encode()).hexdigest()[:12]
            else:
                seg = ast.get_source_segment(src, node) or ""
                out[q] = hashlib.sha1(seg.encode()).hexdigest()[:12]
        except Exception as e:  # pragma: no cover
            out[q] = f"error:{type(e).__name__}"
    return out


def _clean(res):
    return (not res.get("crashed") and not res.get("unsupported") and res.get("obligations")
            and all(o.get("status") == "proved" for o in res["obligations"]))


def _run_unit(modname, unit_name, tier, seed):
    """executed in a worker process.  If the unit does not verify and some function of the tree has other local names than
    the ones recorded for the unchanged tree, the unit is repeated on alpha-equivalent copies (pyvc/alpha.py)"""
    res = _run_unit_once(modname, unit_name, tier, seed)
    if _clean(res) or res.get("kind") in ("closed", "frame", "bounded") or os.environ.get("PYVC_NO_ALPHA") == "1":
        return res
    try:
        from . import alpha as _alpha, interp as _interp
        maps = _alpha.candidates(REPO)
    except Exception:
        return res
    t0 = time.time()
    followed = None
    for m in maps:
        _interp.ALPHA = m
        try:
            r2 = _run_unit_once(modname, unit_name, tier, seed)
        finally:
            _interp.ALPHA = {}
        desc = "; ".join(f"{q.rsplit('.', 1)[-1]}: " + ", ".join(f"{n}->{o}" for n, o in mm.items()) for q, mm in sorted(m.items()))
        if _clean(r2):
            r2.setdefault("notes", []).append("verified on an alpha-equivalent copy (locals renamed back to the names the sidecar contract "
                                              f"was written for): {desc}")
            r2["seconds"] += res.get("seconds", 0.0)
            return r2
        if followed is None and not r2.get("crashed") and not r2.get("unsupported") and r2.get("obligations"):
            r2.setdefault("notes", []).append(f"obligations generated on an alpha-equivalent copy (the contract could not follow the renamed locals): {desc}")
            followed = r2
        if time.time() - t0 > 600:
            break
    # no renaming verifies: if the first attempt could not even follow the code (crash / outside the subset) but a renamed copy could,
    # the obligations that fail there (with their counter-models) are the more informative verdict
    if followed is not None and (res.get("crashed") or res.get("unsupported")):
        return followed
    return res


def _run_unit_once(modname, unit_name, tier, seed):
    import importlib
    t0 = time.time()
    res = dict(unit=unit_name, obligations=[], paths=0, infeasible=0, unsupported=[], notes=[],
               assumptions=[], trusted=[], bounded=[], seconds=0.0, crashed=None, functions={}, kind="",
               extra={}, concrete=[])
    try:
        if os.environ.get("PYVC_TEST_CRASH_ONCE") == unit_name:
            flag = os.path.join(os.environ.get("VERIF_EVIDENCE_DIR", "/tmp"), f".crash-once-{unit_name}")
            if not os.path.exists(flag):
                open(flag, "w").close()
                raise RuntimeError("injected crash (PYVC_TEST_CRASH_ONCE)")
        mod = importlib.import_module(modname)
        unit = mod.UNITS[unit_name]
        res["kind"] = unit.kind
        ctx = UnitCtx(unit, tier, seed)
        factor = float(os.environ.get("PYVC_BUDGET_FACTOR", "1"))
        ctx.ex.deadline = time.time() + factor * (unit.budget_s if tier == "quick" else 4 * unit.budget_s)
        from . import poly as _poly
        _poly.DEADLINE = ctx.ex.deadline + 5          # the kernel gives up shortly after the unit's budget
        unit.fn(ctx, *unit.args)
        ex = ctx.ex
        res["obligations"] = [o.as_dict() for o in ex.obligations]
        # obligation names are made unique per unit: name + path signature
        res["paths"] = ex.paths
        res["infeasible"] = ex.infeasible
        res["unsupported"] = list(ex.unsupported)
        res["notes"] = ctx.notes
        res["assumptions"] = ctx.assumptions
        res["trusted"] = ctx.trusted
        res["bounded"] = ctx.bounded
        res["extra"] = ctx.extra
        res["concrete"] = ctx.concrete
        res["functions"] = _source_hashes(unit.functions)
        res["functions"].update(ctx.extra.pop("functions_dynamic", {}))
        res["path_log"] = [list(x) for x in ex.path_log[:400]]
    except Exception:
        # an engine error while following (possibly edited) source: the unit is undecided, never 'held';
        # the report falls back to a concrete refutation on the real code and otherwise exits 3
        res["crashed"] = traceback.format_exc()
        try:
            res["functions"] = _source_hashes(mod.UNITS[unit_name].functions)
            res["obligations"] = [o.as_dict() for o in ctx.ex.obligations]
        except Exception:
            pass
    res["seconds"] = time.time() - t0
    return res


def _crashed_result(n, why):
    return dict(unit=n, obligations=[], paths=0, infeasible=0, unsupported=[], notes=[], assumptions=[], trusted=[], bounded=[],
                seconds=0.0, crashed=why, functions={}, kind="", extra={}, concrete=[])


def run_pool(tasks, jobs, progress=None, stall_s=None, _retry=True):
    """tasks: list of (key, modname, unit name, tier, seed).  Runs them in a process pool and returns {key: result}.
    The pool uses the *spawn* start method: forking a parent that already runs helper threads (the executor's own queue
    threads, z3) has deadlocked workers in a futex on this image.  A watchdog turns a stalled pool (no unit finishing for
    `stall_s` seconds) into crashed units instead of a hang: the verdict is then 'checker failure', never a wait for ever."""
    import multiprocessing as mp
    from concurrent.futures import wait, FIRST_COMPLETED
    results = {}
    if stall_s is None:
        # no unit legitimately runs longer than its budget (150 s quick, 600 s thorough; three times that in the second attempt):
        # a pool in which nothing finishes for twice that long is stalled (seen on a loaded machine: a worker that never
        # reports back); its pending units are abandoned and repeated once in a fresh pool
        factor = float(os.environ.get("PYVC_BUDGET_FACTOR", "1"))
        try:
            import importlib
            longest = max(importlib.import_module(t[1]).UNITS[t[2]].budget_s for t in tasks)
        except Exception:
            longest = 900
        thorough = any(t[3] == "thorough" for t in tasks)
        stall_s = max(330.0, 1.1 * longest * (4 if thorough else 1)) * max(1.0, factor)
    pool = ProcessPoolExecutor(max_workers=jobs, mp_context=mp.get_context("spawn"))
    try:
        futs = {pool.submit(_run_unit, m, n, tier, seed): (key, n) for key, m, n, tier, seed in tasks}
        pending = set(futs)
        last = time.time()
        while pending:
            done, pending = wait(pending, timeout=15, return_when=FIRST_COMPLETED)
            for f in done:
                key, n = futs[f]
                try:
                    results[key] = f.result()
                except Exception as e:
                    results[key] = _crashed_result(n, f"worker failed: {e!r}")
                if progress:
                    progress(results[key])
                last = time.time()
            if pending and time.time() - last > stall_s:
                for f in pending:
                    key, n = futs[f]
                    results[key] = _crashed_result(n, f"pool stalled: no unit finished for {stall_s} s; unit abandoned")
                    if progress:
                        progress(results[key])
                for pr in list(getattr(pool, "_processes", {}).values()):
                    try:
                        pr.kill()
                    except Exception:
                        pass
                pending = set()
    finally:
        pool.shutdown(wait=False, cancel_futures=True)
    # a crashed unit (worker died, transient failure of a helper process) is run once more in a fresh pool before the
    # crash is reported; the first failure is kept in the unit's notes
    def _timed_out(r):
        return any("time budget of the unit exceeded" in str(u) for u in r.get("unsupported", []))
    again = [t for t in tasks if results.get(t[0], {}).get("crashed") or _timed_out(results.get(t[0], {}))] if _retry else []
    if again:
        first = {t[0]: (results[t[0]]["crashed"] or "time budget of the unit exceeded") for t in again}
        old_f = os.environ.get("PYVC_BUDGET_FACTOR")
        os.environ["PYVC_BUDGET_FACTOR"] = "3"          # a unit that ran out of time under load gets a longer second attempt
        try:
            second = run_pool(again, min(jobs, 4), progress, stall_s, _retry=False)
        finally:
            if old_f is None:
                os.environ.pop("PYVC_BUDGET_FACTOR", None)
            else:
                os.environ["PYVC_BUDGET_FACTOR"] = old_f
        for key, r in second.items():
            if not r.get("crashed") and not _timed_out(r):
                r.setdefault("notes", []).append(f"first attempt of this unit failed and was repeated: {str(first[key]).strip().splitlines()[-1][:200]}")
            results[key] = r
    return results


def run_units(modname, names, tier, seed, jobs=None, progress=None):
    jobs = jobs or min(16, os.cpu_count() or 4)
    results = {}
    if jobs == 1 or len(names) == 1:
        for n in names:
            results[n] = _run_unit(modname, n, tier, seed)
            if progress:
                progress(results[n])
        return results
    return run_pool([(n, modname, n, tier, seed) for n in names], jobs, progress)
