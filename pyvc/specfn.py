"""small spec-level hooks shared by contracts"""
from .core import Unsupported, cur


class SgnVal:
    """`x.sgn0` of an abstract field element: an opaque bit.  Comparing two of them forks the path and records
    (x, y, equal?) in path.ghost['sgn0-tests'] so that a contract can relate the final value to them."""

    def __init__(self, x):
        self.x = x

    def _cmp(self, o, want_equal):
        if not isinstance(o, SgnVal):
            return NotImplemented
        p = cur()
        k = p.choose(2, "sgn0 equal?")
        equal = (k == 0)
        p.sig[-1] = "sgn0(" + ("=" if equal else "!=") + ")"
        p.ghost.setdefault("sgn0-tests", []).append((self.x, o.x, equal))
        return equal if want_equal else (not equal)

    def __eq__(self, o):
        return self._cmp(o, True)

    def __ne__(self, o):
        return self._cmp(o, False)

    __hash__ = None


def fld_sgn0(x):
    return SgnVal(x)
