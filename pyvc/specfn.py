"""small spec-level uninterpreted functions shared by contracts"""
from .core import Unsupported


def fld_sgn0(x):
    raise Unsupported("sgn0 of an abstract field element outside a contract that models it")
