"""Alpha-renaming of locals: contracts name the locals of the function they were written for (`env["okm"]`, loop
variable lists).  A maintainer who renames a local or a parameter has not changed the function; so that the sidecar
contract still applies, a unit that does not verify is re-run on an *alpha-equivalent* copy of the function in which the
new names are renamed back to the names recorded for the unchanged tree (`baseline_locals.json`).  Renaming locals
consistently (no capture: the target name must not occur in the function) preserves the semantics, so a proof of the
renamed function is a proof of the function.  Nothing is ever renamed when the first attempt verifies.
"""
from __future__ import annotations

import ast
import itertools
import json
import os

HERE = os.path.dirname(os.path.dirname(os.path.abspath(__file__)))
BASELINE = os.path.join(HERE, "baseline_locals.json")


def function_locals(node):
    """parameters, then every name bound in the body, in source order of the first binding"""
    out = []

    def add(n):
        if n not in out:
            out.append(n)
    a = node.args
    for x in list(a.posonlyargs) + list(a.args):
        add(x.arg)
    if a.vararg:
        add(a.vararg.arg)
    for x in a.kwonlyargs:
        add(x.arg)
    if a.kwarg:
        add(a.kwarg.arg)

    class V(ast.NodeVisitor):
        def visit_Name(self, n):
            if isinstance(n.ctx, (ast.Store, ast.Del)):
                add(n.id)

        def visit_ExceptHandler(self, n):
            if n.name:
                add(n.name)
            self.generic_visit(n)

        def visit_FunctionDef(self, n):
            add(n.name)          # the nested function's own locals are its own

        def visit_Lambda(self, n):
            pass

        def visit_ClassDef(self, n):
            add(n.name)
    v = V()
    for st in node.body:
        v.visit(st)
    return out


def all_functions(tree, modname):
    out = {}

    def walk(body, prefix):
        for st in body:
            if isinstance(st, (ast.FunctionDef, ast.AsyncFunctionDef)):
                out[f"{prefix}.{st.name}"] = st
            elif isinstance(st, ast.ClassDef):
                walk(st.body, f"{prefix}.{st.name}")
    walk(tree.body, modname)
    return out


def table(root):
    """{qualified function name: ordered locals} for every function of <root>/py_ecc"""
    out = {}
    for dp, _, fs in os.walk(os.path.join(root, "py_ecc")):
        for fn in sorted(fs):
            if not fn.endswith(".py"):
                continue
            path = os.path.join(dp, fn)
            mod = os.path.relpath(path, root)[:-3].replace(os.sep, ".")
            if mod.endswith(".__init__"):
                mod = mod[:-9]
            try:
                tree = ast.parse(open(path).read(), path)
            except SyntaxError:
                continue
            for q, node in all_functions(tree, mod).items():
                out[q] = function_locals(node)
    return out


def _names_used(node):
    s = set()
    for n in ast.walk(node):
        if isinstance(n, ast.Name):
            s.add(n.id)
        elif isinstance(n, ast.arg):
            s.add(n.arg)
        elif isinstance(n, (ast.Global, ast.Nonlocal)):
            s.update(n.names)
    return s


def rename_function(node, mapping):
    """in place: every occurrence of a key of `mapping` as a variable of the function becomes its value"""
    for n in ast.walk(node):
        if isinstance(n, ast.Name) and n.id in mapping:
            n.id = mapping[n.id]
        elif isinstance(n, ast.arg) and n.arg in mapping:
            n.arg = mapping[n.arg]
        elif isinstance(n, ast.ExceptHandler) and n.name in mapping:
            n.name = mapping[n.name]


def apply(tree, modname, alpha):
    """rename inside every function of this module that `alpha` ({qualname: {new: old}}) mentions"""
    if not alpha:
        return
    for q, node in all_functions(tree, modname).items():
        m = alpha.get(q)
        if m:
            rename_function(node, m)


def _maps_for(base, cur, node, limit):
    """candidate renamings {new: old} for one function, best guess first"""
    old = [n for n in base if n not in cur]
    new = [n for n in cur if n not in base]
    if not old or not new:
        return []
    used = _names_used(node)
    old = [o for o in old if o not in used]          # no capture
    if not old:
        return []
    out = []

    def push(m):
        if m and m not in out:
            out.append(m)
    # 1. positional: the k-th vanished name is the k-th new name (a pure rename keeps the order of first bindings)
    push({n: o for o, n in zip(old, new)})
    # 2. by position in the whole list of locals
    m2 = {}
    for o in old:
        i = base.index(o)
        if i < len(cur) and cur[i] in new and cur[i] not in m2:
            m2[cur[i]] = o
    push(m2)
    # 3. every injective assignment of the vanished names to new names (small cases only)
    if len(old) <= 3 and len(new) <= 4:
        for perm in itertools.permutations(new, min(len(old), len(new))):
            push({n: o for o, n in zip(old, perm)})
            if len(out) >= limit:
                break
    return out[:limit]


def candidates(root, limit=5):
    """list of alpha maps {qualname: {new: old}} to try, for the functions whose locals differ from the recorded ones"""
    try:
        base = json.load(open(BASELINE))
    except Exception:
        return []
    per_fn = {}
    for dp, _, fs in os.walk(os.path.join(root, "py_ecc")):
        for fn in sorted(fs):
            if not fn.endswith(".py"):
                continue
            path = os.path.join(dp, fn)
            mod = os.path.relpath(path, root)[:-3].replace(os.sep, ".")
            if mod.endswith(".__init__"):
                mod = mod[:-9]
            try:
                tree = ast.parse(open(path).read(), path)
            except SyntaxError:
                continue
            for q, node in all_functions(tree, mod).items():
                if q in base:
                    cur = function_locals(node)
                    if cur != base[q]:
                        ms = _maps_for(base[q], cur, node, limit)
                        if ms:
                            per_fn[q] = ms
    if not per_fn or len(per_fn) > 12:
        return []
    out = [{q: ms[0] for q, ms in per_fn.items()}]
    for q, ms in per_fn.items():
        for m in ms[1:]:
            c = {q2: ms2[0] for q2, ms2 in per_fn.items()}
            c[q] = m
            if c not in out:
                out.append(c)
    return out[:limit]


if __name__ == "__main__":
    import sys
    root = sys.argv[1] if len(sys.argv) > 1 else "/repo"
    json.dump(table(root), open(BASELINE, "w"), indent=0, sort_keys=True)
    print("wrote", BASELINE)
