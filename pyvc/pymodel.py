"""Models of Python builtins, of the few standard-library functions py_ecc calls, and of
operators on host-level (non-repository) values, concrete or symbolic.  DESIGN §3 lists the
semantic assumptions made here.
"""
from __future__ import annotations

import ast
import math
import operator

import z3

from .core import Unsupported, FAtom, ZAtom, Fld, FldKind, cur
from .poly import R as _R
from .sym import (SInt, SBytes, Ratio, zt, bt, sdivmod, spowmod, os2ip_sym, i2osp_sym, implied,
                  bytes_const, BytesSort, IntSort, BV8)


class SymTruth:
    """base class of special symbolic objects that define their own truthiness"""

    def truth(self, interp):
        raise Unsupported("truth")


class SymIter:
    """base class of symbolic iterables (need a loop contract or a recognised comprehension)"""

    def items(self, interp):
        raise Unsupported(f"iteration over symbolic {type(self).__name__} needs a loop contract")

    def map_comprehension(self, interp, elt, gen, frame):
        raise Unsupported(f"comprehension over symbolic {type(self).__name__}")


class TypeMarker:
    def __init__(self, name, pytypes):
        self.name, self.pytypes = name, pytypes

    def __repr__(self):
        return f"<type {self.name}>"


IntT = TypeMarker("int", (int,))
BytesT = TypeMarker("bytes", (bytes,))
BytearrayT = TypeMarker("bytearray", (bytearray,))
BoolT = TypeMarker("bool", (bool,))
StrT = TypeMarker("str", (str,))
TupleT = TypeMarker("tuple", (tuple,))
ListT = TypeMarker("list", (list,))
FloatT = TypeMarker("float", (float,))
ObjectT = TypeMarker("object", (object,))


def I():
    from . import interp
    return interp


# ------------------------------------------------------------------------------------------
# byte-level uninterpreted functions (shared with the spec functions)
# ------------------------------------------------------------------------------------------
_strxor = z3.Function("strxor", BytesSort, BytesSort, BytesSort)
_brepeat = z3.Function("brepeat", BytesSort, IntSort, BytesSort)
_hash_fns = {}
_hmac_fns = {}


def hash_uf(name):
    if name not in _hash_fns:
        _hash_fns[name] = z3.Function(f"H_{name}", BytesSort, BytesSort)
    return _hash_fns[name]


def hmac_uf(name):
    if name not in _hmac_fns:
        _hmac_fns[name] = z3.Function(f"HMAC_{name}", BytesSort, BytesSort, BytesSort)
    return _hmac_fns[name]


def strxor(a, b):
    """bytes(x ^ y for x, y in zip(a, b)): pointwise xor truncated to the shorter operand"""
    p = cur()
    t = _strxor(bt(a), bt(b))
    la, lb = z3.Length(bt(a)), z3.Length(bt(b))
    p.zc.append(z3.Length(t) == z3.If(la <= lb, la, lb))
    return SBytes(t)


def brepeat(c, n):
    if isinstance(n, int) and isinstance(c, (bytes, bytearray)):
        return bytes(c) * n
    p = cur()
    t = _brepeat(bt(c), zt(n))
    p.zc.append(z3.Length(t) == z3.If(zt(n) > 0, zt(n) * z3.Length(bt(c)), 0))
    return SBytes(t)


class HashFn:
    """a hashlib constructor: concrete (`sha256`) or a symbolic parameter"""

    def __init__(self, name, digest_size, block_size):
        self.name, self.digest_size, self.block_size = name, digest_size, block_size

    def apply(self, data):
        p = cur()
        t = hash_uf(self.name)(bt(data))
        p.zc.append(z3.Length(t) == zt(self.digest_size))
        return SBytes(t)


class HashObj:
    def __init__(self, fn, data):
        self.fn, self.data = fn, data


KNOWN_HASHES = {"sha256": (32, 64), "sha512": (64, 128), "sha384": (48, 128), "sha1": (20, 64),
                "sha224": (28, 64), "md5": (16, 64), "sha3_256": (32, 136), "sha3_512": (64, 72),
                "blake2b": (64, 128), "blake2s": (32, 64)}


def hmac_new(interp, key, msg=None, digestmod=None):
    if not isinstance(digestmod, HashFn):
        raise Unsupported("hmac.new with an unknown digestmod")
    return HmacObj(digestmod, key, msg if msg is not None else b"")


class HmacObj:
    def __init__(self, fn, key, msg):
        self.fn, self.key, self.msg = fn, key, msg

    def digest(self):
        p = cur()
        t = hmac_uf(self.fn.name)(bt(self.key), bt(self.msg))
        p.zc.append(z3.Length(t) == zt(self.fn.digest_size))
        return SBytes(t)


# ------------------------------------------------------------------------------------------
# symbolic list of byte strings (append-only), with the ghost join maintained by construction
# ------------------------------------------------------------------------------------------
class SymBytesList:
    ArrSort = z3.ArraySort(IntSort, BytesSort)

    def __init__(self, arr, n, joined):
        self.arr, self.n, self.joined = arr, n, joined      # z3 array, SInt/int, SBytes

    @staticmethod
    def from_concrete(items):
        arr = z3.K(IntSort, z3.Empty(BytesSort))
        j = z3.Empty(BytesSort)
        for i, x in enumerate(items):
            arr = z3.Store(arr, i, bt(x))
            j = bt(x) if i == 0 else z3.Concat(j, bt(x))
        return SymBytesList(arr, len(items), SBytes(j))

    @staticmethod
    def fresh(path, base):
        k = next(path.fresh_id)
        n = SInt(z3.Int(f"{base}.len!{k}"))
        path.zc.append(n.t >= 0)
        return SymBytesList(z3.Const(f"{base}.arr!{k}", SymBytesList.ArrSort), n,
                            SBytes(z3.Const(f"{base}.join!{k}", BytesSort)))

    def append(self, x):
        self.arr = z3.Store(self.arr, zt(self.n), bt(x))
        self.joined = SBytes(z3.Concat(self.joined.t, bt(x)))
        self.n = self.n + 1

    def get(self, idx):
        p = cur()
        it = zt(idx)
        nt = zt(self.n)
        ok = z3.And(it >= -nt, it < nt)
        if not p.prove(f"{p.ex.current_function}/safety.index", ZAtom(ok), kind="safety",
                       detail=f"list index {it} within length {nt}"):
            raise Unsupported("list index not provably in range")
        idx2 = z3.If(it < 0, it + nt, it)
        return SBytes(z3.Select(self.arr, z3.simplify(idx2)))


# ------------------------------------------------------------------------------------------
# symbolic zip / range
# ------------------------------------------------------------------------------------------
class SymZip(SymIter):
    def __init__(self, parts):
        self.parts = parts

    def map_comprehension(self, interp, elt, gen, frame):
        # recognise   x ^ y for x, y in zip(a, b)   on byte strings
        if len(self.parts) == 2 and all(isinstance(p, (SBytes, bytes, bytearray)) for p in self.parts) \
                and isinstance(gen.target, ast.Tuple) and len(gen.target.elts) == 2 and not gen.ifs \
                and isinstance(elt, ast.BinOp) and isinstance(elt.op, ast.BitXor) \
                and isinstance(elt.left, ast.Name) and isinstance(elt.right, ast.Name) \
                and {elt.left.id, elt.right.id} == {e.id for e in gen.target.elts}:
            return SymByteGen(strxor(self.parts[0], self.parts[1]))
        raise Unsupported("comprehension over a symbolic zip that is not a pointwise xor")


class SymByteGen:
    """generator producing the byte values of a symbolic string (only bytes() consumes it)"""

    def __init__(self, sb):
        self.sb = sb


class SymRange(SymIter):
    def __init__(self, lo, hi):
        self.lo, self.hi = lo, hi


# ------------------------------------------------------------------------------------------
# builtins
# ------------------------------------------------------------------------------------------
def b_len(interp, x):
    if isinstance(x, SBytes):
        return x.length()
    if isinstance(x, SymBytesList):
        return x.n
    if isinstance(x, (SymSetOf, SymListZip)):
        return x.length()
    if isinstance(x, (list, tuple, bytes, bytearray, str, dict, set, range)):
        return len(x)
    from .anyval import SAny, SymSeq
    if isinstance(x, SAny):
        return x.length(interp)
    if isinstance(x, SymSeq):
        return x.length()
    IM = I()
    if isinstance(x, IM.Obj):
        return interp.call_method(x, "__len__", [])
    raise I().PyRaise(TypeError, "len")


def b_int(interp, x=0, base=None):
    if isinstance(x, bool):
        return int(x)
    if isinstance(x, (int, SInt)):
        return x
    if isinstance(x, ZAtom):
        return SInt(z3.If(x.t, z3.IntVal(1), z3.IntVal(0)))
    if isinstance(x, FAtom):
        return 1 if interp.truth(x) else 0
    if isinstance(x, float):
        return int(x)
    if isinstance(x, str):
        return int(x) if base is None else int(x, base)
    IM = I()
    if isinstance(x, IM.Obj):
        return interp.call_method(x, "__int__", [])
    if isinstance(x, Fld):
        # int(field element): only meaningful for the integer reading; keep the value
        return x
    if isinstance(x, Ratio):
        raise Unsupported("int() of a symbolic quotient")
    raise I().PyRaise(TypeError, "int()")


def b_bool(interp, x=False):
    if isinstance(x, (FAtom, ZAtom, bool)):
        return x
    if isinstance(x, SInt):
        return ZAtom(x.t != 0)
    return interp.truth(x)


def _type_matches(interp, x, t):
    IM = I()
    if isinstance(t, tuple):
        return _or([_type_matches(interp, x, u) for u in t], interp)
    from .anyval import SAny
    if isinstance(x, SAny):
        return x.isinstance(interp, t)
    if hasattr(x, "sym_isinstance"):
        return x.sym_isinstance(interp, t)
    if isinstance(t, TypeMarker):
        if t is IntT:
            if isinstance(x, Fld):
                return x.kind.modulus is not None       # an integer, viewed modulo p
            return isinstance(x, (int, SInt)) and not isinstance(x, float)
        if t is BoolT:
            return isinstance(x, (bool, ZAtom, FAtom))
        if t is BytesT:
            return isinstance(x, bytes) or (isinstance(x, SBytes) and not getattr(x, "mutable", False))
        if t is BytearrayT:
            return isinstance(x, bytearray) or (isinstance(x, SBytes) and getattr(x, "mutable", False))
        if t is ObjectT:
            return True
        return isinstance(x, t.pytypes)
    if isinstance(t, IM.ClassVal):
        if isinstance(x, Fld) and x.kind.modulus is None and not hasattr(x.kind, "is_instance_of"):
            # an abstract field element stands for an object of SOME field class: the test has no single answer
            raise Unsupported(f"isinstance({t.name}) on an abstract field element (the unit must fix the class)")
        if isinstance(x, Fld) and hasattr(x.kind, "is_instance_of"):
            return x.kind.is_instance_of(t)
        return isinstance(x, IM.Obj) and x.cls.is_subclass(t)
    if isinstance(t, FldKind):
        return isinstance(x, Fld)
    if isinstance(t, type):
        return isinstance(x, t)
    raise Unsupported(f"isinstance against {t!r}")


def _or(vals, interp):
    for v in vals:
        if interp.truth(v):
            return True
    return False


def b_isinstance(interp, x, t):
    return _type_matches(interp, x, t)


def b_hasattr(interp, o, name):
    return interp.hasattr(o, name)


def b_pow(interp, a, e, m=None):
    if m is None:
        return interp.binop(ast.Pow(), a, e)
    if all(isinstance(v, int) for v in (a, e, m)):
        return pow(a, e, m)
    con = interp.cfg.contracts.get("builtins.pow")
    if con is not None:
        return con.apply(interp, None, dict(a=a, e=e, m=m))
    return spowmod(a, e, m)


def b_range(interp, *args):
    if all(isinstance(a, int) for a in args):
        return range(*args)
    if len(args) == 1:
        return SymRange(0, args[0])
    if len(args) == 2:
        return SymRange(args[0], args[1])
    raise Unsupported("symbolic range with a step")


def b_enumerate(interp, it, start=0):
    return list(enumerate(interp.iterate(it), start))


class SymListZip(SymIter):
    """zip(...) of symbolic lists of byte strings (truncates to the shortest)"""

    def __init__(self, parts):
        self.parts = parts

    def length(self):
        n = zt(self.parts[0].n)
        for p in self.parts[1:]:
            n = z3.If(zt(p.n) < n, zt(p.n), n)
        return SInt(n)

    def map_comprehension(self, interp, elt, gen, frame):
        # [f(a, b) for a, b in zip(A, B)] with a bytes-valued element expression: a lambda array
        j = z3.Int(f"j!{next(cur().fresh_id)}")
        names = [e.id for e in gen.target.elts] if isinstance(gen.target, ast.Tuple) else [gen.target.id]
        if gen.ifs or len(names) != len(self.parts):
            raise Unsupported("comprehension over a zip of symbolic lists with a filter / wrong arity")
        inner = I().Frame(frame.mod, dict(frame.env), frame.func, frame.cls, frame.recv)
        for nm, p in zip(names, self.parts):
            inner.env[nm] = SBytes(z3.Select(p.arr, j))
        v = interp.eval(elt, inner)
        if not isinstance(v, (SBytes, bytes)):
            raise Unsupported("comprehension element is not a byte string")
        arr = z3.Lambda([j], bt(v))
        return SymBytesList(arr, self.length(), SBytes(z3.Const(f"join!{next(cur().fresh_id)}", BytesSort)))


class SymSetOf:
    """set(L) of a symbolic list of byte strings: only its length is observable; it equals len(L) exactly when the
    entries are pairwise distinct (uninterpreted predicate over the list)"""

    def __init__(self, lst):
        self.lst = lst

    def length(self):
        p = cur()
        k = next(p.fresh_id)
        c = z3.Int(f"card!{k}")
        d = pairwise_distinct(self.lst)
        n = zt(self.lst.n)
        p.zc.append(z3.And(c >= 0, c <= n, (c == n) == d, z3.Implies(n <= 1, d)))
        return SInt(c)


_distinct = z3.Function("pairwise_distinct", z3.ArraySort(IntSort, BytesSort), IntSort, z3.BoolSort())


def pairwise_distinct(lst):
    return _distinct(lst.arr, zt(lst.n))


def b_zip(interp, *its):
    if any(isinstance(i, SymBytesList) for i in its):
        if not all(isinstance(i, SymBytesList) for i in its):
            raise Unsupported("zip of a symbolic list with a concrete sequence")
        return SymListZip(list(its))
    if any(isinstance(i, SBytes) for i in its):
        return SymZip(list(its))
    from .anyval import SymSeq
    if any(isinstance(i, SymSeq) for i in its):
        from .anyval import SymSeqZip
        return SymSeqZip(list(its))
    return list(zip(*[interp.iterate(i) for i in its]))


def b_reversed(interp, it):
    return list(reversed(interp.iterate(it)))


def b_tuple(interp, it=()):
    return tuple(interp.iterate(it))


def b_list(interp, it=()):
    return list(interp.iterate(it))


def b_sum(interp, it, start=0):
    acc = start
    for x in interp.iterate(it):
        acc = interp.binop(ast.Add(), acc, x)
    return acc


def b_all(interp, it):
    for x in interp.iterate(it):
        if not interp.truth(x):
            return False
    return True


def b_any(interp, it):
    for x in interp.iterate(it):
        if interp.truth(x):
            return True
    return False


def b_bytes(interp, x=b"", *a):
    IM = I()
    if isinstance(x, (bytes, bytearray)):
        return bytes(x)
    if isinstance(x, SBytes):
        return SBytes(x.t)
    if isinstance(x, SymByteGen):
        return x.sb
    if isinstance(x, bool):
        raise IM.PyRaise(TypeError)
    if isinstance(x, int):
        if x < 0:
            raise IM.PyRaise(ValueError)
        return bytes(x)
    if isinstance(x, SInt):
        raise Unsupported("bytes(n) with symbolic n")
    items = interp.iterate(x)
    if all(isinstance(v, int) and not isinstance(v, bool) for v in items):
        try:
            return bytes(items)
        except ValueError:
            raise IM.PyRaise(ValueError, "bytes must be in range(0, 256)")
    parts = []
    for v in items:
        if isinstance(v, int):
            if not 0 <= v < 256:
                raise IM.PyRaise(ValueError, "bytes must be in range(0, 256)")
            parts.append(z3.Unit(z3.BitVecVal(v, 8)))
        elif isinstance(v, SInt):
            if not interp.truth(ZAtom(z3.And(v.t >= 0, v.t < 256)), "byte in range(256)"):
                raise IM.PyRaise(ValueError, "bytes must be in range(0, 256)")
            parts.append(z3.Unit(z3.Int2BV(v.t, 8)))
        else:
            raise IM.PyRaise(TypeError, "bytes element")
    if not parts:
        return b""
    return SBytes(parts[0] if len(parts) == 1 else z3.Concat(*parts))


def b_bytearray(interp, x=b""):
    r = b_bytes(interp, x)
    sb = SBytes(bt(r))
    sb_mut[id(sb)] = True
    return MutBytes(sb.t)


class MutBytes(SBytes):
    """bytearray: same value model as bytes plus in-place extend"""
    __slots__ = ()
    mutable = True

    def extend(self, o):
        self.t = z3.Concat(self.t, bt(o))

    def __add__(self, o):
        r = SBytes.__add__(self, o)
        return MutBytes(r.t) if isinstance(r, SBytes) else r

    def slice(self, lo, hi):
        return MutBytes(SBytes.slice(self, lo, hi).t)


sb_mut = {}


def b_set(interp, it=()):
    if isinstance(it, SymBytesList):
        return SymSetOf(it)
    items = interp.iterate(it)
    if all(isinstance(x, (int, str, bytes, tuple)) for x in items):
        return set(items)
    raise Unsupported("set() of symbolic values")


def b_ord(interp, c):
    if isinstance(c, (str, bytes)):
        return ord(c)
    raise I().PyRaise(TypeError, "ord")


def b_minmax(fn):
    def f(interp, *args):
        items = interp.iterate(args[0]) if len(args) == 1 else list(args)
        best = items[0]
        for x in items[1:]:
            c = interp.compare(ast.Gt() if fn == "max" else ast.Lt(), x, best)
            if interp.truth(c):
                best = x
        return best
    return f


def b_abs(interp, x):
    if isinstance(x, SInt):
        return SInt(z3.If(x.t >= 0, x.t, -x.t))
    return abs(x)


def b_repr(interp, x):
    return "<repr>"


def b_type(interp, *args):
    IM = I()
    if len(args) == 1:
        x = args[0]
        if isinstance(x, IM.Obj):
            return x.cls
        if isinstance(x, (int, SInt)) and not isinstance(x, bool):
            return IntT
        if isinstance(x, Fld):
            return x.kind
        if isinstance(x, (bytes, SBytes)):
            return BytesT
        if hasattr(x, "sym_type"):
            return x.sym_type(interp)
        if x is None or isinstance(x, (bool, str, list, tuple, dict, set, frozenset, float, range, bytearray, type(NotImplemented))):
            return TypeMarker(type(x).__name__, (type(x),))
        # a symbolic value of the engine has no single Python type: never answer a type identity test by accident
        raise Unsupported(f"type() of a symbolic value ({type(x).__name__})")
    name, bases, ns = args
    return IM.ClassVal(name, None, _FakeClassNode(name), list(bases), dict(ns))


class _FakeClassNode:
    def __init__(self, name):
        self.name = name
        self.decorator_list = []
        self.body = []


def b_divmod(interp, a, b):
    return sdivmod(a, b) if isinstance(a, SInt) or isinstance(b, SInt) else divmod(a, b)


def b_int_from_bytes(interp, x, byteorder="big", signed=False):
    if byteorder != "big" or signed is not False:
        raise Unsupported("int.from_bytes with non-big/ signed")
    from .anyval import SAny
    if isinstance(x, SAny):
        x = x.as_bytes(interp)
    if isinstance(x, (bytes, bytearray)):
        return int.from_bytes(bytes(x), "big")
    if isinstance(x, SBytes):
        return os2ip_sym(x)
    raise I().PyRaise(TypeError, "from_bytes")


def int_to_bytes(interp, x, length, byteorder="big", signed=False):
    IM = I()
    if byteorder != "big" or signed is not False:
        raise Unsupported("to_bytes with non-big / signed")
    if isinstance(x, int) and isinstance(length, int):
        try:
            return x.to_bytes(length, "big")
        except OverflowError:
            raise IM.PyRaise(OverflowError)
    if not isinstance(length, int):
        raise Unsupported("to_bytes with symbolic length")
    xt = zt(x)
    if not interp.truth(ZAtom(z3.And(xt >= 0, xt < 256 ** length)), f"fits in {length} bytes"):
        raise IM.PyRaise(OverflowError)
    return i2osp_sym(x, length)


class _Mod:
    def __init__(self, name):
        self.name = name


def m_ceil(interp, x):
    if isinstance(x, Ratio):
        q, r = sdivmod(x.a, x.b)
        cur().notes.append("math.ceil(a / b) on integers is modelled as exact ceiling division "
                           "(DESIGN §3.7: exact below 2^53, monotone beyond)")
        return SInt(z3.If(zt(r) == 0, zt(q), zt(q) + 1))
    if isinstance(x, (int, float)):
        return math.ceil(x)
    raise Unsupported("math.ceil of a symbolic non-quotient")


def m_log2(interp, x):
    if isinstance(x, (int, float)):
        return math.log2(x)
    raise Unsupported("math.log2 of a symbolic value")


BUILTINS = {}


def _reg(name, fn):
    from .interp import Builtin
    BUILTINS[name] = Builtin(name, fn)


def _init():
    from .interp import Builtin
    for n, f in [("len", b_len), ("bool", b_bool), ("isinstance", b_isinstance),
                 ("hasattr", b_hasattr), ("pow", b_pow), ("range", b_range), ("enumerate", b_enumerate),
                 ("zip", b_zip), ("reversed", b_reversed), ("sum", b_sum),
                 ("all", b_all), ("any", b_any), ("set", b_set), ("ord", b_ord),
                 ("max", b_minmax("max")), ("min", b_minmax("min")), ("abs", b_abs), ("repr", b_repr),
                 ("type", b_type), ("divmod", b_divmod)]:
        BUILTINS[n] = Builtin(n, f)
    # types that are also callable
    for marker, fn in [(IntT, b_int), (BytesT, b_bytes), (BytearrayT, b_bytearray), (TupleT, b_tuple),
                       (ListT, b_list), (BoolT, b_bool), (StrT, lambda i, x="": "<str>"),
                       (FloatT, lambda i, x=0.0: float(x)), (ObjectT, None)]:
        marker.call = fn
        BUILTINS[marker.name] = marker
    BUILTINS["bool"] = BoolT
    BUILTINS["None"] = None
    BUILTINS["True"] = True
    BUILTINS["False"] = False
    BUILTINS["NotImplemented"] = NotImplemented
    BUILTINS["Ellipsis"] = Ellipsis


# ------------------------------------------------------------------------------------------
# externs (imports from outside the repository)
# ------------------------------------------------------------------------------------------
def extern(interp, src, orig):
    IM = I()
    if src == "typing" or src == "typing_extensions":
        if orig == "cast":
            return IM.Builtin("cast", lambda i, t, v: v)
        if orig == "TYPE_CHECKING":
            return False
        if orig == "NewType":
            return IM.Builtin("NewType", lambda i, n, t: IM.NewTypeFn(n))
        return TypeMarker(f"typing.{orig}", ())
    if src == "eth_typing":
        return IM.NewTypeFn(orig)
    if src == "eth_utils" and orig == "ValidationError":
        return IM.ValidationError
    if src in ("hashlib", "_hashlib"):
        if orig is None:
            return _Mod("hashlib")
        if orig == "HASH":
            return TypeMarker("HASH", ())
        if orig in KNOWN_HASHES:
            ds, bs = KNOWN_HASHES[orig]
            return HashFn(orig, ds, bs)
    if src == "hmac" and orig is None:
        return _Mod("hmac")
    if src == "math":
        if orig is None:
            return _Mod("math")
        if orig == "ceil":
            return IM.Builtin("ceil", m_ceil)
        if orig == "log2":
            return IM.Builtin("log2", m_log2)
    if src == "functools":
        return TypeMarker(f"functools.{orig}", ())
    if src == "abc":
        if orig == "ABC":
            return IM.ClassVal("ABC", None, _FakeClassNode("ABC"), [], {})
        return TypeMarker(f"abc.{orig}", ())
    raise Unsupported(f"import of {src}.{orig}")


def host_getattr(interp, o, name):
    IM = I()
    if hasattr(o, "sym_getattr"):
        return o.sym_getattr(interp, name)
    if isinstance(o, _Mod):
        if o.name == "hashlib" and name in KNOWN_HASHES:
            ds, bs = KNOWN_HASHES[name]
            return HashFn(name, ds, bs)
        if o.name == "hmac" and name == "new":
            return IM.Builtin("hmac.new", hmac_new)
        if o.name == "math" and name == "ceil":
            return IM.Builtin("ceil", m_ceil)
        if o.name == "math" and name == "log2":
            return IM.Builtin("log2", m_log2)
        raise Unsupported(f"{o.name}.{name}")
    if isinstance(o, Fld):
        if name == "one":
            return IM.Builtin("one", lambda i: o.kind.one())
        if name == "zero":
            return IM.Builtin("zero", lambda i: o.kind.zero())
        if name == "__class__":
            return o.kind
        if name == "sgn0":
            from .specfn import fld_sgn0
            return fld_sgn0(o)
        if name in getattr(o.kind, "attrs", {}):
            return o.kind.attrs[name]
        if hasattr(o.kind, "elem_getattr"):
            return o.kind.elem_getattr(interp, o, name)
        raise Unsupported(f"attribute {name} of an abstract field element")
    if isinstance(o, FldKind):
        if name == "one":
            return IM.Builtin("one", lambda i: o.one())
        if name == "zero":
            return IM.Builtin("zero", lambda i: o.zero())
        raise Unsupported(f"class attribute {name} of an abstract field")
    if o is IntT and name == "from_bytes":
        return IM.Builtin("int.from_bytes", b_int_from_bytes)
    if isinstance(o, (int, SInt)) and not isinstance(o, bool):
        if name == "to_bytes":
            return IM.Builtin("to_bytes", lambda i, *a, **k: int_to_bytes(i, o, *a, **k))
        if name == "bit_length" and isinstance(o, int):
            return IM.Builtin("bit_length", lambda i: o.bit_length())
    if isinstance(o, HashObj):
        if name == "digest":
            return IM.Builtin("digest", lambda i: o.fn.apply(o.data))
        if name == "digest_size":
            return o.fn.digest_size
        if name == "block_size":
            return o.fn.block_size
    if isinstance(o, HmacObj):
        if name == "digest":
            return IM.Builtin("digest", lambda i: o.digest())
    if isinstance(o, HashFn):
        if name in ("digest_size", "block_size"):
            raise Unsupported("digest_size on the constructor, not on an instance")
    if isinstance(o, MutBytes) and name == "extend":
        return IM.Builtin("extend", lambda i, x: o.extend(x))
    if isinstance(o, (bytes, SBytes)) and name == "join":
        def join(i, parts):
            if isinstance(parts, SymBytesList):
                if isinstance(o, bytes) and o == b"":
                    return parts.joined
                raise Unsupported("join with a non-empty separator over a symbolic list")
            items = i.iterate(parts)
            if all(isinstance(x, (bytes, bytearray)) for x in items) and isinstance(o, bytes):
                return o.join(items)
            acc = None
            for k, x in enumerate(items):
                if k and not (isinstance(o, bytes) and o == b""):
                    acc = SBytes(z3.Concat(bt(acc), bt(o)))
                acc = x if acc is None else SBytes(z3.Concat(bt(acc), bt(x)))
            return acc if acc is not None else b""
        return IM.Builtin("join", join)
    if isinstance(o, SymBytesList):
        if name == "append":
            return IM.Builtin("append", lambda i, x: o.append(x))
    if isinstance(o, list):
        if name in ("append", "extend", "pop", "copy", "insert", "reverse"):
            m = getattr(o, name)

            def call(i, *a, _m=m, _n=name):
                try:
                    if _n == "extend":
                        return _m(i.iterate(a[0]))
                    return _m(*a)
                except IndexError:
                    raise IM.PyRaise(IndexError)
            return IM.Builtin(name, call)
    if isinstance(o, (list, tuple)) and name == "index":
        def index(i, x):
            for k, y in enumerate(o):
                if y is x or i.truth(i.compare(ast.Eq(), y, x)):
                    return k
            raise IM.PyRaise(ValueError, "not in sequence")
        return IM.Builtin("index", index)
    if isinstance(o, (list, tuple)) and name == "count":
        return IM.Builtin("count", lambda i, x: sum(1 for y in o if i.truth(i.compare(ast.Eq(), y, x))))
    if isinstance(o, dict) and name in ("get", "keys", "values", "items"):
        m = getattr(o, name)
        return IM.Builtin(name, lambda i, *a: m(*a))
    from .anyval import SAny
    if isinstance(o, SAny):
        return o.getattr(interp, name)
    if isinstance(o, IM.PyRaise):
        raise Unsupported("attribute of a caught exception")
    raise Unsupported(f"attribute {name} of {type(o).__name__}")


def host_getitem(interp, cont, idx):
    IM = I()
    if hasattr(cont, "sym_getitem"):
        return cont.sym_getitem(interp, idx)
    if isinstance(cont, TypeMarker):
        return cont                     # typing generics: List[int], Union[...] (annotations are dropped)
    from .anyval import SAny, SymSeq
    if isinstance(cont, SAny):
        cont = cont.as_bytes(interp)
    if isinstance(cont, (bytes, bytearray)):
        if isinstance(idx, slice):
            if any(isinstance(x, SInt) for x in (idx.start, idx.stop)):
                cont = SBytes(bytes_const(bytes(cont)))
            else:
                return cont[idx]
        elif isinstance(idx, int):
            try:
                return cont[idx]
            except IndexError:
                raise IM.PyRaise(IndexError)
    if isinstance(cont, SBytes):
        if isinstance(idx, slice):
            if idx.step is not None:
                raise Unsupported("stepped slice of symbolic bytes")
            return cont.slice(idx.start, idx.stop)
        raise Unsupported("indexing symbolic bytes")
    if isinstance(cont, SymBytesList):
        if isinstance(idx, slice):
            raise Unsupported("slice of a symbolic list")
        return cont.get(idx)
    if isinstance(cont, SymSeq):
        return cont.getitem(interp, idx)
    raise Unsupported(f"subscript of {type(cont).__name__}")


def host_call(interp, f, args, kwargs):
    IM = I()
    if isinstance(f, TypeMarker):
        fn = getattr(f, "call", None)
        if fn is None:
            raise Unsupported(f"call of type {f.name}")
        return fn(interp, *args, **kwargs)
    if isinstance(f, HashFn):
        if len(args) > 1 or kwargs:
            raise Unsupported("hash constructor arguments")
        return HashObj(f, args[0] if args else b"")
    from .anyval import SAny
    if isinstance(f, SAny):
        return f.call(interp, args, kwargs)
    raise Unsupported(f"call of {type(f).__name__}")


def host_binop(interp, op, f, a, b):
    IM = I()
    from .anyval import SAny
    if isinstance(a, SAny):
        a = a.for_binop(interp, op, b, left=True)
    if isinstance(b, SAny):
        b = b.for_binop(interp, op, a, left=False)
    from .core import PToken
    if isinstance(b, PToken) and isinstance(op, ast.Mod) and isinstance(a, int) and not isinstance(a, bool):
        return Fld(_R(a), b.kind, reduced=True)          # literal % p, read modulo p
    # integer true division -> exact quotient object when symbolic
    if isinstance(op, ast.Div) and (isinstance(a, SInt) or isinstance(b, SInt)):
        return Ratio(a, b)
    if isinstance(op, ast.Mult):
        if isinstance(a, (bytes, bytearray)) and isinstance(b, SInt):
            return brepeat(a, b)
        if isinstance(b, (bytes, bytearray)) and isinstance(a, SInt):
            return brepeat(b, a)
    if isinstance(op, ast.Add):
        if isinstance(a, SBytes) or isinstance(b, SBytes):
            if not isinstance(a, (SBytes, bytes, bytearray)) or not isinstance(b, (SBytes, bytes, bytearray)):
                raise IM.PyRaise(TypeError, "bytes concatenation")
            if isinstance(a, MutBytes) or isinstance(a, bytearray):
                return MutBytes(z3.Concat(bt(a), bt(b)))
            return SBytes(z3.Concat(bt(a), bt(b)))
    if isinstance(op, ast.Pow) and isinstance(b, int) and b < 0 and isinstance(a, int):
        return a ** b
    try:
        r = f(a, b)
    except ZeroDivisionError:
        raise IM.PyRaise(ZeroDivisionError)
    except TypeError as e:
        if isinstance(a, (Fld, SInt, SBytes)) or isinstance(b, (Fld, SInt, SBytes)):
            raise Unsupported(f"operator {type(op).__name__} on {type(a).__name__}, {type(b).__name__}: {e}")
        raise IM.PyRaise(TypeError, str(e))
    except OverflowError:
        raise IM.PyRaise(OverflowError)
    if r is NotImplemented:
        raise IM.PyRaise(TypeError, "unsupported operand")
    return r


_CMP = {"__eq__": operator.eq, "__ne__": operator.ne, "__lt__": operator.lt, "__le__": operator.le,
        "__gt__": operator.gt, "__ge__": operator.ge}


def host_compare(interp, name, a, b):
    IM = I()
    from .anyval import SAny
    if isinstance(a, SAny) or isinstance(b, SAny):
        return SAny.compare(interp, name, a, b)
    if name in ("__eq__", "__ne__"):
        if isinstance(a, (tuple, list)) and isinstance(b, (tuple, list)) and type(a) is type(b):
            eq = len(a) == len(b)
            if eq:
                for x, y in zip(a, b):
                    if x is y:
                        continue
                    if not interp.truth(interp.compare(ast.Eq(), x, y)):
                        eq = False
                        break
            return eq if name == "__eq__" else not eq
        if isinstance(a, (ZAtom,)) or isinstance(b, (ZAtom,)):
            if isinstance(a, (ZAtom, bool)) and isinstance(b, (ZAtom, bool)):
                ta = a.t if isinstance(a, ZAtom) else z3.BoolVal(a)
                tb = b.t if isinstance(b, ZAtom) else z3.BoolVal(b)
                return ZAtom(ta == tb) if name == "__eq__" else ZAtom(z3.Xor(ta, tb))
            # bool compared with int
            ta = zt(a)
            tb = zt(b)
            return ZAtom(ta == tb) if name == "__eq__" else ZAtom(ta != tb)
        if isinstance(a, FAtom) or isinstance(b, FAtom):
            va = interp.truth(a) if isinstance(a, FAtom) else a
            vb = interp.truth(b) if isinstance(b, FAtom) else b
            return (va == vb) if name == "__eq__" else (va != vb)
        if isinstance(a, bytes) and isinstance(b, SBytes):
            return b.__eq__(a) if name == "__eq__" else b.__ne__(a)
    try:
        r = _CMP[name](a, b)
    except TypeError as e:
        raise IM.PyRaise(TypeError, str(e))
    if r is NotImplemented:
        if name == "__eq__":
            return False
        if name == "__ne__":
            return True
        raise IM.PyRaise(TypeError, "comparison")
    return r


_init()
