"""arbitrary Python values and symbolic-length sequences (used by the BLS glue layer)"""
from .pymodel import SymTruth, SymIter


class SAny(SymTruth):
    pass


class SymSeq(SymIter):
    pass


class SymSeqZip(SymIter):
    def __init__(self, parts):
        self.parts = parts
