"""Group-level abstract values (DESIGN §2.3 'abstract group elements').

A point of an abelian group is kept in *module normal form*: a Z-linear combination
sum c_i . A_i of opaque atoms A_i with integer coefficients c_i that may be symbolic (z3 Int
terms).  The curve functions' L2 contracts (`add` returns a valid representative of
abs(p1) (+) abs(p2), ...) are applied at this level, so a group-level function such as
`multiply` is verified against the callees' contracts only.  That sums of multiples may be
rearranged freely is exactly "(+) is an abelian group and . a Z-action" (lemma L-GROUP: Lean,
lean/GroupLaw.lean + lean/Cyclic.lean smul_* lemmas).
"""
from __future__ import annotations

import z3

from .core import ZAtom, Unsupported, cur
from .pymodel import SymTruth
from .sym import SInt, zt

PtSort = z3.DeclareSort("Pt")
_isO = z3.Function("isO", PtSort, z3.BoolSort())
_smul = z3.Function("smul", z3.IntSort(), PtSort, PtSort)
_gadd = z3.Function("gadd", PtSort, PtSort, PtSort)
_Oconst = z3.Const("O", PtSort)


class GroupCtx:
    """style: how representations encode the identity
         'proj'   (x, y, z) with z == 0           (optimized modules)
         'none'   None                             (reference modules)
         'jac'    (x, y, z) with y == 0            (secp256k1 Jacobian)
         'aff00'  (0, 0)                           (secp256k1 affine)"""

    def __init__(self, name, style, coord_cls=None):
        self.name, self.style = name, style
        self.atoms = {}     # name -> dict(order=int|None, nonzero=bool)
        self.coord_cls = coord_cls   # ClassVal of the coordinates' field class, when the unit fixes it

    def atom(self, name, order=None, nonzero=False):
        self.atoms[name] = dict(order=order, nonzero=nonzero)
        return GPt(self, {name: z3.IntVal(1)})

    def O(self):
        return GPt(self, {})

    def atom_term(self, name):
        return z3.Const(f"{self.name}.{name}", PtSort)


def _simp(t):
    return z3.simplify(t)


class GPt(SymTruth):
    """some valid representative of the abstract point  sum lin[a] . a"""

    def __init__(self, grp, lin):
        self.grp = grp
        self.lin = {}
        for a, c in lin.items():
            c = _simp(c)
            if z3.is_int_value(c) and c.as_long() == 0:
                continue
            self.lin[a] = c

    # ---- module operations -------------------------------------------------------------
    def add(self, o):
        lin = dict(self.lin)
        for a, c in o.lin.items():
            lin[a] = lin[a] + c if a in lin else c
        return GPt(self.grp, lin)

    def neg(self):
        return GPt(self.grp, {a: -c for a, c in self.lin.items()})

    def smul(self, k):
        kt = zt(k)
        return GPt(self.grp, {a: kt * c for a, c in self.lin.items()})

    def sub(self, o):
        return self.add(o.neg())

    # ---- observations --------------------------------------------------------------------
    def term(self):
        t = None
        for a in sorted(self.lin):
            s = _smul(self.lin[a], self.grp.atom_term(a))
            t = s if t is None else _gadd(t, s)
        return t if t is not None else _Oconst

    def is_O_formula(self):
        """z3 formula for 'this point is the identity'"""
        if not self.lin:
            return z3.BoolVal(True)
        if len(self.lin) == 1:
            (a, c), = self.lin.items()
            info = self.grp.atoms[a]
            if info["order"] is not None and info["nonzero"]:
                # prime order r, a != O :  c.a = O  <=>  r | c      (lean: zsmul_eq_zero_iff_dvd)
                return c % info["order"] == 0
        f = _isO(self.term())
        p = cur()
        allzero = z3.And([z3.Or(c == 0, _isO(_smul(z3.IntVal(1), self.grp.atom_term(a))))
                          for a, c in self.lin.items()])
        p.zc.append(z3.Implies(allzero, f))          # 0.a = O,  k.O = O,  O (+) O = O
        return f

    def is_O(self):
        return ZAtom(_simp(self.is_O_formula()))

    def equals(self, o):
        return self.sub(o).is_O()

    def truth(self, interp):
        if self.grp.style == "none":
            return interp.truth(~self.is_O())      # None is falsy
        return True         # a tuple is truthy

    def is_none(self, interp):
        if self.grp.style == "none":
            return self.is_O()
        return False

    # ---- the little bit of coordinate access group-level code performs ---------------------
    def sym_getitem(self, interp, idx):
        if isinstance(idx, slice):
            raise Unsupported("slice of an abstract point")
        return GCoord(self, idx)

    def __repr__(self):
        return "GPt(" + " + ".join(f"{c}.{a}" for a, c in sorted(self.lin.items())) + ")"


class CoordMarker:
    """`pt[0].one()` / `.zero()` of an abstract point: only usable to build the identity"""

    def __init__(self, grp, which):
        self.grp, self.which = grp, which

    def __repr__(self):
        return f"<{self.which}>"


class GCoord:
    def __init__(self, pt, idx):
        self.pt, self.idx = pt, idx

    def sym_getattr(self, interp, name):
        from .interp import Builtin
        if name == "one":
            return Builtin("one", lambda i: CoordMarker(self.pt.grp, "one"))
        if name == "zero":
            return Builtin("zero", lambda i: CoordMarker(self.pt.grp, "zero"))
        if name == "__class__":
            return _CoordClass(self.pt.grp)
        raise Unsupported(f"coordinate attribute {name} of an abstract point (group-level code must go through "
                          f"the curve functions' contracts)")

    def sym_type(self, interp):
        cc = self.pt.grp.coord_cls
        if cc is None:
            raise Unsupported("type() of a coordinate of an abstract point whose field class is not fixed")
        return cc

    def sym_isinstance(self, interp, t):
        from .interp import ClassVal
        cc = self.pt.grp.coord_cls
        if cc is None or not isinstance(t, ClassVal):
            raise Unsupported("type test on a coordinate of an abstract point whose field class is not fixed")
        return cc.is_subclass(t)

    def _is_marker_coord(self):
        st = self.pt.grp.style
        n = 3 if st in ("proj", "jac") else 2
        i = self.idx if self.idx >= 0 else self.idx + n
        return (st == "proj" and i == 2) or (st == "jac" and i == 1)

    def __pow__(self, k):
        # Q[i] ** field_modulus: the Frobenius image of a coordinate (only meaningful as part of a whole point)
        return FrobCoord(self.pt, self.idx, 1, k, False)

    def __eq__(self, o):
        zero = (isinstance(o, int) and not isinstance(o, bool) and o == 0) or \
               (isinstance(o, CoordMarker) and o.which == "zero")
        if zero and self._is_marker_coord():
            return self.pt.is_O()
        raise Unsupported("comparison of a coordinate of an abstract point")

    def __ne__(self, o):
        return ~self.__eq__(o)

    __hash__ = None


class FrobCoord:
    """(pt[idx]) ** (q ** times), possibly negated: a coordinate of pi^times(pt) resp. of its negative"""

    def __init__(self, pt, idx, times, q, negated):
        self.pt, self.idx, self.times, self.q, self.negated = pt, idx, times, q, negated

    def __pow__(self, k):
        if k != self.q or self.negated:
            raise Unsupported("Frobenius powers with different exponents / of a negated coordinate")
        return FrobCoord(self.pt, self.idx, self.times + 1, self.q, False)

    def __neg__(self):
        return FrobCoord(self.pt, self.idx, self.times, self.q, not self.negated)


def frob_point(v):
    """(pt, times, q, negated?) if the tuple v is (x^(q^k), +-y^(q^k)[, z^(q^k)]) of one abstract point, else None"""
    if not (isinstance(v, tuple) and len(v) in (2, 3) and all(isinstance(c, FrobCoord) for c in v)):
        return None
    pt, times, q = v[0].pt, v[0].times, v[0].q
    if any(c.pt is not pt or c.times != times or c.q != q for c in v) or [c.idx for c in v] != list(range(len(v))):
        return None
    negs = [c.negated for c in v]
    if negs[0] or (len(v) == 3 and negs[2]):
        return None
    return pt, times, q, negs[1]


class _CoordClass:
    def __init__(self, grp):
        self.grp = grp

    def sym_getattr(self, interp, name):
        from .interp import Builtin
        if name in ("one", "zero"):
            return Builtin(name, lambda i: CoordMarker(self.grp, name))
        raise Unsupported(f"class attribute {name} of an abstract coordinate")


def abs_of(grp, v):
    """abstract point denoted by a representation value built by group-level code"""
    if isinstance(v, GPt):
        if v.grp is not grp:
            raise Unsupported("point of another group")
        return v
    st = grp.style
    if st == "none" and v is None:
        return grp.O()
    if st == "proj" and isinstance(v, tuple) and len(v) == 3:
        z = v[2]
        if isinstance(z, CoordMarker) and z.which == "zero":
            return grp.O()
    if st == "jac" and isinstance(v, tuple) and len(v) == 3:
        if all(isinstance(c, int) and not isinstance(c, bool) for c in v) and v[0] == 0 and v[1] == 0:
            return grp.O()
    if st == "aff00" and isinstance(v, tuple) and len(v) == 2:
        if all(isinstance(c, int) and not isinstance(c, bool) for c in v) and v[0] == 0 and v[1] == 0:
            return grp.O()
    raise Unsupported(f"value {v!r} is not a recognisable representation in group {grp.name} ({st})")


def prove_same(path, name, got, want, detail=""):
    """obligation: two abstract points are equal, by equality of their module normal forms"""
    atoms = sorted(set(got.lin) | set(want.lin))
    if not atoms:
        return path.prove(name, True, detail=detail + " (both O)")
    zero = z3.IntVal(0)
    ok = True
    for a in atoms:
        c1, c2 = got.lin.get(a, zero), want.lin.get(a, zero)
        info = got.grp.atoms[a]
        if info["order"] is not None:
            goal = (c1 - c2) % info["order"] == 0
        else:
            # equal coefficients, or the atom is the identity on this path (k.O = O for every k)
            goal = z3.Or(c1 == c2, _isO(_smul(z3.IntVal(1), got.grp.atom_term(a))))
        ok = path.prove(name, ZAtom(goal), detail=f"{detail} coefficient of {a}: {_simp(c1)} vs {_simp(c2)}") and ok
    return ok
