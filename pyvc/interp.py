"""Source-level symbolic executor for the Python subset py_ecc uses (DESIGN §2.2, §2.3).

The executor re-reads the real source from the repository working tree on every run, never a
copy.  Calls to functions that have a contract are replaced by the contract (modular
verification); un-contracted repository functions are inlined.
"""
from __future__ import annotations

import ast
import math
import operator
import os

import z3

from . import core
from .core import (Unsupported, PathAbort, FAtom, ZAtom, Fld, FldKind, cur)
from .sym import (SInt, SBytes, Ratio, zt, sdivmod, spowmod, os2ip_sym, i2osp_sym, implied,
                  bytes_const, is_intlike)

REPO = os.environ.get("PY_ECC_REPO", "/repo")


# ------------------------------------------------------------------------------------------
# program / module tables
# ------------------------------------------------------------------------------------------
class ModuleInfo:
    def __init__(self, name, path, tree, is_pkg):
        self.name, self.path, self.tree, self.is_pkg = name, path, tree, is_pkg
        self.funcs, self.classes, self.assigns, self.imports = {}, {}, {}, {}
        self.cache = {}
        self._scan(tree.body)
        self.runtime_written = self._runtime_written(tree)

    def _runtime_written(self, tree):
        """module-level names that some function of the module assigns (global statement) or mutates in place at run time: their
        value is not a constant of the module but depends on the call history"""
        from .alpha import function_locals
        from .loops import _MUTATORS
        out = set()
        for fn in ast.walk(tree):
            if not isinstance(fn, (ast.FunctionDef, ast.AsyncFunctionDef)):
                continue
            glob = set()
            for n in ast.walk(fn):
                if isinstance(n, ast.Global):
                    glob.update(n.names)
            out |= glob
            local = set(function_locals(fn)) - glob

            def base(e):
                while isinstance(e, (ast.Subscript, ast.Attribute)):
                    e = e.value
                return e.id if isinstance(e, ast.Name) else None
            for n in ast.walk(fn):
                b = None
                if isinstance(n, ast.Subscript) and isinstance(n.ctx, (ast.Store, ast.Del)):
                    b = base(n)
                elif isinstance(n, ast.Call) and isinstance(n.func, ast.Attribute) and n.func.attr in _MUTATORS \
                        and isinstance(n.func.value, ast.Name):
                    b = n.func.value.id
                if b and b not in local and b in self.assigns:
                    out.add(b)
        return out

    def _scan(self, body):
        for st in body:
            if isinstance(st, ast.FunctionDef):
                self.funcs[st.name] = st
            elif isinstance(st, ast.ClassDef):
                self.classes[st.name] = st
            elif isinstance(st, ast.Assign):
                for tg in st.targets:
                    self._bind_target(tg, st.value, None)
            elif isinstance(st, ast.AnnAssign) and st.value is not None:
                self._bind_target(st.target, st.value, None)
            elif isinstance(st, ast.ImportFrom):
                mod = self._absmod(st.module, st.level)
                for a in st.names:
                    self.imports[a.asname or a.name] = (mod, a.name)
            elif isinstance(st, ast.Import):
                for a in st.names:
                    self.imports[a.asname or a.name.split(".")[0]] = (a.name if a.asname else a.name.split(".")[0], None)
            elif isinstance(st, ast.If):
                # `if TYPE_CHECKING:` blocks are dropped; other module-level ifs are sanity checks
                t = st.test
                if isinstance(t, ast.Name) and t.id == "TYPE_CHECKING":
                    continue

    def _bind_target(self, tg, value, idx):
        if isinstance(tg, ast.Name):
            self.assigns[tg.id] = (value, idx)
        elif isinstance(tg, (ast.Tuple, ast.List)):
            for i, e in enumerate(tg.elts):
                if isinstance(e, ast.Name):
                    self.assigns[e.id] = (value, i if idx is None else (idx, i))

    def _absmod(self, module, level):
        if level == 0:
            return module
        parts = self.name.split(".")
        if not self.is_pkg:
            parts = parts[:-1]
        parts = parts[: len(parts) - (level - 1)]
        return ".".join(parts + ([module] if module else []))


# {qualified function name: {new local name: recorded name}}: set by the unit runner for a second attempt on an
# alpha-equivalent copy (pyvc/alpha.py); empty in the first attempt
ALPHA = {}


class Program:
    def __init__(self, root=None):
        self.root = root or REPO
        self.modules = {}
        self.sources = {}

    def load(self, name):
        if name in self.modules:
            return self.modules[name]
        rel = name.replace(".", "/")
        for cand, pkg in ((f"{self.root}/{rel}.py", False), (f"{self.root}/{rel}/__init__.py", True)):
            if os.path.exists(cand):
                src = open(cand).read()
                self.sources[cand] = src
                tree = ast.parse(src, cand)
                if ALPHA:
                    from .alpha import apply as _alpha_apply
                    _alpha_apply(tree, name, ALPHA)
                mi = ModuleInfo(name, cand, tree, pkg)
                self.modules[name] = mi
                return mi
        raise Unsupported(f"module {name} not found under {self.root}")

    def is_repo_module(self, name):
        return name == "py_ecc" or name.startswith("py_ecc.")


# ------------------------------------------------------------------------------------------
# runtime values
# ------------------------------------------------------------------------------------------
class FuncVal:
    def __init__(self, mod, node, cls=None):
        self.mod, self.node, self.cls = mod, node, cls
        self.decorators = [_dec_name(d) for d in node.decorator_list]

    @property
    def qualname(self):
        if self.cls is not None:
            return f"{self.cls.mod.name}.{self.cls.name}.{self.node.name}"
        return f"{self.mod.name}.{self.node.name}"

    def __repr__(self):
        return f"<func {self.qualname}>"


def _dec_name(d):
    if isinstance(d, ast.Name):
        return d.id
    if isinstance(d, ast.Attribute):
        return d.attr
    if isinstance(d, ast.Call):
        return _dec_name(d.func)
    return "?"


def _is_symbolic_value(v):
    """values of the engine that stand for unknown Python objects (points, coordinates, field elements, symbolic ints/bytes)"""
    if isinstance(v, (Fld, SInt, SBytes)):
        return True
    return type(v).__module__.startswith("pyvc.") and type(v).__name__ in ("GPt", "GCoord", "FrobCoord", "SAny", "BPoint", "GTVal", "SgnVal", "CoordMarker",
                                                                           "SymBytesList", "SymListZip", "SymSetOf")


class ClassVal:
    def __init__(self, name, mod, node, bases, attrs=None):
        self.name, self.mod, self.node, self.bases = name, mod, node, bases
        self.attrs = attrs if attrs is not None else {}
        self._mro = None

    def mro(self):
        if self._mro is None:
            self._mro = _c3(self)
        return self._mro

    def lookup(self, name):
        for c in self.mro():
            if isinstance(c, ClassVal) and name in c.attrs:
                return c.attrs[name], c
        return None, None

    def is_subclass(self, other):
        return other in self.mro()

    def __repr__(self):
        return f"<class {self.mod.name if self.mod else '?'}.{self.name}>"


def _c3(cls):
    seqs = [list(b.mro()) if isinstance(b, ClassVal) else [b] for b in cls.bases] + [list(cls.bases)]
    res = [cls]
    seqs = [s for s in seqs if s]
    while seqs:
        for s in seqs:
            h = s[0]
            if not any(h in t[1:] for t in seqs):
                break
        else:
            raise Unsupported("inconsistent MRO")
        res.append(h)
        seqs = [[x for x in s if x is not h] for s in seqs]
        seqs = [s for s in seqs if s]
    return res


class Obj:
    def __init__(self, cls):
        self.cls = cls
        self.attrs = {}

    def __repr__(self):
        return f"<{self.cls.name} {self.attrs}>"


class BoundMethod:
    def __init__(self, func, recv):
        self.func, self.recv = func, recv


class Builtin:
    def __init__(self, name, fn):
        self.name, self.fn = name, fn

    def __repr__(self):
        return f"<builtin {self.name}>"


class PyRaise(Exception):
    """a Python-level exception raised by the interpreted program"""

    def __init__(self, exc_cls, msg=""):
        self.exc_cls = exc_cls
        self.msg = msg


class ValidationError(Exception):
    """stand-in for eth_utils.ValidationError (derives from Exception; closed fact checked by eval)"""


class _Return(Exception):
    def __init__(self, v):
        self.v = v


class _Break(Exception):
    pass


class _Continue(Exception):
    pass


class Frame:
    def __init__(self, mod, env, func=None, cls=None, recv=None):
        self.mod, self.env, self.func, self.cls, self.recv = mod, env, func, cls, recv
        self.loop_ordinal = 0


class NewTypeFn:
    """typing.NewType wrappers (BLSPubkey, G1Compressed ...) and typing.cast are dropped"""

    def __init__(self, name):
        self.name = name


EXC_CLASSES = {n: getattr(__import__("builtins"), n) for n in
               ["Exception", "ValueError", "TypeError", "AttributeError", "OverflowError",
                "AssertionError", "NotImplementedError", "IndexError", "ZeroDivisionError",
                "RecursionError", "KeyError", "ArithmeticError", "LookupError", "RuntimeError"]}
EXC_CLASSES["ValidationError"] = ValidationError


# ------------------------------------------------------------------------------------------
# interpreter
# ------------------------------------------------------------------------------------------
class Config:
    """what the current verification run wants from the executor"""

    def __init__(self):
        self.contracts = {}        # qualname -> object with .apply(interp, args: dict, fv)
        self.globals = {}          # (module name, global name) -> value override
        self.loops = {}            # (qualname, ordinal) -> loop contract
        self.externs = {}          # (module, name) -> value for non-repo imports
        self.top = None            # qualname being verified (its body is executed, not its contract)
        self.max_depth = 12
        self.concrete_hashes = False
        self.on_call = None        # hook(qualname, args) for observation


class Interp:
    def __init__(self, program, config):
        self.prog = program
        self.cfg = config
        self.depth = 0
        self.call_stack = []

    # ---- name resolution -----------------------------------------------------------------
    def module_value(self, mod, name, seen=()):
        key = (mod.name, name)
        if key in self.cfg.globals:
            return self.cfg.globals[key]
        if name in mod.runtime_written:
            raise Unsupported(f"module-level variable {mod.name}.{name} is assigned or mutated by a function at run time: its value "
                              "depends on the call history and is not a constant of the module")
        if name in mod.cache:
            return mod.cache[name]
        if (mod.name, name) in seen:
            raise Unsupported(f"cyclic module constant {mod.name}.{name}")
        if name in mod.funcs:
            v = FuncVal(mod, mod.funcs[name])
        elif name in mod.classes:
            v = self.make_class(mod, mod.classes[name])
        elif name in mod.assigns:
            node, idx = mod.assigns[name]
            fr = Frame(mod, {})
            v = self.eval(node, fr)
            if idx is not None:
                for i in (idx if isinstance(idx, tuple) else (idx,)):
                    v = v[i]
        elif name in mod.imports:
            src, orig = mod.imports[name]
            v = self.import_value(src, orig, seen + ((mod.name, name),))
        else:
            raise Unsupported(f"name {name} not found in module {mod.name}")
        mod.cache[name] = v
        return v

    def import_value(self, src, orig, seen=()):
        if (src, orig) in self.cfg.externs:
            return self.cfg.externs[(src, orig)]
        if self.prog.is_repo_module(src):
            if orig is None:
                return ("module", self.prog.load(src))
            m = self.prog.load(src)
            if orig in m.funcs or orig in m.classes or orig in m.assigns or orig in m.imports \
                    or (m.name, orig) in self.cfg.globals:
                return self.module_value(m, orig, seen)
            # submodule import:  from py_ecc import bls
            return ("module", self.prog.load(f"{src}.{orig}"))
        return self.extern_value(src, orig)

    def extern_value(self, src, orig):
        from . import pymodel
        return pymodel.extern(self, src, orig)

    def make_class(self, mod, node):
        bases = []
        fr = Frame(mod, {})
        for b in node.bases:
            bv = self.eval(b, fr)
            bases.append(bv)
        cv = ClassVal(node.name, mod, node, bases)
        mod.cache[node.name] = cv
        for st in node.body:
            if isinstance(st, ast.FunctionDef):
                cv.attrs[st.name] = FuncVal(mod, st, cv)
            elif isinstance(st, ast.Assign):
                val = self.eval(st.value, Frame(mod, dict(cv.attrs)))
                for tg in st.targets:
                    if isinstance(tg, ast.Name):
                        cv.attrs[tg.id] = val
            elif isinstance(st, ast.AnnAssign):
                if st.value is not None and isinstance(st.target, ast.Name):
                    cv.attrs[st.target.id] = self.eval(st.value, Frame(mod, dict(cv.attrs)))
            elif isinstance(st, ast.Expr) and isinstance(st.value, ast.Constant):
                pass  # docstring / Ellipsis
            elif isinstance(st, ast.Pass):
                pass
            else:
                raise Unsupported(f"class body statement {type(st).__name__} in {node.name}")
        return cv

    def lookup(self, name, fr):
        if name in fr.env:
            return fr.env[name]
        m = fr.mod
        if name in m.funcs or name in m.classes or name in m.assigns or name in m.imports \
                or (m.name, name) in self.cfg.globals:
            return self.module_value(m, name)
        from . import pymodel
        if name in pymodel.BUILTINS:
            return pymodel.BUILTINS[name]
        if name in EXC_CLASSES:
            return EXC_CLASSES[name]
        raise Unsupported(f"unbound name {name} in {m.name}")

    # ---- truthiness ------------------------------------------------------------------------
    def truth(self, v, label=None):
        if isinstance(v, bool):
            return v
        if v is None:
            return False
        if isinstance(v, (FAtom, ZAtom)):
            return cur().case(v, label)
        if isinstance(v, SInt):
            return cur().case(ZAtom(v.t != 0), label)
        if isinstance(v, Fld):
            return bool(v)
        if isinstance(v, SBytes):
            return cur().case(ZAtom(z3.Length(v.t) != 0), label)
        if isinstance(v, Obj):
            f, _ = v.cls.lookup("__bool__")
            if f is not None:
                return self.truth(self.call_value(BoundMethod(f, v), [], {}))
            f, _ = v.cls.lookup("__len__")
            if f is not None:
                return self.truth(self.call_value(BoundMethod(f, v), [], {}))
            return True
        if isinstance(v, (int, float, str, bytes, bytearray, tuple, list, dict, set, range)):
            return bool(v)
        if isinstance(v, (FuncVal, ClassVal, BoundMethod, Builtin, FldKind)):
            return True
        from .pymodel import SymTruth
        if isinstance(v, SymTruth):
            return v.truth(self)
        raise Unsupported(f"truth value of {type(v).__name__}")

    # ---- statements ------------------------------------------------------------------------
    def exec_block(self, body, fr):
        for st in body:
            self.exec(st, fr)

    def exec(self, st, fr):
        m = getattr(self, "s_" + type(st).__name__, None)
        if m is None:
            raise Unsupported(f"outside-subset: {fr.mod.path}:{st.lineno} statement {type(st).__name__}")
        return m(st, fr)

    def s_Expr(self, st, fr):
        self.eval(st.value, fr)

    def s_Pass(self, st, fr):
        pass

    def s_Return(self, st, fr):
        raise _Return(self.eval(st.value, fr) if st.value is not None else None)

    def s_Break(self, st, fr):
        raise _Break()

    def s_Continue(self, st, fr):
        raise _Continue()

    def s_Assign(self, st, fr):
        v = self.eval(st.value, fr)
        for tg in st.targets:
            self.assign(tg, v, fr)

    def s_AnnAssign(self, st, fr):
        if st.value is not None:
            self.assign(st.target, self.eval(st.value, fr), fr)

    def s_AugAssign(self, st, fr):
        tg = st.target
        if isinstance(tg, ast.Name):
            cur_v = self.lookup(tg.id, fr)
        elif isinstance(tg, ast.Subscript):
            cont = self.eval(tg.value, fr)
            idx = self.eval_index(tg.slice, fr)
            cur_v = self.getitem(cont, idx)
        elif isinstance(tg, ast.Attribute):
            cur_v = self.getattr(self.eval(tg.value, fr), tg.attr)
        else:
            raise Unsupported("augmented assignment target")
        rhs = self.eval(st.value, fr)
        if isinstance(cur_v, list) and isinstance(st.op, ast.Add):
            cur_v.extend(rhs)          # list += is in place
            return
        nv = self.binop(st.op, cur_v, rhs)
        if isinstance(tg, ast.Name):
            fr.env[tg.id] = nv
        elif isinstance(tg, ast.Subscript):
            self.setitem(cont, idx, nv)
        else:
            self.setattr(self.eval(tg.value, fr), tg.attr, nv, fr)

    def assign(self, tg, v, fr):
        if isinstance(tg, ast.Name):
            fr.env[tg.id] = v
        elif isinstance(tg, (ast.Tuple, ast.List)):
            items = self.iterate(v)
            if len(items) != len(tg.elts):
                raise PyRaise(ValueError, "unpack")
            for e, x in zip(tg.elts, items):
                self.assign(e, x, fr)
        elif isinstance(tg, ast.Attribute):
            self.setattr(self.eval(tg.value, fr), tg.attr, v, fr)
        elif isinstance(tg, ast.Subscript):
            self.setitem(self.eval(tg.value, fr), self.eval_index(tg.slice, fr), v)
        else:
            raise Unsupported(f"assignment target {type(tg).__name__}")

    def setattr(self, o, name, v, fr):
        if isinstance(o, Obj):
            o.attrs[name] = v
            return
        raise Unsupported(f"attribute store on {type(o).__name__}")

    def setitem(self, cont, idx, v):
        if isinstance(cont, list):
            if isinstance(idx, (SInt,)):
                raise Unsupported("store at symbolic index")
            try:
                cont[idx] = v
            except IndexError:
                raise PyRaise(IndexError)
            return
        raise Unsupported(f"item store on {type(cont).__name__}")

    def s_If(self, st, fr):
        c = self.eval(st.test, fr)
        if self.truth(c, _lbl(st.test)):
            self.exec_block(st.body, fr)
        else:
            self.exec_block(st.orelse, fr)

    def s_Raise(self, st, fr):
        if st.exc is None:
            raise Unsupported("bare raise")
        e = st.exc
        if isinstance(e, ast.Call):
            cls = self.eval(e.func, fr)     # message arguments are dropped (DESIGN 2.2)
        else:
            cls = self.eval(e, fr)
        if not (isinstance(cls, type) and issubclass(cls, BaseException)):
            raise Unsupported(f"raise of {cls!r}")
        raise PyRaise(cls)

    def s_Try(self, st, fr):
        if st.finalbody:
            raise Unsupported("try/finally")
        try:
            self.exec_block(st.body, fr)
        except PyRaise as pr:
            for h in st.handlers:
                if h.type is None:
                    classes = (BaseException,)
                else:
                    t = self.eval(h.type, fr)
                    classes = tuple(t) if isinstance(t, (tuple, list)) else (t,)
                if issubclass(pr.exc_cls, classes):
                    if h.name:
                        fr.env[h.name] = pr
                    self.exec_block(h.body, fr)
                    return
            raise
        else:
            self.exec_block(st.orelse, fr)

    def s_Assert(self, st, fr):
        if not self.truth(self.eval(st.test, fr), _lbl(st.test)):
            raise PyRaise(AssertionError)

    def _loop_key(self, fr, st):
        """loops are keyed by their ordinal in source order within the function (not by line)"""
        q = fr.func.qualname if fr.func else fr.mod.name
        if fr.func is None:
            return (q, -1)
        node = fr.func.node
        tab = getattr(node, "_loop_ordinals", None)
        if tab is None:
            tab = {}
            for n in ast.walk(node):
                pass
            k = 0
            stack = [node]
            # pre-order, source order
            def visit(n):
                nonlocal k
                for ch in ast.iter_child_nodes(n):
                    if isinstance(ch, (ast.While, ast.For)):
                        tab[id(ch)] = k
                        k += 1
                    if not isinstance(ch, (ast.FunctionDef, ast.ClassDef, ast.Lambda)):
                        visit(ch)
            visit(node)
            node._loop_ordinals = tab
        return (q, tab.get(id(st), -1))

    def s_While(self, st, fr):
        key = self._loop_key(fr, st)
        lc = self.cfg.loops.get(key)
        if lc is not None:
            return lc.run_while(self, st, fr)
        n = 0
        while True:
            if not self.truth(self.eval(st.test, fr), _lbl(st.test)):
                break
            n += 1
            if n > 100000:
                raise Unsupported("unbounded concrete loop")
            try:
                self.exec_block(st.body, fr)
            except _Break:
                return
            except _Continue:
                continue
        self.exec_block(st.orelse, fr)

    def s_For(self, st, fr):
        key = self._loop_key(fr, st)
        lc = self.cfg.loops.get(key)
        if lc is not None:
            return lc.run_for(self, st, fr)
        it = self.eval(st.iter, fr)
        items = self.iterate(it)
        for x in items:
            self.assign(st.target, x, fr)
            try:
                self.exec_block(st.body, fr)
            except _Break:
                return
            except _Continue:
                continue
        self.exec_block(st.orelse, fr)

    def s_FunctionDef(self, st, fr):
        fr.env[st.name] = FuncVal(fr.mod, st)

    def s_Import(self, st, fr):
        raise Unsupported("import inside a function")

    # ---- iteration -------------------------------------------------------------------------
    def iterate(self, v):
        if isinstance(v, (list, tuple, range, str, bytes, bytearray, dict, set)):
            return list(v)
        from .pymodel import SymIter
        if isinstance(v, SymIter):
            return v.items(self)
        if isinstance(v, Obj):
            raise Unsupported(f"iteration over {v.cls.name}")
        if hasattr(v, "__iter__") and not isinstance(v, (SInt, SBytes, Fld)):
            return list(v)
        raise Unsupported(f"iteration over {type(v).__name__} (needs a loop contract)")

    # ---- expressions -----------------------------------------------------------------------
    def eval(self, e, fr):
        m = getattr(self, "e_" + type(e).__name__, None)
        if m is None:
            raise Unsupported(f"outside-subset: {fr.mod.path}:{getattr(e, 'lineno', '?')} expression {type(e).__name__}")
        return m(e, fr)

    def e_Constant(self, e, fr):
        return e.value

    def e_Name(self, e, fr):
        return self.lookup(e.id, fr)

    def e_Tuple(self, e, fr):
        return tuple(self.eval(x, fr) for x in e.elts)

    def e_List(self, e, fr):
        return [self.eval(x, fr) for x in e.elts]

    def e_Dict(self, e, fr):
        return {self.eval(k, fr): self.eval(v, fr) for k, v in zip(e.keys, e.values)}

    def e_JoinedStr(self, e, fr):
        return "<f-string>"

    def e_IfExp(self, e, fr):
        if self.truth(self.eval(e.test, fr), _lbl(e.test)):
            return self.eval(e.body, fr)
        return self.eval(e.orelse, fr)

    def e_BoolOp(self, e, fr):
        v = None
        for i, x in enumerate(e.values):
            v = self.eval(x, fr)
            if i == len(e.values) - 1:
                return v
            t = self.truth(v, _lbl(x))
            if isinstance(e.op, ast.And) and not t:
                return v if not isinstance(v, (FAtom, ZAtom)) else False
            if isinstance(e.op, ast.Or) and t:
                return v if not isinstance(v, (FAtom, ZAtom)) else True
        return v

    def e_UnaryOp(self, e, fr):
        v = self.eval(e.operand, fr)
        if isinstance(e.op, ast.Not):
            if isinstance(v, (FAtom, ZAtom)):
                return ~v
            return not self.truth(v, _lbl(e.operand))
        if isinstance(e.op, ast.USub):
            if isinstance(v, Obj):
                return self.call_method(v, "__neg__", [])
            return -v
        if isinstance(e.op, ast.UAdd):
            return +v
        raise Unsupported("unary operator")

    def e_BinOp(self, e, fr):
        a = self.eval(e.left, fr)
        b = self.eval(e.right, fr)
        return self.binop(e.op, a, b)

    _OPS = {ast.Add: ("__add__", "__radd__", operator.add), ast.Sub: ("__sub__", "__rsub__", operator.sub),
            ast.Mult: ("__mul__", "__rmul__", operator.mul), ast.Div: ("__truediv__", "__rtruediv__", operator.truediv),
            ast.FloorDiv: ("__floordiv__", "__rfloordiv__", operator.floordiv),
            ast.Mod: ("__mod__", "__rmod__", operator.mod), ast.Pow: ("__pow__", "__rpow__", operator.pow),
            ast.LShift: ("__lshift__", "__rlshift__", operator.lshift), ast.RShift: ("__rshift__", "__rrshift__", operator.rshift),
            ast.BitAnd: ("__and__", "__rand__", operator.and_), ast.BitOr: ("__or__", "__ror__", operator.or_),
            ast.BitXor: ("__xor__", "__rxor__", operator.xor)}

    def binop(self, op, a, b):
        d, r, f = self._OPS[type(op)]
        if isinstance(a, Obj):
            m, _ = a.cls.lookup(d)
            if m is not None:
                return self.call_value(BoundMethod(m, a), [b], {})
            if isinstance(b, Obj):
                m, _ = b.cls.lookup(r)
                if m is not None:
                    return self.call_value(BoundMethod(m, b), [a], {})
            raise PyRaise(TypeError, f"unsupported operand {d}")
        if isinstance(b, Obj):
            m, _ = b.cls.lookup(r)
            if m is not None:
                return self.call_value(BoundMethod(m, b), [a], {})
            raise PyRaise(TypeError, f"unsupported operand {r}")
        from .pymodel import host_binop
        return host_binop(self, op, f, a, b)

    def e_Compare(self, e, fr):
        left = self.eval(e.left, fr)
        res = None
        for i, (op, rn) in enumerate(zip(e.ops, e.comparators)):
            right = self.eval(rn, fr)
            res = self.compare(op, left, right)
            if i < len(e.ops) - 1:
                if not self.truth(res):
                    return False
            left = right
        return res

    def compare(self, op, a, b):
        if isinstance(op, ast.Is):
            return self.identical(a, b)
        if isinstance(op, ast.IsNot):
            return not self.identical(a, b)
        if isinstance(op, (ast.In, ast.NotIn)):
            r = self.contains(b, a)
            if isinstance(op, ast.NotIn):
                return (~r) if isinstance(r, (FAtom, ZAtom)) else (not r)
            return r
        name = {ast.Eq: "__eq__", ast.NotEq: "__ne__", ast.Lt: "__lt__", ast.LtE: "__le__",
                ast.Gt: "__gt__", ast.GtE: "__ge__"}[type(op)]
        refl = {"__eq__": "__eq__", "__ne__": "__ne__", "__lt__": "__gt__", "__le__": "__ge__",
                "__gt__": "__lt__", "__ge__": "__le__"}[name]
        if isinstance(a, Obj):
            return self.obj_compare(a, name, b)
        if isinstance(b, Obj):
            return self.obj_compare(b, refl, a)
        from .pymodel import host_compare
        return host_compare(self, name, a, b)

    def obj_compare(self, a, name, b):
        m, _ = a.cls.lookup(name)
        if m is not None:
            return self.call_value(BoundMethod(m, a), [b], {})
        if name == "__ne__":
            r = self.obj_compare(a, "__eq__", b)
            return (~r) if isinstance(r, (FAtom, ZAtom)) else (not self.truth(r))
        if name == "__eq__":
            return a is b
        # functools.total_ordering, derived from __lt__
        lt, _ = a.cls.lookup("__lt__")
        if lt is not None and "total_ordering" in [_dec_name(d) for d in a.cls.mro()[-1].node.decorator_list] + \
                [_dec_name(d) for c in a.cls.mro() if isinstance(c, ClassVal) for d in c.node.decorator_list]:
            less = self.call_value(BoundMethod(lt, a), [b], {})
            if name == "__gt__":      # not (a < b) and a != b
                if self.truth(less):
                    return False
                return self.obj_compare(a, "__ne__", b)
            if name == "__le__":      # a < b or a == b
                if self.truth(less):
                    return True
                return self.obj_compare(a, "__eq__", b)
            if name == "__ge__":
                return not self.truth(less)
        raise PyRaise(TypeError, f"unsupported comparison {name}")

    def identical(self, a, b):
        if a is None or b is None:
            if a is None and b is None:
                return True
            other = b if a is None else a
            from .pymodel import SymTruth
            if isinstance(other, SymTruth) and hasattr(other, "is_none"):
                return other.is_none(self)
            return False
        if isinstance(a, (bool, int)) and isinstance(b, (bool, int)):
            return a is b or (type(a) is type(b) and a == b)
        from .core import FldKind
        for x, y in ((a, b), (b, a)):
            if isinstance(x, FldKind) and x.modulus is None and isinstance(y, ClassVal):
                if hasattr(x, "is_class"):
                    return x.is_class(y)
                raise Unsupported(f"`type(x) is {y.name}` on an abstract field element (the unit must fix the class)")
        if a is not b and (_is_symbolic_value(a) or _is_symbolic_value(b)):
            # two different engine objects may or may not denote the same Python object: never answer `is` by accident
            raise Unsupported(f"identity test (`is`) involving a symbolic value ({type(a).__name__}, {type(b).__name__})")
        return a is b

    def contains(self, cont, x):
        if isinstance(cont, (tuple, list)):
            for y in cont:
                if y is x:
                    return True
                if self.truth(self.compare(ast.Eq(), y, x)):
                    return True
            return False
        if isinstance(cont, range) and isinstance(x, SInt):
            # membership of a symbolic integer in a concrete range is arithmetic, not 255 equality tests
            a, b, st = cont.start, cont.stop, cont.step
            if st > 0:
                t = z3.And(x.t >= a, x.t < b) if st == 1 else z3.And(x.t >= a, x.t < b, (x.t - a) % st == 0)
            else:
                t = z3.And(x.t <= a, x.t > b, (a - x.t) % (-st) == 0)
            return self.truth(ZAtom(t), "in range")
        if isinstance(cont, (set, dict, str, bytes, range)):
            return x in cont
        raise Unsupported(f"membership in {type(cont).__name__}")

    def e_Attribute(self, e, fr):
        o = self.eval(e.value, fr)
        return self.getattr(o, e.attr)

    def getattr(self, o, name):
        if isinstance(o, Obj):
            if name in o.attrs:
                return o.attrs[name]
            if name == "__class__":
                return o.cls
            v, owner = o.cls.lookup(name)
            if owner is None:
                raise PyRaise(AttributeError, name)
            return self.bind(v, o, o.cls)
        if isinstance(o, ClassVal):
            v, owner = o.lookup(name)
            if owner is None:
                if name == "__name__":
                    return o.name
                raise PyRaise(AttributeError, name)
            return self.bind(v, None, o)
        if isinstance(o, tuple) and len(o) == 2 and o[0] == "module":
            return self.module_value(o[1], name)
        from .pymodel import host_getattr
        return host_getattr(self, o, name)

    def bind(self, v, inst, cls):
        if isinstance(v, FuncVal):
            decs = v.decorators
            if "staticmethod" in decs:
                return v
            if "classmethod" in decs:
                return BoundMethod(v, cls)
            if "cached_property" in decs or "property" in decs:
                if inst is None:
                    return v
                return self.call_value(BoundMethod(v, inst), [], {})
            if inst is None:
                return v
            return BoundMethod(v, inst)
        return v

    def hasattr(self, o, name):
        if isinstance(o, Obj):
            return name in o.attrs or o.cls.lookup(name)[1] is not None
        if isinstance(o, ClassVal):
            return o.lookup(name)[1] is not None
        if _is_symbolic_value(o) and not isinstance(o, (SInt, SBytes)):
            # the engine's own object is not the Python object it stands for: never answer hasattr by accident
            raise Unsupported(f"hasattr({type(o).__name__}, {name!r}) on a symbolic value")
        return hasattr(o, name)

    def eval_index(self, s, fr):
        if isinstance(s, ast.Slice):
            return slice(self.eval(s.lower, fr) if s.lower else None,
                         self.eval(s.upper, fr) if s.upper else None,
                         self.eval(s.step, fr) if s.step else None)
        return self.eval(s, fr)

    def e_Subscript(self, e, fr):
        cont = self.eval(e.value, fr)
        idx = self.eval_index(e.slice, fr)
        return self.getitem(cont, idx)

    def getitem(self, cont, idx):
        if isinstance(cont, (tuple, list, str, range)):
            if isinstance(idx, slice):
                if any(isinstance(x, SInt) for x in (idx.start, idx.stop, idx.step)):
                    raise Unsupported("symbolic slice of a concrete sequence")
                return cont[idx]
            if isinstance(idx, SInt):
                raise Unsupported("symbolic index into a concrete sequence")
            if isinstance(idx, bool) or not isinstance(idx, int):
                raise PyRaise(TypeError, "index")
            try:
                return cont[idx]
            except IndexError:
                raise PyRaise(IndexError)
        if isinstance(cont, dict):
            try:
                return cont[idx]
            except KeyError:
                raise PyRaise(KeyError)
        from .pymodel import host_getitem
        return host_getitem(self, cont, idx)

    def e_ListComp(self, e, fr):
        return self.comprehension(e.elt, e.generators, fr)

    def e_GeneratorExp(self, e, fr):
        return self.comprehension(e.elt, e.generators, fr)

    def comprehension(self, elt, gens, fr):
        out = []
        inner = Frame(fr.mod, dict(fr.env), fr.func, fr.cls, fr.recv)

        def rec(i):
            if i == len(gens):
                out.append(self.eval(elt, inner))
                return
            g = gens[i]
            it = self.eval(g.iter, inner)
            from .pymodel import SymIter
            if isinstance(it, SymIter) and i == 0 and len(gens) == 1:
                raise _SymComp(it, g)
            for x in self.iterate(it):
                self.assign(g.target, x, inner)
                if all(self.truth(self.eval(c, inner), _lbl(c)) for c in g.ifs):
                    rec(i + 1)
        try:
            rec(0)
        except _SymComp as sc:
            return sc.it.map_comprehension(self, elt, sc.gen, inner)
        return out

    def e_Call(self, e, fr):
        # super() special form
        if isinstance(e.func, ast.Attribute) and isinstance(e.func.value, ast.Call) and \
                isinstance(e.func.value.func, ast.Name) and e.func.value.func.id == "super" and not e.func.value.args:
            if fr.cls is None or fr.recv is None:
                raise Unsupported("super() outside a method")
            recv = fr.recv
            start_cls = recv.cls if isinstance(recv, Obj) else recv
            mro = start_cls.mro()
            i = mro.index(fr.cls)
            for c in mro[i + 1:]:
                if isinstance(c, ClassVal) and e.func.attr in c.attrs:
                    f = c.attrs[e.func.attr]
                    args = [self.eval(a, fr) for a in e.args]
                    kwargs = {k.arg: self.eval(k.value, fr) for k in e.keywords}
                    if isinstance(f, FuncVal) and "staticmethod" in f.decorators:
                        return self.call_value(f, args, kwargs)
                    return self.call_value(BoundMethod(f, recv), args, kwargs)
            raise PyRaise(AttributeError, e.func.attr)
        f = self.eval(e.func, fr)
        args = []
        for a in e.args:
            if isinstance(a, ast.Starred):
                args.extend(self.iterate(self.eval(a.value, fr)))
            else:
                args.append(self.eval(a, fr))
        kwargs = {}
        for k in e.keywords:
            if k.arg is None:
                raise Unsupported("**kwargs call")
            kwargs[k.arg] = self.eval(k.value, fr)
        return self.call_value(f, args, kwargs)

    def e_Lambda(self, e, fr):
        raise Unsupported("lambda")

    # ---- calls -----------------------------------------------------------------------------
    def call_method(self, obj, name, args):
        m, _ = obj.cls.lookup(name)
        if m is None:
            raise PyRaise(AttributeError, name)
        return self.call_value(BoundMethod(m, obj), args, {})

    def call_value(self, f, args, kwargs):
        if isinstance(f, BoundMethod):
            return self.call_function(f.func, [f.recv] + list(args), kwargs, recv=f.recv)
        if isinstance(f, FuncVal):
            return self.call_function(f, list(args), kwargs)
        if isinstance(f, ClassVal):
            return self.instantiate(f, args, kwargs)
        if isinstance(f, Builtin):
            return f.fn(self, *args, **kwargs)
        if isinstance(f, FldKind):
            return f(*args)
        if isinstance(f, NewTypeFn):
            return args[0]
        if isinstance(f, type) and issubclass(f, BaseException):
            return f
        from .pymodel import host_call
        return host_call(self, f, args, kwargs)

    def instantiate(self, cls, args, kwargs):
        o = Obj(cls)
        init, owner = cls.lookup("__init__")
        if init is not None:
            self.call_function(init, [o] + list(args), kwargs, recv=o)
        elif args or kwargs:
            raise PyRaise(TypeError, "constructor arguments")
        return o

    def bind_args(self, fv, args, kwargs):
        a = fv.node.args
        if a.vararg or a.kwarg or a.posonlyargs:
            raise Unsupported("*args/**kwargs/positional-only parameters")
        names = [x.arg for x in a.args]
        env = {}
        if len(args) > len(names):
            raise PyRaise(TypeError, "too many arguments")
        for n, v in zip(names, args):
            env[n] = v
        for k, v in kwargs.items():
            if k in env:
                raise PyRaise(TypeError, "duplicate argument")
            if k not in names and k not in [x.arg for x in a.kwonlyargs]:
                raise PyRaise(TypeError, f"unexpected keyword {k}")
            env[k] = v
        defaults = a.defaults
        for n, d in zip(names[len(names) - len(defaults):], defaults):
            if n not in env:
                env[n] = self.eval(d, Frame(fv.mod, {}))
        for x, d in zip(a.kwonlyargs, a.kw_defaults):
            if x.arg not in env:
                if d is None:
                    raise PyRaise(TypeError, "missing kw-only argument")
                env[x.arg] = self.eval(d, Frame(fv.mod, {}))
        for n in names:
            if n not in env:
                raise PyRaise(TypeError, f"missing argument {n}")
        return env

    def call_function(self, fv, args, kwargs, recv=None, force_inline=False):
        q = fv.qualname
        env = self.bind_args(fv, args, kwargs)
        if self.cfg.on_call is not None:
            self.cfg.on_call(self, q, env)
        con = self.cfg.contracts.get(q)
        is_top_entry = (q == self.cfg.top and self.depth == 0)
        if con is not None and not is_top_entry and not force_inline:
            path = cur()
            prev, path.in_source = path.in_source, False
            try:
                return con.apply(self, fv, env)
            finally:
                path.in_source = prev
        if self.depth >= self.cfg.max_depth:
            raise Unsupported(f"inlining depth exceeded at {q}")
        if any(d not in ("staticmethod", "classmethod", "abstractmethod", "cached_property", "property",
                         "total_ordering") for d in fv.decorators):
            raise Unsupported(f"decorator on {q}: {fv.decorators}")
        fr = Frame(fv.mod, env, fv, fv.cls, recv if recv is not None else (args[0] if fv.cls and args else None))
        self.depth += 1
        self.call_stack.append(q)
        path = cur()
        prev, path.in_source = path.in_source, True
        try:
            self.exec_block(fv.node.body, fr)
            return None
        except _Return as r:
            return r.v
        finally:
            path.in_source = prev
            self.depth -= 1
            self.call_stack.pop()


class _SymComp(Exception):
    def __init__(self, it, gen):
        self.it, self.gen = it, gen


def _lbl(node):
    try:
        s = ast.unparse(node)
    except Exception:
        s = type(node).__name__
    s = s.replace("\n", " ")
    return s if len(s) <= 48 else s[:45] + "..."
