"""polyid kernel: exact sparse integer polynomials, rational functions with unit
denominators, and a hypothesis context (substitutions / triangular relations / units) that
decides `g = 0` and `g != 0` goals for *every* field of characteristic outside a recorded
finite set of primes (DESIGN 2.4, rules R1-R6).

Nothing here knows about Python source; the symbolic executor (interp.py) and the host-level
spec functions both compute with `Fld` values, whose operators build `Rat`s and whose
comparisons build `FAtom`s.
"""
from __future__ import annotations

import random
from functools import lru_cache

# --------------------------------------------------------------------------------------
# sparse polynomials over Z.  monomial = tuple of (var, exp) sorted by var; var = str
# --------------------------------------------------------------------------------------

_VAR_ORDER = {}          # var -> creation index (for heuristics only)


def _reg(v):
    if v not in _VAR_ORDER:
        _VAR_ORDER[v] = len(_VAR_ORDER)
    return v


def _mmul(a, b):
    if not a:
        return b
    if not b:
        return a
    d = dict(a)
    for v, e in b:
        d[v] = d.get(v, 0) + e
    return tuple(sorted(d.items()))


class Poly:
    __slots__ = ("t", "_h")

    def __init__(self, terms=None):
        self.t = terms if terms is not None else {}
        self._h = None

    # constructors
    @staticmethod
    def const(c):
        c = int(c)
        return Poly({(): c} if c else {})

    @staticmethod
    def var(v):
        _reg(v)
        return Poly({((v, 1),): 1})

    # basic predicates
    def is_zero(self):
        return not self.t

    def is_const(self):
        return not self.t or (len(self.t) == 1 and () in self.t)

    def const_value(self):
        return self.t.get((), 0)

    def vars(self):
        s = set()
        for m in self.t:
            for v, _ in m:
                s.add(v)
        return s

    def nterms(self):
        return len(self.t)

    def __eq__(self, o):
        if isinstance(o, int):
            o = Poly.const(o)
        return isinstance(o, Poly) and self.t == o.t

    def __hash__(self):
        if self._h is None:
            self._h = hash(frozenset(self.t.items()))
        return self._h

    # arithmetic
    def __add__(self, o):
        if isinstance(o, int):
            o = Poly.const(o)
        d = dict(self.t)
        for m, c in o.t.items():
            n = d.get(m, 0) + c
            if n:
                d[m] = n
            else:
                d.pop(m, None)
        return Poly(d)

    __radd__ = __add__

    def __neg__(self):
        return Poly({m: -c for m, c in self.t.items()})

    def __sub__(self, o):
        if isinstance(o, int):
            o = Poly.const(o)
        return self + (-o)

    def __rsub__(self, o):
        return (-self) + o

    def __mul__(self, o):
        if isinstance(o, int):
            if o == 0:
                return Poly()
            return Poly({m: c * o for m, c in self.t.items()})
        a, b = self.t, o.t
        if len(a) < len(b):
            a, b = b, a
        d = {}
        for m2, c2 in b.items():
            for m1, c1 in a.items():
                m = _mmul(m1, m2)
                n = d.get(m, 0) + c1 * c2
                if n:
                    d[m] = n
                else:
                    d.pop(m, None)
        return Poly(d)

    __rmul__ = __mul__

    def __pow__(self, n):
        assert isinstance(n, int) and n >= 0
        r = Poly.const(1)
        b = self
        while n:
            if n & 1:
                r = r * b
            n >>= 1
            if n:
                b = b * b
        return r

    # structure
    def degree(self, v):
        d = 0
        for m in self.t:
            for vv, e in m:
                if vv == v and e > d:
                    d = e
        return d

    def coeffs(self, v):
        """list c[0..deg] of polys with self = sum c[i] v^i"""
        out = {}
        for m, c in self.t.items():
            e = 0
            rest = []
            for vv, ee in m:
                if vv == v:
                    e = ee
                else:
                    rest.append((vv, ee))
            out.setdefault(e, {})[tuple(rest)] = c
        deg = max(out) if out else 0
        return [Poly(out.get(i, {})) for i in range(deg + 1)]

    def content(self):
        from math import gcd
        g = 0
        for c in self.t.values():
            g = gcd(g, c)
        return g

    def primitive(self):
        """(content with sign normalised so that the leading term is positive, primitive part)"""
        if not self.t:
            return 0, self
        g = self.content()
        lead = self.t[max(self.t)]
        if lead < 0:
            g = -g
        return g, Poly({m: c // g for m, c in self.t.items()})

    def subst_num(self, v, n, d):
        """numerator of self[v := n/d] after multiplying by d^deg_v(self)"""
        cs = self.coeffs(v)
        D = len(cs) - 1
        if D == 0:
            return self
        res = Poly()
        npow = [Poly.const(1)]
        dpow = [Poly.const(1)]
        for i in range(D):
            npow.append(npow[-1] * n)
            dpow.append(dpow[-1] * d)
        for i, c in enumerate(cs):
            if c.t:
                res = res + c * npow[i] * dpow[D - i]
        return res

    def eval_mod(self, env, q):
        tot = 0
        for m, c in self.t.items():
            x = c % q
            for v, e in m:
                x = x * pow(env[v], e, q) % q
            tot += x
        return tot % q

    def __repr__(self):
        if not self.t:
            return "0"
        parts = []
        for m in sorted(self.t):
            c = self.t[m]
            mono = "*".join(v if e == 1 else f"{v}^{e}" for v, e in m)
            if not mono:
                parts.append(str(c))
            elif c == 1:
                parts.append(mono)
            elif c == -1:
                parts.append("-" + mono)
            else:
                parts.append(f"{c}*{mono}")
        s = " + ".join(parts).replace("+ -", "- ")
        return s if len(s) < 400 else s[:400] + f"...[{len(self.t)} terms]"


ZERO = Poly()
ONE = Poly.const(1)


def P(x):
    if isinstance(x, Poly):
        return x
    if isinstance(x, int):
        return Poly.const(x)
    if isinstance(x, str):
        return Poly.var(x)
    raise TypeError(x)


# --------------------------------------------------------------------------------------
# factoring via sympy (result re-checked by multiplying back in our own kernel)
# --------------------------------------------------------------------------------------
_factor_cache = {}


def _to_sympy(p):
    import sympy
    expr = 0
    for m, c in p.t.items():
        term = sympy.Integer(c)
        for v, e in m:
            term = term * sympy.Symbol(v) ** e
        expr += term
    return expr


def _from_sympy(expr):
    import sympy
    poly = sympy.Poly(expr, *sorted(expr.free_symbols, key=lambda s: s.name)) if expr.free_symbols else None
    if poly is None:
        return Poly.const(int(expr))
    gens = [g.name for g in poly.gens]
    d = {}
    for mon, c in poly.terms():
        m = tuple(sorted((g, e) for g, e in zip(gens, mon) if e))
        d[m] = int(c)
    for g in gens:
        _reg(g)
    return Poly(d)


def factor(p):
    """list of (irreducible primitive factor, multiplicity) and integer content; p = c * prod f^k."""
    if p in _factor_cache:
        return _factor_cache[p]
    c, prim = p.primitive()
    if prim.is_const():
        res = (c * prim.const_value() if prim.t else 0, [])
        _factor_cache[p] = res
        return res
    import sympy
    # cheap pre-split: monomial content
    vs = sorted(prim.vars())
    mono = []
    work = prim
    for v in vs:
        k = min((dict(m).get(v, 0) for m in work.t), default=0)
        if k:
            mono.append((Poly.var(v), k))
            work = Poly({tuple((vv, e - k if vv == v else e) for vv, e in m if not (vv == v and e == k)): cc
                         for m, cc in work.t.items()})
    facs = list(mono)
    if not work.is_const():
        cc, fl = sympy.factor_list(_to_sympy(work))
        c = c * int(cc)
        for f, k in fl:
            fp = _from_sympy(f)
            s, fp = fp.primitive()
            c = c * (s ** k)
            facs.append((fp, int(k)))
    else:
        c = c * work.const_value()
    # re-check in own kernel
    chk = Poly.const(c)
    for f, k in facs:
        chk = chk * f ** k
    assert chk == p, "factorisation re-check failed"
    res = (c, facs)
    _factor_cache[p] = res
    return res


# --------------------------------------------------------------------------------------
# rational functions (denominator is a unit by construction)
# --------------------------------------------------------------------------------------
class Rat:
    __slots__ = ("n", "d")

    def __init__(self, n, d=None):
        self.n = P(n)
        self.d = ONE if d is None else P(d)
        if not self.d.is_const():
            # cheap cancellation of common integer content / identical num & den
            if self.n.is_zero():
                self.d = ONE
        elif self.d.const_value() not in (1,):
            pass

    def __add__(self, o):
        o = R(o)
        if self.d == o.d:
            return Rat(self.n + o.n, self.d)
        return Rat(self.n * o.d + o.n * self.d, self.d * o.d)

    def __sub__(self, o):
        o = R(o)
        if self.d == o.d:
            return Rat(self.n - o.n, self.d)
        return Rat(self.n * o.d - o.n * self.d, self.d * o.d)

    def __neg__(self):
        return Rat(-self.n, self.d)

    def __mul__(self, o):
        o = R(o)
        return Rat(self.n * o.n, self.d * o.d)

    def __pow__(self, k):
        return Rat(self.n ** k, self.d ** k)

    def __repr__(self):
        return f"({self.n})" if self.d == ONE else f"({self.n})/({self.d})"


def R(x):
    if isinstance(x, Rat):
        return x
    return Rat(P(x))


# --------------------------------------------------------------------------------------
# hypothesis context
# --------------------------------------------------------------------------------------
class KernelTimeout(Exception):
    """the unit's wall-clock budget ran out inside a kernel computation (normal-form blow-up)"""


DEADLINE = None          # absolute time; set by the unit runner of this process
_tick = [0]


def _check_deadline():
    if DEADLINE is None:
        return
    _tick[0] += 1
    if _tick[0] % 64 == 0:
        import time as _t
        if _t.time() > DEADLINE:
            raise KernelTimeout()


class Infeasible(Exception):
    """the path condition is contradictory: the path is pruned (counted, no obligations)"""


class Rel:
    __slots__ = ("p", "v", "deg", "lc")

    def __init__(self, p, v):
        self.p = p
        self.v = v
        cs = p.coeffs(v)
        self.deg = len(cs) - 1
        self.lc = cs[-1]

    def __repr__(self):
        return f"Rel[{self.v}^{self.deg}]({self.p})"


class PCtx:
    """hypotheses about field-valued symbols.  All statements derived hold in every field in
    which the recorded integer constants (`char_excl`) are non-zero."""

    def __init__(self, chooser=None):
        self.subs = {}        # var -> (num Poly, den Poly)
        self.rels = []        # Rel
        self.raw = []         # relations we could not orient (completeness loss only)
        self.units = []       # irreducible primitive Polys known non-zero
        self.char_excl = set()  # primes p such that the reasoning assumed char != p
        self.hyps = []        # human-readable log
        self.chooser = chooser  # callable(n, descr) -> index, used for case splits
        self.incomplete = False
        self.prefer = {}      # var -> priority for being solved (higher first)
        self.char = None      # a known prime characteristic (e.g. the group order N for scalar arithmetic in Z/N)

    # ---- normal form -----------------------------------------------------------------
    def _apply_subs(self, p):
        if not self.subs:
            return p
        changed = True
        guard = 0
        while changed:
            changed = False
            guard += 1
            assert guard < 100
            _check_deadline()
            vs = p.vars()
            for v in vs:
                if v in self.subs:
                    n, d = self.subs[v]
                    p = p.subst_num(v, n, d)
                    changed = True
                    break
        return p

    def _reduce(self, p):
        if not self.rels:
            return p
        for _ in range(50):
            changed = False
            for r in self.rels:
                dv = p.degree(r.v)
                while dv >= r.deg and not p.is_zero():
                    _check_deadline()
                    cs = p.coeffs(r.v)
                    lead = cs[-1]
                    # p := lc*p - lead * v^(dv-deg) * r.p     (lc is a unit)
                    shift = Poly({((r.v, dv - r.deg),): 1}) if dv > r.deg else ONE
                    if r.lc.is_const() and r.lc.const_value() in (1, -1):
                        p = p - lead * shift * r.p * r.lc.const_value()
                    else:
                        p = p * r.lc - lead * shift * r.p
                    changed = True
                    dv = p.degree(r.v)
            if not changed:
                break
        return p

    def _mod_char(self, p):
        if self.char is None or not p.t:
            return p
        n = self.char
        d = {}
        for m, c in p.t.items():
            c %= n
            if c > n // 2:
                c -= n
            if c:
                d[m] = c
        return Poly(d)

    def nf(self, p):
        p = P(p)
        p = self._apply_subs(p)
        p = self._reduce(p)
        if self.subs:
            p = self._apply_subs(p)
        p = self._mod_char(p)
        c, prim = p.primitive()
        return prim if c else ZERO

    def nf_rat(self, r):
        r = R(r)
        return self.nf(r.n)

    # ---- units -----------------------------------------------------------------------
    def _note_const(self, c):
        c = abs(int(c))
        if c in (0, 1):
            return
        if self.char is not None:
            if c % self.char == 0:
                raise Infeasible("an integer constant that is 0 in the known characteristic was used as a unit")
            return
        n = c
        f = 2
        while f * f <= n and f < 10 ** 6:
            while n % f == 0:
                self.char_excl.add(f)
                n //= f
            f += 1
        if n > 1:
            self.char_excl.add(n)

    def is_unit_nf(self, p):
        """p is already in normal form; True iff every irreducible factor is a known unit"""
        if p.is_zero():
            return False
        c, facs = factor(p)
        for f, _ in facs:
            if f not in self.units and (-f) not in self.units:
                return False
        self._note_const(c)
        return True

    def nonunit_factors(self, p):
        c, facs = factor(p)
        self._note_const(c)
        return [f for f, _ in facs if f not in self.units and (-f) not in self.units]

    # ---- queries ---------------------------------------------------------------------
    def prove_zero(self, p):
        n = self.nf(p)
        if n.is_zero():
            return True
        # an unoriented hypothesis (kept raw) proves itself and its unit multiples
        for f in self.raw:
            fn_ = self.nf(f)
            if n == fn_ or n == -fn_:
                return True
        # R3: implied zero through a unit multiplier
        for u in self.units:
            if u.nterms() * n.nterms() > 20000:
                continue
            if self.nf(n * u).is_zero():
                return True
        # factor-wise: a product is zero if one factor is provably zero
        if n.nterms() < 2000:
            c, facs = factor(n)
            if len(facs) > 1 or (facs and facs[0][1] > 1):
                raws = [self.nf(rw) for rw in self.raw]
                for f, _ in facs:
                    if any(f == rw or f == -rw for rw in raws):
                        return True
                    for u in [ONE] + self.units:
                        if self.nf(f * u).is_zero():
                            return True
        return False

    def prove_nonzero(self, p):
        n = self.nf(p)
        if n.is_zero():
            return False
        if n.is_const():
            self._note_const(n.const_value())
            return True
        if n.nterms() > 3000:
            return False
        return self.is_unit_nf(n)

    # ---- assumptions -----------------------------------------------------------------
    def assume_nonzero(self, p, why=""):
        n = self.nf(p)
        self.hyps.append(("ne", P(p), why))
        if n.is_zero():
            raise Infeasible(f"assumed non-zero but is zero: {why}")
        if n.is_const():
            self._note_const(n.const_value())
            return
        c, facs = factor(n)
        self._note_const(c)
        for f, _ in facs:
            if f not in self.units and (-f) not in self.units:
                self.units.append(f)
        # a new unit can turn an unoriented relation into an oriented one
        self._retry_raw()

    def assume_zero(self, p, why=""):
        self.hyps.append(("eq", P(p), why))
        self._assume_zero_nf(self.nf(p), why)

    def _assume_zero_nf(self, n, why):
        if n.is_zero():
            return
        if n.is_const():
            self._note_const(n.const_value())
            raise Infeasible(f"non-zero constant assumed zero: {why}")
        # fast path (no factoring): linear in a variable with coefficient +-1  =>  solve for it.
        # (a polynomial v*(+-1) + rest is irreducible in v, so nothing is lost by not factoring)
        if n.nterms() > 12:
            best = None
            for v in n.vars():
                if n.degree(v) == 1:
                    c0, c1 = n.coeffs(v)
                    if c1.is_const() and abs(c1.const_value()) == 1:
                        key = self._prio(v)
                        if best is None or key > best[0]:
                            best = (key, v, c0, c1)
            if best is not None:
                _, v, c0, c1 = best
                self._install_subst(v, -c0, c1)
                return
        nu = self.nonunit_factors(n)
        if not nu:
            raise Infeasible(f"unit assumed zero: {why}")
        if len(nu) == 1:
            self._add_relation(nu[0], why)
            return
        if self.chooser is None:
            self.raw.append(n)
            self.incomplete = True
            return
        k = self.chooser(len(nu), f"factor of {why or 'hypothesis'}")
        self._add_relation(nu[k], why + f"[factor {k}]")

    def _prio(self, v):
        return (self.prefer.get(v, 0), _VAR_ORDER.get(v, 0))

    def _add_relation(self, f, why):
        # R2: linear in a variable with unit coefficient -> solve
        cands = []
        for v in f.vars():
            if f.degree(v) == 1:
                c0, c1 = f.coeffs(v)
                if c1.is_const() or self.is_unit_nf(c1):
                    cands.append((self._prio(v), v, c0, c1))
        if cands:
            cands.sort(reverse=True)
            _, v, c0, c1 = cands[0]
            if c1.is_const():
                self._note_const(c1.const_value())
            self._install_subst(v, -c0, c1)
            return
        # oriented relation with unit leading coefficient
        best = None
        for v in f.vars():
            cs = f.coeffs(v)
            lc = cs[-1]
            if lc.is_const() or self.is_unit_nf(lc):
                key = (len(cs) - 1, -self._prio(v)[0], -self._prio(v)[1])
                if best is None or key < best[0]:
                    best = (key, v)
        if best is None:
            self.raw.append(f)
            self.incomplete = True
            return
        r = Rel(f, best[1])
        if r.lc.is_const():
            self._note_const(r.lc.const_value())
        self.rels.append(r)
        self._renormalise()

    def _install_subst(self, v, n, d):
        # substitute into the existing right-hand sides first
        for w, (wn, wd) in list(self.subs.items()):
            if v in wn.vars() or v in wd.vars():
                dn = max(wn.degree(v), wd.degree(v))
                wn2 = wn.subst_num(v, n, d) * d ** (dn - wn.degree(v))
                wd2 = wd.subst_num(v, n, d) * d ** (dn - wd.degree(v))
                self.subs[w] = (wn2, wd2)
        self.subs[v] = (n, d)
        self._renormalise()

    def _renormalise(self):
        """re-establish the invariants after a new substitution / relation (lazy
        re-triangularisation): units stay non-zero, relations are re-assumed."""
        units, self.units = self.units, []
        for u in units:
            n = self.nf(u)
            if n.is_zero():
                raise Infeasible("a unit became zero")
            if n.is_const():
                self._note_const(n.const_value())
                continue
            c, facs = factor(n)
            self._note_const(c)
            for f, _ in facs:
                if f not in self.units and (-f) not in self.units:
                    self.units.append(f)
        rels, self.rels = self.rels, []
        raw, self.raw = self.raw, []
        for r in rels:
            n = self._apply_subs(r.p)
            if n == r.p:
                self.rels.append(r)          # untouched by the new substitution
            else:
                self._assume_zero_nf(self.nf(n), "re-normalised relation")
        for f in raw:
            self._assume_zero_nf(self.nf(f), "re-tried relation")

    def _reduce_except(self, p, skip):
        return self._reduce(p)

    def _retry_raw(self):
        if not self.raw:
            return
        raw, self.raw = self.raw, []
        for f in raw:
            self._assume_zero_nf(self.nf(f), "re-tried relation")

    # ---- Schwartz-Zippel sampling over a 61-bit prime field ----------------------------
    Q61 = 2305843009213693951 - 0  # 2^61 - 1 (prime, = 3 mod 4)

    def sample(self, extra_vars=(), rng=None, tries=40):
        """random assignment over F_q (q = 2^61-1) satisfying all hypotheses, or None"""
        q = self.sample_modulus()
        if q is None:
            return None
        rng = rng or random.Random(0)
        allv = set(extra_vars)
        for v, (n, d) in self.subs.items():
            allv |= n.vars() | d.vars() | {v}
        for r in self.rels:
            allv |= r.p.vars()
        for u in self.units:
            allv |= u.vars()
        main = {r.v for r in self.rels}
        free = sorted(v for v in allv if v not in self.subs and v not in main)
        for _ in range(tries):
            env = {v: rng.randrange(1, q) for v in free}
            ok = True
            # relations in insertion order; main variables may depend on earlier ones
            pending = list(self.rels)
            progress = True
            while pending and progress and ok:
                progress = False
                for r in list(pending):
                    others = r.p.vars() - {r.v}
                    if any(o not in env for o in others):
                        continue
                    cs = [c.eval_mod(env, q) for c in r.p.coeffs(r.v)]
                    x = _solve_univariate(cs, q, rng)
                    if x is None:
                        ok = False
                        break
                    env[r.v] = x
                    pending.remove(r)
                    progress = True
            if not ok or pending:
                continue
            # solved variables
            todo = dict(self.subs)
            guard = 0
            while todo and guard < 1000:
                guard += 1
                for v, (n, d) in list(todo.items()):
                    if all(w in env for w in (n.vars() | d.vars())):
                        dv = d.eval_mod(env, q)
                        if dv == 0:
                            ok = False
                            todo.clear()
                            break
                        env[v] = n.eval_mod(env, q) * pow(dv, q - 2, q) % q
                        del todo[v]
            if not ok or todo:
                continue
            if any(u.eval_mod(env, q) == 0 for u in self.units if u.vars() <= set(env)):
                continue
            if any(f.eval_mod(env, q) != 0 for f in self.raw if f.vars() <= set(env)):
                continue
            return env
        return None

    def sample_modulus(self):
        """the prime field in which counter-examples are sampled: the known characteristic when there is one
        (only if it is 3 mod 4, which the quadratic solver needs), otherwise the 61-bit Mersenne prime"""
        if self.char is None:
            return self.Q61
        return self.char if self.char % 4 == 3 else None

    def refute_zero(self, p, rng=None, n=6):
        """look for an assignment satisfying the hypotheses where p != 0.
        returns ('witness', env) / ('no-witness', samples_tried) / ('no-sample', 0)"""
        p = P(p)
        tried = 0
        rng = rng or random.Random(1)
        for _ in range(n):
            env = self.sample(extra_vars=p.vars(), rng=rng)
            if env is None:
                continue
            tried += 1
            if p.eval_mod(env, self.sample_modulus()) != 0:
                return "witness", env
        return ("no-witness", tried) if tried else ("no-sample", 0)

    def refute_nonzero(self, p, rng=None, n=6):
        p = P(p)
        tried = 0
        rng = rng or random.Random(2)
        for _ in range(n):
            env = self.sample(extra_vars=p.vars(), rng=rng)
            if env is None:
                continue
            tried += 1
            if p.eval_mod(env, self.sample_modulus()) == 0:
                return "witness", env
        return ("no-witness", tried) if tried else ("no-sample", 0)

    def describe(self):
        out = []
        for k, p, why in self.hyps:
            out.append(f"{'==' if k == 'eq' else '!='} 0 : {p}   [{why}]")
        return out


def _solve_univariate(cs, q, rng):
    """a root in F_q of sum cs[i] x^i (degree 1 or 2 only), or None"""
    while cs and cs[-1] % q == 0:
        cs = cs[:-1]
    if len(cs) <= 1:
        return None
    if len(cs) == 2:
        return (-cs[0]) * pow(cs[1], q - 2, q) % q
    if len(cs) == 3:
        a, b, c = cs[2], cs[1], cs[0]
        disc = (b * b - 4 * a * c) % q
        if disc == 0:
            s = 0
        else:
            if pow(disc, (q - 1) // 2, q) != 1:
                return None
            s = pow(disc, (q + 1) // 4, q)     # q = 3 mod 4
            if rng.random() < 0.5:
                s = q - s
        return (-b + s) * pow(2 * a % q, q - 2, q) % q
    if len(cs) == 4:
        # try random roots by brute search is hopeless; use gcd(x^q - x, f) via pow in F_q[x]/(f)
        return _cubic_root(cs, q, rng)
    return None


def _polmulmod(a, b, f, q):
    # a,b: coefficient lists (low->high) of degree < deg f ; f monic
    n = len(f) - 1
    res = [0] * (2 * n - 1)
    for i, x in enumerate(a):
        if x:
            for j, y in enumerate(b):
                res[i + j] = (res[i + j] + x * y) % q
    for k in range(len(res) - 1, n - 1, -1):
        c = res[k]
        if c:
            for j in range(n + 1):
                res[k - n + j] = (res[k - n + j] - c * f[j]) % q
    return res[:n]


def _cubic_root(cs, q, rng):
    inv = pow(cs[3], q - 2, q)
    f = [c * inv % q for c in cs]      # monic cubic
    # g = x^q mod f
    res = [1, 0, 0]
    base = [0, 1, 0]
    e = q
    while e:
        if e & 1:
            res = _polmulmod(res, base, f, q)
        base = _polmulmod(base, base, f, q)
        e >>= 1
    g = [(res[0]) % q, (res[1] - 1) % q, res[2] % q]   # x^q - x mod f
    # gcd(f, g)
    a, b = f[:], g[:]
    def trim(p):
        while p and p[-1] % q == 0:
            p = p[:-1]
        return p
    a, b = trim(a), trim(b)
    while b:
        # a mod b
        ib = pow(b[-1], q - 2, q)
        a = a[:]
        while len(a) >= len(b) and a:
            c = a[-1] * ib % q
            sh = len(a) - len(b)
            for j in range(len(b)):
                a[sh + j] = (a[sh + j] - c * b[j]) % q
            a = trim(a)
        a, b = b, a
    a = trim(a)
    if len(a) == 2:
        return (-a[0]) * pow(a[1], q - 2, q) % q
    if len(a) == 3:
        return _solve_univariate(a, q, rng)
    if len(a) == 4:
        # three roots: split randomly via gcd((x+r)^((q-1)/2) - 1, f); keep it simple: trial
        for _ in range(64):
            r = rng.randrange(q)
            res = [1, 0, 0]
            base = [r, 1, 0]
            e = (q - 1) // 2
            while e:
                if e & 1:
                    res = _polmulmod(res, base, f, q)
                base = _polmulmod(base, base, f, q)
                e >>= 1
            g = [(res[0] - 1) % q, res[1], res[2]]
            x, y = f[:], trim(g)
            while y:
                iy = pow(y[-1], q - 2, q)
                x = x[:]
                while len(x) >= len(y) and x:
                    c = x[-1] * iy % q
                    sh = len(x) - len(y)
                    for j in range(len(y)):
                        x[sh + j] = (x[sh + j] - c * y[j]) % q
                    x = trim(x)
                x, y = y, x
            x = trim(x)
            if len(x) == 2:
                return (-x[0]) * pow(x[1], q - 2, q) % q
            if len(x) == 3:
                s = _solve_univariate(x, q, rng)
                if s is not None:
                    return s
    return None
