"""Frame / effect analysis for C20 (DESIGN §8 C20): one obligation per function of the package:
`modifies nothing` — every heap write has an owned receiver — plus determinism and
module-constant obligations per module.  Pure AST pass over the working tree."""
from __future__ import annotations

import ast
import os

MUTATORS = {"append", "extend", "pop", "insert", "remove", "clear", "sort", "reverse", "update", "add", "discard",
            "setdefault", "popitem", "__setitem__", "__delitem__", "__iadd__", "appendleft", "popleft", "extendleft"}
OWNING_CALLS = {"list", "bytearray", "dict", "set", "sorted", "tuple", "bytes", "frozenset", "reversed", "enumerate", "zip",
                "range", "map", "filter", "int", "str", "bool"}
NONDET_MODULES = {"random", "secrets", "time", "datetime", "uuid", "os", "threading", "multiprocessing", "socket", "tempfile"}
NONDET_CALLS = {"id", "hash", "input", "open", "vars", "locals", "globals", "setattr", "delattr", "exec", "eval", "__import__"}
IMMUTABLE_ANN = {"int", "bool", "str", "float", "None"}


def is_owning_expr(e, owned_names):
    """does evaluating e allocate a fresh object that nobody else references?"""
    if isinstance(e, (ast.List, ast.Dict, ast.Set, ast.ListComp, ast.DictComp, ast.SetComp, ast.Tuple, ast.Constant,
                      ast.JoinedStr, ast.GeneratorExp)):
        return True
    if isinstance(e, ast.Call):
        f = e.func
        if isinstance(f, ast.Name) and f.id in OWNING_CALLS:
            return True
        if isinstance(f, ast.Name) and f.id == "cast" and len(e.args) == 2:
            return is_owning_expr(e.args[1], owned_names)
        return False
    if isinstance(e, ast.BinOp):
        # list + list, list * n, bytes + bytes ... build new objects; int arithmetic yields ints
        return True
    if isinstance(e, ast.Subscript) and isinstance(e.slice, ast.Slice):
        return True          # slicing copies (list, tuple, bytes, bytearray)
    if isinstance(e, ast.IfExp):
        return is_owning_expr(e.body, owned_names) and is_owning_expr(e.orelse, owned_names)
    if isinstance(e, ast.Name):
        return e.id in owned_names
    if isinstance(e, (ast.UnaryOp, ast.Compare, ast.BoolOp)):
        return True
    return False


class FuncReport:
    def __init__(self, qualname, lineno):
        self.qualname, self.lineno = qualname, lineno
        self.writes = []         # (lineno, description, ok, why)
        self.problems = []


def ann_name(a):
    if a is None:
        return None
    if isinstance(a, ast.Name):
        return a.id
    if isinstance(a, ast.Constant) and isinstance(a.value, str):
        return a.value
    if isinstance(a, ast.Attribute):
        return a.attr
    return ast.unparse(a)


def analyse_function(fn, qualname, in_class, allowed_exceptions):
    rep = FuncReport(qualname, fn.lineno)
    params = {}
    allargs = fn.args.posonlyargs + fn.args.args + fn.args.kwonlyargs
    if fn.args.vararg:
        allargs = allargs + [fn.args.vararg]
    if fn.args.kwarg:
        allargs = allargs + [fn.args.kwarg]
    for a in allargs:
        params[a.arg] = ann_name(a.annotation)
    decos = [ast.unparse(d) for d in fn.decorator_list]
    self_name = None
    if in_class and fn.args.args and not any("staticmethod" in d for d in decos):
        self_name = fn.args.args[0].arg
    is_init = fn.name == "__init__"

    # bindings of local names (flow-insensitive): name -> list of value expressions (None = unknown source)
    binds = {}

    def bind(target, value):
        if isinstance(target, ast.Name):
            binds.setdefault(target.id, []).append(value)
        elif isinstance(target, (ast.Tuple, ast.List)):
            if isinstance(value, (ast.Tuple, ast.List)) and len(value.elts) == len(target.elts):
                for t, v in zip(target.elts, value.elts):
                    bind(t, v)
            else:
                for t in target.elts:
                    bind(t, None)
        elif isinstance(target, ast.Starred):
            bind(target.value, None)

    body_nodes = []

    def walk(n):
        for ch in ast.iter_child_nodes(n):
            if isinstance(ch, (ast.FunctionDef, ast.AsyncFunctionDef, ast.ClassDef, ast.Lambda)):
                continue        # nested definitions are analysed on their own
            body_nodes.append(ch)
            walk(ch)
    walk(fn)
    for n in body_nodes:
        if isinstance(n, ast.Assign):
            for t in n.targets:
                bind(t, n.value)
        elif isinstance(n, ast.AnnAssign) and n.value is not None:
            bind(n.target, n.value)
        elif isinstance(n, (ast.For, ast.AsyncFor)):
            bind(n.target, None)
        elif isinstance(n, ast.comprehension):
            bind(n.target, None)
        elif isinstance(n, ast.With):
            for it in n.items:
                if it.optional_vars is not None:
                    bind(it.optional_vars, None)
        elif isinstance(n, ast.NamedExpr):
            bind(n.target, n.value)
        elif isinstance(n, ast.ExceptHandler) and n.name:
            binds.setdefault(n.name, []).append(None)

    # must-own names: every binding is an owning expression (fixpoint), not a parameter
    owned = set()
    changed = True
    while changed:
        changed = False
        for name, vals in binds.items():
            if name in owned or name in params:
                continue
            if all(v is not None and is_owning_expr(v, owned) for v in vals):
                owned.add(name)
                changed = True

    # names that may hold a builtin mutable container (for augmented assignment to a plain name)
    def may_be_container(name):
        if name in params:
            return params[name] not in IMMUTABLE_ANN
        vals = binds.get(name, [])
        for v in vals:
            if v is None:
                return True
            if isinstance(v, (ast.List, ast.Dict, ast.Set, ast.ListComp, ast.DictComp, ast.SetComp)):
                return True
            if isinstance(v, ast.Call) and isinstance(v.func, ast.Name) and v.func.id in ("list", "bytearray", "dict", "set"):
                return True
            if isinstance(v, ast.BinOp) and isinstance(v.op, ast.Mult) and isinstance(v.left, ast.List):
                return True
            if isinstance(v, ast.Call) and isinstance(v.func, ast.Name) and v.func.id == "cast" and len(v.args) == 2 and \
                    isinstance(v.args[1], ast.Call) and isinstance(v.args[1].func, ast.Name) and v.args[1].func.id == "list":
                return True
        return False

    def receiver_ok(e):
        """is the object denoted by e owned by this activation?"""
        if isinstance(e, ast.Name):
            if e.id in owned:
                return True, "local owned object"
            if e.id in params:
                return False, f"parameter `{e.id}` (caller's object)"
            if e.id in binds:
                return False, f"local `{e.id}` may alias a parameter, global or attribute"
            return False, f"global `{e.id}` (module state)"
        if isinstance(e, ast.Attribute):
            if is_init and isinstance(e.value, ast.Name) and e.value.id == self_name:
                return False, f"attribute `{ast.unparse(e)}` of the object under construction may alias an argument"
            return False, f"attribute `{ast.unparse(e)}`"
        if isinstance(e, ast.Subscript):
            return receiver_ok(e.value)
        if isinstance(e, ast.Call):
            ok = is_owning_expr(e, owned)
            return ok, "fresh object" if ok else f"result of `{ast.unparse(e)[:40]}`"
        return False, ast.unparse(e)[:40]

    def record(node, desc, ok, why):
        rep.writes.append((node.lineno, desc, ok, why))
        if not ok:
            rep.problems.append(f"line {node.lineno}: {desc}: receiver is {why}")

    for n in body_nodes:
        if isinstance(n, (ast.Global, ast.Nonlocal)):
            rep.problems.append(f"line {n.lineno}: `{type(n).__name__.lower()} {', '.join(n.names)}` statement")
        elif isinstance(n, (ast.Assign, ast.AnnAssign, ast.AugAssign)):
            targets = n.targets if isinstance(n, ast.Assign) else [n.target]
            flat = []
            for t in targets:
                if isinstance(t, (ast.Tuple, ast.List)):
                    flat.extend(t.elts)
                else:
                    flat.append(t)
            for t in flat:
                if isinstance(t, ast.Attribute):
                    if is_init and isinstance(t.value, ast.Name) and t.value.id == self_name:
                        rep.writes.append((n.lineno, f"self.{t.attr} = ...", True, "object under construction"))
                    else:
                        record(n, f"attribute store `{ast.unparse(t)}`", False, f"attribute of `{ast.unparse(t.value)[:40]}`")
                elif isinstance(t, ast.Subscript):
                    ok, why = receiver_ok(t.value)
                    record(n, f"item store `{ast.unparse(t)[:50]}`", ok, why)
                elif isinstance(t, ast.Name) and isinstance(n, ast.AugAssign):
                    if may_be_container(t.id):
                        if t.id in owned:
                            rep.writes.append((n.lineno, f"`{t.id} {type(n.op).__name__}= ...`", True, "local owned object"))
                        else:
                            ok, why = receiver_ok(t)
                            record(n, f"augmented assignment `{ast.unparse(n)[:50]}` may update a container in place", ok, why)
        elif isinstance(n, ast.Delete):
            for t in n.targets:
                if isinstance(t, (ast.Subscript, ast.Attribute)):
                    ok, why = receiver_ok(t.value)
                    record(n, f"del `{ast.unparse(t)[:40]}`", ok, why)
        elif isinstance(n, ast.Call):
            f = n.func
            if isinstance(f, ast.Attribute) and f.attr in MUTATORS:
                ok, why = receiver_ok(f.value)
                record(n, f"call `{ast.unparse(f)[:50]}(...)`", ok, why)
            elif isinstance(f, ast.Name) and f.id in NONDET_CALLS:
                key = f"{qualname}:{f.id}"
                if key not in allowed_exceptions:
                    rep.problems.append(f"line {n.lineno}: call of `{f.id}` (state / non-determinism)")
            if isinstance(f, ast.Attribute) and isinstance(f.value, ast.Name) and f.value.id in NONDET_MODULES:
                rep.problems.append(f"line {n.lineno}: call into `{f.value.id}`")
        elif isinstance(n, (ast.For, ast.comprehension)):
            it = n.iter
            if isinstance(it, (ast.Set, ast.SetComp)) or (isinstance(it, ast.Call) and isinstance(it.func, ast.Name)
                                                          and it.func.id in ("set", "frozenset")):
                rep.problems.append(f"line {getattr(n, 'lineno', fn.lineno)}: iteration over a set (hash order)")
        elif isinstance(n, (ast.Import, ast.ImportFrom)):
            rep.problems.append(f"line {n.lineno}: import inside a function")
    # cached_property: the memo is written into the receiver's instance dict — allowed only when the value is a
    # function of fields that are never written after __init__ (checked by the caller over the whole class)
    rep.cached_property = any(d.split("(")[0].split(".")[-1] in ("cached_property", "lru_cache", "cache") for d in decos)
    rep.decorators = decos
    return rep


def analyse_module(path, modname, allowed_exceptions):
    src = open(path).read()
    tree = ast.parse(src, path)
    funcs = []
    mod_problems = []
    bound = {}

    def visit(body, prefix, in_class):
        for st in body:
            if isinstance(st, (ast.FunctionDef, ast.AsyncFunctionDef)):
                q = f"{prefix}.{st.name}"
                funcs.append(analyse_function(st, q, in_class, allowed_exceptions))
                visit(st.body, q + ".<locals>", False)
            elif isinstance(st, ast.ClassDef):
                visit(st.body, f"{prefix}.{st.name}", True)
            elif isinstance(st, (ast.If, ast.Try, ast.With, ast.For, ast.While)):
                for blk in ("body", "orelse", "finalbody"):
                    visit(getattr(st, blk, []) or [], prefix, in_class)
                for h in getattr(st, "handlers", []) or []:
                    visit(h.body, prefix, in_class)
    visit(tree.body, modname, False)

    # module level: names bound once; no mutation of module objects at import time; no nondeterministic imports
    for st in tree.body:
        if isinstance(st, (ast.Import, ast.ImportFrom)):
            names = [a.name.split(".")[0] for a in st.names] if isinstance(st, ast.Import) else [(st.module or "").split(".")[0]]
            for nm in names:
                if nm in NONDET_MODULES and f"{modname}:import:{nm}" not in allowed_exceptions:
                    mod_problems.append(f"line {st.lineno}: import of `{nm}` (source of non-determinism / ambient state)")
        elif isinstance(st, (ast.Assign, ast.AnnAssign, ast.AugAssign)):
            targets = st.targets if isinstance(st, ast.Assign) else [st.target]
            for t in targets:
                for nm in ([t] if not isinstance(t, (ast.Tuple, ast.List)) else t.elts):
                    if isinstance(nm, ast.Name):
                        if isinstance(st, ast.AnnAssign) and st.value is None:
                            continue
                        bound.setdefault(nm.id, []).append(st.lineno)
                    elif isinstance(nm, (ast.Attribute, ast.Subscript)):
                        mod_problems.append(f"line {st.lineno}: module-level store into `{ast.unparse(nm)[:40]}`")
        elif isinstance(st, ast.Expr) and isinstance(st.value, ast.Call):
            f = st.value.func
            if isinstance(f, ast.Attribute) and f.attr in MUTATORS:
                mod_problems.append(f"line {st.lineno}: module-level mutation `{ast.unparse(f)[:40]}(...)`")
    for nm, lines in bound.items():
        if len(lines) > 1:
            mod_problems.append(f"module constant `{nm}` is bound {len(lines)} times (lines {lines})")
    # mutable module-level containers that some function writes are reported at the function (receiver is a global)
    return funcs, mod_problems, tree


def package_files(repo, pkg="py_ecc"):
    out = []
    root = os.path.join(repo, pkg)
    for dp, dn, fn in os.walk(root):
        dn[:] = sorted(d for d in dn if d != "__pycache__")
        for f in sorted(fn):
            if f.endswith(".py"):
                p = os.path.join(dp, f)
                rel = os.path.relpath(p, repo)[:-3].replace(os.sep, ".")
                if rel.endswith(".__init__"):
                    rel = rel[: -len(".__init__")]
                out.append((p, rel))
    return out
