"""which verification units decide which property, and the per-property metadata that goes
into the evidence (level, trusted base, assumptions)."""
from __future__ import annotations

import importlib

CONTRACT_MODULES = ["contracts.curves"]

_COMMON_TRUST = [
    "CPython semantics as modelled in DESIGN.md section 3 (mathematical ints, bytes as octet sequences, static name resolution, no monkey-patching)",
    "the verifier itself: pyvc symbolic executor + polyid kernel + z3 4.x/5.x (soundness guarded by the seeded-mutant self-test and the CPython differential cross-check)",
]

PROPS = {
    "C13": dict(level="proof", trusted=_COMMON_TRUST + [
        "field characteristic not in {2,3}: the only side condition polyid records; closed check on the real primes"],
        assumptions=[]),
}

_cache = None
_costs = {}


def load_all():
    global _cache
    if _cache is None:
        _cache = {}
        for m in CONTRACT_MODULES:
            mod = importlib.import_module(m)
            _cache[m] = mod.UNITS
            for n, u in mod.UNITS.items():
                _costs[(m, n)] = getattr(u, "cost", 1)
    return _cache


def units_by_property():
    out = {}
    for m, units in load_all().items():
        for n, u in units.items():
            for p in u.props:
                out.setdefault(p, []).append((m, n))
    return out


def unit_cost(m, n):
    load_all()
    return _costs.get((m, n), 1)
