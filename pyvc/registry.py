"""which verification units decide which property, and the per-property metadata that goes
into the evidence (level, trusted base, assumptions)."""
from __future__ import annotations

import importlib

CONTRACT_MODULES = ["contracts.curves", "contracts.groups", "contracts.closed", "contracts.fields", "contracts.ints", "contracts.purity", "contracts.hashing", "contracts.codec", "contracts.ecdsa", "contracts.bls", "contracts.h2c", "contracts.pairing"]

_COMMON_TRUST = [
    "CPython semantics as modelled in DESIGN.md section 3 (mathematical ints, bytes as octet sequences, static name resolution, no monkey-patching)",
    "the verifier itself: pyvc symbolic executor + polyid kernel + z3 4.x/5.x (soundness guarded by the seeded-mutant self-test and the CPython differential cross-check)",
]

FIX_COMMITS = ["5333cc7", "18f94c5", "fece718", "e286108"]

PROPS = {
    "C13": dict(level="proof", trusted=_COMMON_TRUST + [
        "field characteristic not in {2,3}: the only side condition polyid records; closed check on the real primes"],
        assumptions=[],
        text="Every control path of add/double/neg/eq/is_on_curve/is_inf/normalize (both optimized curve modules), of the optimized line functions and of secp256k1's Jacobian add/double/conversions is symbolically executed from the real source and its result is proved, as polynomial identities valid in every field of characteristic > 3 and for every representative, to be a valid representative of exactly what the affine chord-and-tangent law (resp. the affine line function) gives. Proof is the right level: the property is a finite list of universally quantified identities.",
        note="Trusted: the verifier (pyvc + polyid kernel, sympy factorisation re-checked by expansion), CPython semantics of DESIGN section 3, characteristic not in {2,3}. secp256k1: 'no curve point with y = 0' is a closed fact (eval).",
        design_ref="DESIGN.md section 8 C13"),
    "C18": dict(level="proof", trusted=_COMMON_TRUST, assumptions=[
        "P prime: Pocklington certificate verified on every run (closed fact primes.certificates)"],
        text="Jacobian add/double/to_jacobian/from_jacobian are proved against the affine law on every path (polyid); jacobian_multiply is proved by induction to return (n mod N).P for every integer n, with termination measure and halving depth bound; add, multiply, privtopub are proved as compositions over those contracts (z3, module normal form); constants are compared with the SEC 2 literals and G on curve, N.G = O by independent integer arithmetic (eval).",
        note="P prime by certificate; group axioms of the spec law are Lean-checked (lean/GroupLaw.lean) when ./check --setup has run, otherwise listed as assumed. secp256k1.inv is used through its contract (proved in the ints layer when built, else assumed).",
        design_ref="DESIGN.md section 8 C18"),
    "C07": dict(level="proof", trusted=_COMMON_TRUST, assumptions=[
        "primality by certificate: Pocklington certificates (certs/primes.json, verified on every run by the closed fact primes.certificates) for secp256k1 P and N, alt_bn128 p and r, BLS12-381 p and r and the 448-bit prime factor of the twist cofactor h2",
        "field classes implement field arithmetic (proved separately: C08)"],
        text="add/double/neg/eq/is_on_curve/is_inf of the two reference modules (affine, None = infinity) and of the two optimized modules (projective) are proved on every path to compute the affine group law for every field of characteristic > 3 (so for base curve, twist and E(F_p^12) at once); multiply in all four modules is proved by induction to be the n-fold sum for every n >= 0; the abelian-group axioms of the spec law are the Lean lemma L-GROUP; generators, coefficients, moduli, orders are compared with pinned standard literals and their family derivations (eval).",
        note="Primality of the standard moduli/orders by certificate and the field classes are fields (C08). The twist clauses: image on E(F_p^12) for every twist point (units *.twist), optimized = reference (units twist.agree.*), embedding/injectivity by the closed fact twist.embedding + Lean scaling lemmas.",
        design_ref="DESIGN.md section 8 C07"),
    "C08": dict(level="proof", trusted=_COMMON_TRUST + [
        "ModInt reading: integers in the field classes are interpreted through the ring homomorphism Z -> Z/p with a tracked 'reduced' flag (DESIGN section 4 L1)"],
        assumptions=["class invariant: field_modulus is prime (for user instantiations); for the real curves: primality by certificate: Pocklington certificates (certs/primes.json, verified on every run by the closed fact primes.certificates) for secp256k1 P and N, alt_bn128 p and r, BLS12-381 p and r and the 448-bit prime factor of the twist cofactor h2",
                     "class invariant (precondition on user instantiations): the modulus polynomial is irreducible and its integer coefficients are 0 or not multiples of p; for the eight real extension classes irreducibility is the closed fact fields.modulus-irreducible (Rabin's test on the coefficients and prime read from the classes, every run)",
                     "FQP.inv: the quotient computed by (optimized_)poly_rounded_div enters only through its contract (length, degree, leading coefficient); the exit fact 'low != 0 unless self = 0' is the Lean lemma Euclid.lean:inv_exit_ne_zero applied to the proved invariants",
                     "FQ.__eq__/__lt__ with an int operand compare the canonical representative with the integer as given (recorded reading, DESIGN section 8 C08)"],
        text="Every operator of FQ and FQP/FQ2/FQ12 in both files is executed symbolically from the real source with a SYMBOLIC prime and SYMBOLIC modulus coefficients (d = 2 and d = 12) and proved to return a valid (reduced) object of type(self) whose abstract value is the ring operation on the abstract values, with TypeError exactly for rejected operand kinds; multiplication's reduction loop is proved by a loop invariant per iteration under the relation M(W) = 0, ** by a loop invariant over an abstract commutative ring for every n >= 0, FQP.inv (the extended Euclid with truncated products) by a loop contract — invariants lm*A = low, hm*A = high modulo M, lm*high - hm*low = +-M exactly, degree bounds that make the truncation exact, a termination measure — instantiated for every degree pair (d = 2 and d = 12, both files; FQ2.inv additionally by complete path enumeration), prime_field_inv by a z3 loop invariant with congruence witnesses. Field axioms then follow from the ring being Z/p resp. (Z/p)[W]/(M) (Lean L-ZMOD).",
        note="FQ12.inv is proved by the loop contract (the former bounded monitor is kept as an extra run-time cross-check under bounded_standins). Primality/irreducibility are class invariants: preconditions for user instantiations, certificates (primes.certificates) and Rabin's test (fields.modulus-irreducible) for the real classes. Comparison operators with int operands follow the recorded reading.",
        design_ref="DESIGN.md section 8 C08"),
    "C14": dict(level="proof", trusted=_COMMON_TRUST, assumptions=[
        "as C08 (same units): primality and irreducibility are preconditions for user instantiations; certified / tested (Rabin) for the real classes",
        "operand kinds accepted by only one of the two files (reference FQP * FQ) are outside 'the same expression evaluated in both'"],
        text="Reference and optimized classes are verified against the same abstract contract by the same unit code (C08); the simulation lemma (R-preservation, canonical representatives equal) then gives equal values for every expression tree; sgn0 of the optimized classes is proved equal to the RFC 9380 section 4.1 definition for all elements (z3).",
        note="Same assumptions as C08.",
        design_ref="DESIGN.md section 8 C14"),
    "C20": dict(level="proof", trusted=["CPython semantics (DESIGN section 3): static name resolution, no monkey-patching, no __setattr__/__getattr__ hooks",
                                        "C-implemented callees (hashlib, hmac, int/bytes/list builtins) have their documented effects",
                                        "the effect analysis pyvc.purity (flow-insensitive must-own analysis over the AST of every function in /repo/py_ecc)"],
        assumptions=["allowed exception 1: functools.cached_property on the three sgn0 methods writes its memo into the receiver's instance dict; the memoised value depends only on n / coeffs, which nothing writes after __init__",
                     "allowed exception 2: py_ecc._import_module memoises importlib.import_module in the package namespace (idempotent through sys.modules)"],
        text="A frame obligation `modifies nothing` is generated for every function and method of the package (not only the anchored ones): every heap-writing statement or mutating method call must have a receiver allocated in the same activation (must-own analysis), writes to self only in __init__, no global/nonlocal, no module-level mutation, no non-deterministic imports or hash-order iteration, module constants bound once. By induction over call histories all results are functions of argument values and constants. This is a proof by static effect analysis; it is the right level because the property quantifies over all call histories.",
        note="Trusted: the effect analysis and the purity of C-implemented callees; two stated exceptions (cached_property memo, lazy sub-module import).",
        design_ref="DESIGN.md section 8 C20",
        technique="contract-based frame verification: `modifies nothing` obligation per function discharged by a static ownership/effect analysis of the real AST; violations replayed by a history/mutation monitor on the real code"),
    "C15": dict(level="proof", trusted=_COMMON_TRUST + ["hashlib objects are functions of their input with fixed digest_size/block_size (uninterpreted H: the proof holds for every hash)"],
        assumptions=["digest_size <= 257 (so that the RFC's third abort condition L > 65535 is implied by ell > 255); true of every fixed-output hashlib function",
                     "math.ceil(a / b) on ints is exact ceiling division (operands < 2^53; DESIGN section 3.7)"],
        text="expand_message_xmd is executed symbolically for an arbitrary message, tag, length and an UNINTERPRETED hash with symbolic digest and block sizes; its loop is proved against the RFC 9380 5.3.1 recurrence by an inductive invariant (z3 sequences), the result has exactly the requested length, and it raises exactly when the tag is longer than 255 bytes or more than 255 blocks are needed. hash_to_field_FQ/FQ2 are proved for a symbolic count: element i, coordinate j is OS2IP of the 64-byte window at 64(j + i m) reduced mod p, windows inside the expanded bytes.",
        note="Any exception type counts as 'refuses' (property text). Hash determinism is assumed (A-HASH).",
        design_ref="DESIGN.md section 8 C15"),
    "C16": dict(level="proof", trusted=_COMMON_TRUST + ["HMAC-SHA256 / SHA-256 as uninterpreted functions with 32-byte outputs"],
        assumptions=["A-HASH: KeyGen's rejection loop terminates (partial correctness is proved)"],
        text="hkdf_extract and hkdf_expand are proved equal to RFC 5869 for all salts, IKMs, infos and every length 0..8160 (loop invariant okm = T(1)|..|T(i), z3 sequences over an uninterpreted HMAC); KeyGen is proved, by a loop invariant with a ghost round counter, to return the first non-zero candidate of the BLS draft v4 procedure (salt hashed before each attempt, IKM || 0x00, info || I2OSP(48,2), 48 bytes mod r), hence in [1, r-1] and a function of its inputs.",
        note="Termination of KeyGen is a statement about hash outputs and is assumed.",
        design_ref="DESIGN.md section 8 C16"),
    "C11": dict(level="proof", trusted=_COMMON_TRUST + ["contracts of optimized_curve.is_inf / normalize / is_on_curve (proved generically under C13) are used at their call sites"],
        assumptions=["q (BLS12-381 field prime) prime: Pocklington certificate verified on every run (primes.certificates)", "L-SQRT34 and sq_eq_sq_cases (Lean) for G1 round-trip completeness",
                     "modular_squareroot_in_FQ2(Y^2) = +-Y is proved from the source (unit codec.sqrt_FQ2) from two lemma instances — (Y^2)^((q^2-1)/8) is a fourth root of unity (Lean Roots.lean check_is_fourth_root) and the exponent identity 2*((q^2+7)/16) = 1 + (q^2-1)/8 (closed fact) — and the table facts of codec.eighth-roots; F_q2 = F_q[u]/(u^2+1) being a field is the class invariant of C08",
                     "closed facts (eval): no point of E or E' has y = 0, no point of E' has x = 0"],
        text="For EVERY 384-bit word (pair of words) decompress_G1/G2 are proved to either raise ValueError or return a reduced on-curve point with z = 1 whose compression is exactly the input (soundness + canonicity, without trusting the square-root routines: their results are havocked and the code's own a-posteriori checks carry the proof), and to refuse exactly the malformed words; compress_G1/G2 are proved to produce the ZCash layout (flags in bits 383/382/381, sign = larger y, imaginary part first); round-trip completeness is proved from the square-root lemmas; the byte helpers give 48/96-byte big-endian strings.",
        note="Known finding D2 (x = 0 on G1) is excluded from the completeness obligation and re-executed concretely on every run. G2 completeness uses the contract of modular_squareroot_in_FQ2 proved by unit codec.sqrt_FQ2.",
        design_ref="DESIGN.md section 8 C11"),
    "C19": dict(level="proof", trusted=_COMMON_TRUST + ["contracts of jacobian_multiply / jacobian_add / from_jacobian / inv (proved under C18) are used at their call sites"],
        assumptions=["P and N prime: Pocklington certificates verified on every run (primes.certificates)", "A-ORDER(secp256k1): #E = N (forced by Hasse's theorem + N prime + N.G = O: closed facts), so every point has order dividing N",
                     "L-SQRT34 (Lean Fields.lean): only for 'raises ONLY when r^3+7 is a non-residue'"],
        text="ecdsa_raw_recover is executed symbolically for every hash, v, 0 <= r < P, s >= 0: it raises ValueError only for v outside {27,28}, r or s = 0 mod N, or a non-residue r^3+7; otherwise the lifted point has reduced on-curve coordinates with the parity v-27 (the precedence of `v % 2 ^ beta % 2` is taken from the AST), the preconditions of the Jacobian routines hold at the call sites, and the result Q satisfies (r mod N).Q = s.R - z.G, proved in module normal form with coefficients in the field Z/N (polyid). Uniqueness and 'the signature verifies for Q' are the Lean lemmas of lean/Ecdsa.lean.",
        note="Integers modulo P are handled by z3 (with explicit congruence witnesses), scalars by polyid in Z/N.",
        design_ref="DESIGN.md section 8 C19"),
    "C06": dict(level="proof", trusted=_COMMON_TRUST, assumptions=[
        "good(k) (A-HASH): k mod N != 0, x_R < N, r != 0, s != 0: hash-output facts that the code does not establish (no retry loop); density of the failure set ~2^-127",
        "observation O1 (not a finding under the adopted reading): the nonce uses the hash octets as given; strict RFC 6979 bits2octets differs when OS2IP(msghash) >= N",
        "P, N prime by certificate; A-ORDER(secp256k1) as C19"],
        text="deterministic_generate_k is proved equal to the RFC 6979 section 3.2 first candidate over an uninterpreted HMAC; ecdsa_raw_sign is proved to return r = x(k.G), s = +-k^-1(z + r d) mod N with 1 <= s <= N/2, v in {27,28} and v - 27 = parity(y_R) xor [s flipped]; the property-level lemma (polyid in Z/N) then gives: recover returns d.G, the other v gives another key, and the verification equation holds.",
        note="All of this is under the ghost precondition good(k), listed as an assumption.",
        design_ref="DESIGN.md section 8 C06"),
    "C04": dict(level="proof", trusted=_COMMON_TRUST, assumptions=["A-PAIRING: the optimized ate pairing is bilinear and non-degenerate on G2 x G1 (assumed theorem; what is proved is that the suites call it only on valid subgroup points and how its values are combined)",
                     "contract of hash_to_G2: a function of (message, tag) landing in the prime-order subgroup (C10; point counts forced by Hasse + computed facts, C17)",
                     "codec contracts (C11) and subgroup_check exactness (C17) are used at the call sites",
                     "r prime: Pocklington certificate verified on every run (primes.certificates)"],
        text="KeyValidate, Verify, AggregateVerify (three suites), FastAggregateVerify and PopVerify are executed symbolically from the real source for ARBITRARY byte strings of ANY length and key/message lists of ANY length (loop invariants over the list index): every path ends in a boolean (no exception escapes: each raise is inside a try whose handler tuple contains its class, and every callee's raises clause is covered), True implies every key is the canonical 48-byte encoding of a non-identity subgroup point and the signature the canonical 96-byte encoding of a subgroup point, and at each of the five pairing call sites both arguments are proved valid and in the prime-order subgroup.",
        note="Over the contracts of the decoders (C11), subgroup_check (C17), hash_to_G2 (C10). The pairing itself is not executed here.",
        design_ref="DESIGN.md section 8 C04"),
    "C02": dict(level="proof", trusted=_COMMON_TRUST, assumptions=["A-PAIRING: the optimized ate pairing is bilinear and non-degenerate on G2 x G1 (assumed theorem; what is proved is that the suites call it only on valid subgroup points and how its values are combined)",
                     "contract of hash_to_G2: a function of (message, tag) landing in the prime-order subgroup (C10; point counts forced by Hasse + computed facts, C17)",
                     "codec contracts (C11) and subgroup_check exactness (C17) are used at the call sites",
                     "r prime: Pocklington certificate verified on every run (primes.certificates)"] + ["A-HASH for the cross-tag clause: H(m, DST1) != H(m, DST2) is a random-oracle fact; proved instead: each suite uses its own pinned tag and message encoding on both sides, and the four tags are pairwise different"],
        text="Verify/PopVerify are proved to return True iff key and signature are canonical subgroup encodings and dl(S) = dl(H(m', tag)) dl(P) mod r for this suite's (m', tag); Sign/PopProve/SkToPk are proved to output enc(sk . H(m', tag)) resp. enc(sk . G1); the property-level lemma (z3, L-CYCLIC from Lean) then gives Verify(SkToPk(sk), m, c) <=> c == Sign(sk, m) byte for byte.",
        note="Relative to A-PAIRING; exponent arithmetic is done by polyid in the field Z/r.",
        design_ref="DESIGN.md section 8 C02"),
    "C01": dict(level="proof", trusted=_COMMON_TRUST, assumptions=["A-PAIRING: the optimized ate pairing is bilinear and non-degenerate on G2 x G1 (assumed theorem; what is proved is that the suites call it only on valid subgroup points and how its values are combined)",
                     "contract of hash_to_G2: a function of (message, tag) landing in the prime-order subgroup (C10; point counts forced by Hasse + computed facts, C17)",
                     "codec contracts (C11) and subgroup_check exactness (C17) are used at the call sites",
                     "r prime: Pocklington certificate verified on every run (primes.certificates)"] + ["A-HASH: KeyGen's rejection loop terminates"],
        text="The => direction of the C02 lemma (honest signatures and possession proofs verify, all three suites); SkToPk/Sign/PopProve raise ValidationError exactly for non-integers and integers outside [1, r-1]; KeyGen returns a key in [1, r-1] (loop invariant, C16).",
        note="bool is a subclass of int (SkToPk(True) is sk = 1); 'non-integer' is read as 'not an instance of int'.",
        design_ref="DESIGN.md section 8 C01"),
    "C03": dict(level="proof", trusted=_COMMON_TRUST, assumptions=["A-PAIRING: the optimized ate pairing is bilinear and non-degenerate on G2 x G1 (assumed theorem; what is proved is that the suites call it only on valid subgroup points and how its values are combined)",
                     "contract of hash_to_G2: a function of (message, tag) landing in the prime-order subgroup (C10; point counts forced by Hasse + computed facts, C17)",
                     "codec contracts (C11) and subgroup_check exactness (C17) are used at the call sites",
                     "r prime: Pocklington certificate verified on every run (primes.certificates)"],
        text="Aggregate is proved (loop invariant over a list of symbolic length) to return the compressed fold of (+) over the decoded signatures and to raise exactly for an empty list or an entry that is not a 96-byte decodable string; the three AggregateVerify front ends and FastAggregateVerify are proved to return True iff the suite preconditions hold (>= 1 signer, as many keys as messages, every key valid, distinct messages in the basic suite) and dl(S) = sum_i dl(H(m'_i)) dl(P_i) mod r (pairing-product accumulator invariant, polyid in Z/r).",
        note="Known finding K1 (aggregate public key = identity in FastAggregateVerify) is excluded and re-executed concretely on every run.",
        design_ref="DESIGN.md section 8 C03"),
    "C09": dict(level="proof", trusted=_COMMON_TRUST, assumptions=["the spec functions enc1/enc2 are the ZCash encodings of C11; hash_to_G2 is the RFC 9380 suite of C10",
                     "the draft texts are not available offline: the four tags are pinned literals in the contract; SkToPk(1) = compressed generator 97f1d3a7...c6bb is the anchor for G1 (eval)"],
        text="SkToPk, Sign (three suites, with the key prefix in the augmentation suite), PopProve and Aggregate are proved to output exactly enc1(sk.G1), enc2(sk.H(m', tag)), enc2(sk.H(PK, POP tag)) and enc2(sum) with sha256 as XMD hash; the tag literals equal the draft-v4 strings pinned in the contract.",
        note="Definitional proof over the contracts of the encoders and hash_to_G2.",
        design_ref="DESIGN.md section 8 C09"),
    "C10": dict(level="proof", trusted=_COMMON_TRUST, assumptions=[
        "square-root helpers: sqrt_division_FQ / sqrt_division_FQ2 are proved from the source (units swu.sqrt_division_FQ.complete, swu.sqrt_division_FQ2.complete) to decide squareness exactly and to return r with r^2 v = u, resp. r^2 v = -u / r^2 v = u chk with chk^4 = -1; the number-theoretic inputs are Lean-checked (Euler's criterion, exponent bookkeeping) and the table facts T1-T3 are computed on the real constants (closed fact swu.G2.root-tables); the 'SWU failure' raise is then proved unreachable by executing the eta loop of the real code",
        "Hasse's theorem (via C17; r and the 448-bit factor of h2 are prime by certificate: cofactor clearing lands in the prime-order subgroup; point counts and the structure of the G1 cofactor part are computed facts)",
        "the RFC text is not available offline: A', B', Z, the isogeny tables and h_eff are pinned literals, tied to the RFC by the closed facts 'the isogeny maps E' into E' (polynomial identity, eval), 'g(B/(ZA)) is a square', 'Z non-square' and by the RFC vectors in tests/bls"],
        text="optimized_swu_G1/G2 are executed symbolically on every path (exceptional / regular x square / non-square x sign flip, and for G2 every candidate of the eta loop) over an abstract field with SYMBOLIC A', B', Z and eta table: the result is a finite point of E' whose x is the RFC's x1 resp. x2 = Z u^2 x1, with (y/z)^2 = g(x/z) and sgn0(y/z) = sgn0(u), and the 'SWU failure' raise is unreachable; the isogeny maps are proved to evaluate x_num/x_den, y*y_num/y_den for symbolic tables (Horner loops); map_to_curve and hash_to_G1/G2 are proved to be the RFC composition clear_cofactor(map(u0) + map(u1)) over hash_to_field (C15); sgn0 is proved against RFC 9380 4.1 (C14 unit).",
        note="Square-root completeness is proved from the source (units swu.sqrt_division_*.complete) with Lean-checked number theory and computed table facts; Hasse's theorem is the imported mathematics.",
        design_ref="DESIGN.md section 8 C10"),
    "C05": dict(level="proof", trusted=_COMMON_TRUST, assumptions=["A-PAIRING: e_T(Q,P) = MillerSpec_T(Q,P)^((p^12-1)/r) is bilinear and non-degenerate on G2 x G1 for the pinned T of each curve and independent of the (binary vs signed-digit) addition chain — ASSUMED (Miller 2004, Vercauteren 2010); no contract within reach can prove it (needs divisor theory not in Mathlib). Bounded stand-in: run-time monitor pairing_bilinearity on the real code (listed under bounded_standins, never counted in discharged)",
                     "r prime (certificate), L-CYCLIC: m.Q != O for 0 < m < r (linefunc preconditions inside the Miller loop)",
                     "curve-level contracts of linefunc / double / add / neg / twist (C13, C07) are used at the call sites"],
        text="For all four modules: pairing() is proved to raise exactly when an argument is not on its curve and to return the unit when either argument is infinity (any representative), otherwise miller_loop on the twisted / cast points; each Miller loop is executed along its digit string and proved, as an identity in the line-function symbols, to compute the textbook Miller recurrence MillerSpec_T for the pinned loop parameter (incl. the two Frobenius lines of the BN optimal ate pairing) raised to (p^12-1)/r; line-function preconditions hold at every call; pairing(G2,G1) has order exactly r (eval on the real code). Bilinearity and non-degeneracy themselves are the assumed theorem A-PAIRING about MillerSpec; what is proved is that the code computes the textbook object for every input.",
        note="Decided relative to A-PAIRING; the monitor is a bounded stand-in, reported separately.",
        design_ref="DESIGN.md section 8 C05"),
    "C12": dict(level="proof", trusted=_COMMON_TRUST, assumptions=["A-PAIRING: e_T(Q,P) = MillerSpec_T(Q,P)^((p^12-1)/r) is bilinear and non-degenerate on G2 x G1 for the pinned T of each curve and independent of the (binary vs signed-digit) addition chain — ASSUMED (Miller 2004, Vercauteren 2010); no contract within reach can prove it (needs divisor theory not in Mathlib). Bounded stand-in: run-time monitor pairing_bilinearity on the real code (listed under bounded_standins, never counted in discharged)",
                     "r prime (certificate), L-CYCLIC: m.Q != O for 0 < m < r (linefunc preconditions inside the Miller loop)",
                     "curve-level contracts of linefunc / double / add / neg / twist (C13, C07) are used at the call sites"] + ["C12(b): equality of the optimized (signed-digit) and reference (binary) bn128 pairings AFTER final exponentiation is chain-independence, part of A-PAIRING: assumed + bounded monitor (coefficient-wise comparison)"],
        text="bls12-381: optimized and reference Miller loops are both proved equal to the same MillerSpec (same binary digit string), hence equal Miller values and pairing values; final_exponentiate of the optimized bls12-381 module is proved to raise to exactly (p^12-1)/r for every element incl. 0 (exponent bookkeeping over the exp_by_p contract, closed integer identity), the other three by definition; exp_by_p is proved linear over its table, the table entries are (w^i)^p (eval), x^p follows by L-FROB (Lean); final_exponentiate of a product is the product (L-POW, Lean).",
        note="bn128 optimized-vs-reference equality rests on A-PAIRING (bounded monitor).",
        design_ref="DESIGN.md section 8 C12"),
    "C17": dict(level="proof", trusted=_COMMON_TRUST, assumptions=[
        "Hasse's theorem (|#E(F_q) - q - 1| <= 2 sqrt q; classical, not in Mathlib): with it #E(F_p) = h1 r and #E'(F_p2) = h2 r are FORCED by computed facts on the real code (bls.hasse-G1: r | #E and one multiple of r in the interval; bls.order-twist: a point of E'(F_p2) of order divisible by c r > 4p + 2, c the 448-bit prime factor of h2)",
        "r and the 448-bit factor c of h2 prime: Pocklington certificates (certs/primes.json) verified on every run inside the closed facts primes.certificates and bls.order-twist"],
        text="subgroup_check is proved (over the contracts of multiply and is_inf) to return True exactly when r.abs(P) = O for the pinned r, for any representative; cofactor clearing is proved to be multiplication by the pinned RFC 9380 effective cofactors; the cofactor constants are derived from the curve parameter x by eval. That r.(kG+T) = O iff T = O for cofactor-torsion T is Lean lemma subgroup_check_exact with gcd(h, r) = 1 by eval.",
        note="'Maps every curve point into the subgroup': the point counts are forced by Hasse's theorem plus computed facts; the structure of the G1 cofactor part (exponent |1 - x|, RFC 9380 section 8.8.1) is the computed fact bls.struct-G1 (two independent points of order l for each prime l | x - 1); Lean Cofactor.lean then gives r.(h_eff.P) = O.",
        design_ref="DESIGN.md section 8 C17"),
}

_cache = None
_costs = {}


def load_all():
    global _cache
    if _cache is None:
        _cache = {}
        for m in CONTRACT_MODULES:
            mod = importlib.import_module(m)
            _cache[m] = mod.UNITS
            for n, u in mod.UNITS.items():
                _costs[(m, n)] = getattr(u, "cost", 1)
    return _cache


_SHARED_HELPERS = ("py_ecc.utils.", "py_ecc.bls.hash.i2osp", "py_ecc.bls.hash.os2ip")
NO_CLOSURE = {"C20"}          # one whole-package unit already


def units_by_property(closure=True):
    """units tagged with the property, plus (closure) the units of every function reachable from their functions in the
    static call graph of the tree being checked: a change inside a callee is only visible to the callee's own contract,
    so that contract is part of every property that depends on the callee"""
    import os
    out = {}
    allu = load_all()
    for m, units in allu.items():
        for n, u in units.items():
            for p in u.props:
                out.setdefault(p, []).append((m, n))
    if not closure or os.environ.get("VERIF_NO_CLOSURE") == "1":
        return out
    from .callgraph import graph
    try:
        g = graph(os.environ.get("PY_ECC_REPO", "/repo"))
    except Exception:
        return out
    global _dependency_units
    _dependency_units = {}
    for p, lst in out.items():
        if p in NO_CLOSURE:
            continue
        seeds = set()
        for m, n in lst:
            seeds.update(f.split("[")[0] for f in allu[m][n].functions)
        reach = g.reachable(seeds)
        have = set(lst)
        extra = []
        for m, units in allu.items():
            for n, u in units.items():
                if (m, n) in have or u.kind in ("closed", "bounded", "lemma") or not u.functions:
                    continue
                # shared helpers (py_ecc.utils.*) listed by a unit do not make it a dependency: its own functions do
                own = [f for f in u.functions if not f.startswith(_SHARED_HELPERS)] or list(u.functions)
                if any(f.split("[")[0] in reach for f in own):
                    extra.append((m, n))
        _dependency_units[p] = extra
        lst.extend(extra)
    return out


_dependency_units = {}


def dependency_units(pid):
    return list(_dependency_units.get(pid, []))


def unit_cost(m, n):
    load_all()
    return _costs.get((m, n), 1)


# ------------------------------------------------------------------------------------------------------------------
# property-level composition lemmas: a clause of the property that follows from postconditions of SEVERAL functions.
# Each lemma names the obligations (by fnmatch pattern) it composes and the reason; report.py records it as one more
# obligation, discharged exactly when every obligation it names is present and proved in the same run (back end `compose`).
# ------------------------------------------------------------------------------------------------------------------
_SWU = "py_ecc.optimized_bls12_381.optimized_swu"
_H2C = "py_ecc.bls.hash_to_curve"
_OC = "py_ecc.optimized_bls12_381.optimized_curve"
_CC = "py_ecc.optimized_bls12_381.optimized_clear_cofactor"
_CURVES4 = ("py_ecc.bn128.bn128_curve", "py_ecc.optimized_bn128.optimized_curve", "py_ecc.bls12_381.bls12_381_curve",
            "py_ecc.optimized_bls12_381.optimized_curve")
LEMMAS = {
    "C07": [
        dict(name="abelian-group.four-modules",
             text="in each of the four curve modules add / double / neg compute the affine chord-and-tangent law on abstract values "
                  "(ensures.abs, ensures.valid), eq / is_inf / is_on_curve decide equality, identity and membership exactly, multiply "
                  "is the n-fold sum; the affine law is an abelian group (Lean GroupLaw.lean: it IS Mathlib's Weierstrass group law) and "
                  "n.P a Z-action (Cyclic.lean): hence associativity, commutativity, identity, inverses, double(P) = P + P, "
                  "multiply(P, n) = n.P = multiply(P, n mod r) for points of order r, and agreement of the optimized with the "
                  "reference modules (same abstract values)",
             requires=[f"{m}.{f}/ensures.{c}" for m in _CURVES4 for f, c in (("add", "abs"), ("add", "valid"), ("double", "abs"),
                                                                                  ("neg", "abs"), ("eq", "iff"), ("is_inf", "iff"),
                                                                                  ("is_on_curve", "iff"), ("multiply", "abs"))]),
    ],
    "C17": [
        dict(name="clear_cofactor.lands-in-subgroup",
             text="clear_cofactor_G1/G2(P) = h_eff . P (unit postconditions); #E(F_p) = h1 r, the cofactor part of E(F_p) has exponent "
                  "|x - 1| = |h_eff(G1)|, #E'(F_p2) = h2 r and h_eff(G2) = k h2 (computed facts); hence r . clear_cofactor(P) = O for every "
                  "curve point (Lean Cofactor.lean), and subgroup_check(clear_cofactor(P)) is True by the subgroup_check postcondition",
             requires=[f"{_CC}.multiply_clear_cofactor_G1/ensures.abs", f"{_CC}.multiply_clear_cofactor_G2/ensures.abs",
                       "py_ecc.bls.g2_primitives.subgroup_check/ensures.iff", f"{_OC}.multiply/ensures.abs",
                       "consts.bls-cofactors/bls.hasse-G1", "consts.bls-cofactors/bls.struct-G1", "consts.bls-cofactors/bls.order-twist",
                       "consts.bls-cofactors/h2c.cofactor-kills-twist-cofactor", "consts.bls-cofactors/bls.cofactors"]),
    ],
    "C10": [
        dict(name="hash_to_G2.lands-in-subgroup",
             text="hash_to_G2(msg) = clear_cofactor(iso(swu(u0)) + iso(swu(u1))): swu gives points of E'' (on-curve, z != 0), the pinned "
                  "isogeny maps E'' into the twist E', add stays on E', clear_cofactor multiplies by h_eff = k h2, and (h2 r).X = O for "
                  "every X of E'(F_p2) (point count), hence r.(result) = O  (Lean Cofactor.lean clear_cofactor_multiple)",
             requires=[f"{_H2C}.hash_to_G2/ensures.composition", f"{_H2C}.map_to_curve_G2/ensures.composition",
                       f"{_SWU}.optimized_swu_G2/ensures.on-curve", f"{_SWU}.optimized_swu_G2/ensures.den",
                       f"{_SWU}.iso_map_G2/ensures.x", f"{_SWU}.iso_map_G2/ensures.y", f"{_SWU}.iso_map_G2/ensures.den",
                       "h2c.closed/swu.isogeny-G2-maps-Eprime-into-E", f"{_OC}.add/ensures.valid", f"{_OC}.add/ensures.abs",
                       f"{_CC}.multiply_clear_cofactor_G2/ensures.abs", f"{_OC}.multiply/ensures.abs",
                       "consts.bls-cofactors/bls.order-twist", "consts.bls-cofactors/h2c.cofactor-kills-twist-cofactor",
                       "consts.bls-cofactors/bls.cofactors"]),
        dict(name="hash_to_G1.lands-in-subgroup",
             text="the same composition for G1: clear_cofactor multiplies by h_eff = 1 - x, the cofactor part of E(F_p) has exponent |x - 1| "
                  "(computed fact bls.struct-G1) and #E(F_p) = h1 r (bls.hasse-G1), hence r.(result) = O  (Lean Cofactor.lean "
                  "clear_cofactor_exponent)",
             requires=[f"{_H2C}.hash_to_G1/ensures.composition", f"{_H2C}.map_to_curve_G1/ensures.composition",
                       f"{_SWU}.optimized_swu_G1/ensures.on-curve", f"{_SWU}.optimized_swu_G1/ensures.den",
                       f"{_SWU}.iso_map_G1/ensures.x", f"{_SWU}.iso_map_G1/ensures.y", f"{_SWU}.iso_map_G1/ensures.den",
                       "h2c.closed/swu.isogeny-G1-maps-Eprime-into-E", f"{_OC}.add/ensures.valid", f"{_OC}.add/ensures.abs",
                       f"{_CC}.multiply_clear_cofactor_G1/ensures.abs", f"{_OC}.multiply/ensures.abs",
                       "consts.bls-cofactors/bls.hasse-G1", "consts.bls-cofactors/bls.struct-G1", "consts.bls-cofactors/bls.cofactors"]),
    ],
}

