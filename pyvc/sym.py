"""z3-backed symbolic integers, booleans and byte strings with Python semantics (DESIGN §3).

`//` and `%` are purified into fresh quotient/remainder witnesses (cached per operand pair so
that `n // 2` and `n % 2` talk about the same witnesses); congruences therefore stay linear.
"""
from __future__ import annotations

import z3

from .core import cur, ZAtom, Unsupported

IntSort = z3.IntSort()
BV8 = z3.BitVecSort(8)
BytesSort = z3.SeqSort(BV8)


def zt(x):
    """z3 int term of an int / SInt / bool / ZAtom"""
    if isinstance(x, SInt):
        return x.t
    if isinstance(x, bool):
        return z3.IntVal(int(x))
    if isinstance(x, int):
        return z3.IntVal(x)
    if isinstance(x, ZAtom):
        return z3.If(x.t, z3.IntVal(1), z3.IntVal(0))
    raise Unsupported(f"integer expected, got {type(x).__name__}")


def is_intlike(x):
    return isinstance(x, (int, SInt)) and not isinstance(x, float)


class SInt:
    __slots__ = ("t",)

    def __init__(self, t):
        self.t = z3.simplify(t) if not z3.is_const(t) else t

    @staticmethod
    def var(name):
        return SInt(z3.Int(name))

    def _c(self, o):
        return isinstance(o, (int, SInt, ZAtom)) and not isinstance(o, float)

    def __add__(self, o):
        return SInt(self.t + zt(o)) if self._c(o) else NotImplemented

    def __radd__(self, o):
        return SInt(zt(o) + self.t) if self._c(o) else NotImplemented

    def __sub__(self, o):
        return SInt(self.t - zt(o)) if self._c(o) else NotImplemented

    def __rsub__(self, o):
        return SInt(zt(o) - self.t) if self._c(o) else NotImplemented

    def __mul__(self, o):
        return SInt(self.t * zt(o)) if self._c(o) else NotImplemented

    def __rmul__(self, o):
        return SInt(zt(o) * self.t) if self._c(o) else NotImplemented

    def __neg__(self):
        return SInt(-self.t)

    def __pos__(self):
        return self

    def __pow__(self, k, m=None):
        if m is not None:
            return spowmod(self, k, m)
        if isinstance(k, int) and not isinstance(k, bool) and 0 <= k <= 16:
            r = z3.IntVal(1)
            for _ in range(k):
                r = r * self.t
            return SInt(r)
        raise Unsupported("symbolic ** with non-small exponent")

    def __rpow__(self, b):
        raise Unsupported("symbolic exponent")

    def __floordiv__(self, o):
        return sdivmod(self, o)[0] if self._c(o) else NotImplemented

    def __rfloordiv__(self, o):
        return sdivmod(o, self)[0] if self._c(o) else NotImplemented

    def __mod__(self, o):
        return sdivmod(self, o)[1] if self._c(o) else NotImplemented

    def __rmod__(self, o):
        return sdivmod(o, self)[1] if self._c(o) else NotImplemented

    def __truediv__(self, o):
        if self._c(o):
            return Ratio(self, o)
        return NotImplemented

    def __rtruediv__(self, o):
        if self._c(o):
            return Ratio(o, self)
        return NotImplemented

    def __lshift__(self, k):
        if isinstance(k, int) and k >= 0:
            return SInt(self.t * (1 << k))
        raise Unsupported("symbolic shift amount")

    def __rshift__(self, k):
        if isinstance(k, int) and k >= 0:
            return sdivmod(self, 1 << k)[0]
        raise Unsupported("symbolic shift amount")

    def __and__(self, o):
        if isinstance(o, int) and o >= 0 and (o & (o + 1)) == 0:   # mask 2^k - 1
            nonneg(self, "operand of &")
            return sdivmod(self, o + 1)[1]
        if isinstance(o, int) and o >= 0:
            # a constant mask is a sum of runs of ones: bits lo .. lo+w-1 of x are ((x >> lo) mod 2^w)  (floor semantics agree
            # with Python's two's-complement view of negative ints)
            nonneg(self, "operand of &")
            total, lo, m = None, 0, o
            while m:
                if m & 1:
                    w = 0
                    while (m >> w) & 1:
                        w += 1
                    part = sdivmod(sdivmod(self, 1 << lo)[0] if lo else self, 1 << w)[1]
                    part = part << lo if lo else part
                    total = part if total is None else total + part
                    m >>= w
                    lo += w
                else:
                    m >>= 1
                    lo += 1
            return total if total is not None else SInt(z3.IntVal(0))
        raise Unsupported("& with a symbolic operand other than a non-negative constant mask")

    __rand__ = __and__

    def __xor__(self, o):
        return sxor(self, o)

    def __rxor__(self, o):
        return sxor(o, self)

    def __eq__(self, o):
        if o is None:
            return False
        return ZAtom(self.t == zt(o)) if self._c(o) else NotImplemented

    def __ne__(self, o):
        if o is None:
            return True
        return ZAtom(self.t != zt(o)) if self._c(o) else NotImplemented

    def __lt__(self, o):
        return ZAtom(self.t < zt(o)) if self._c(o) else NotImplemented

    def __le__(self, o):
        return ZAtom(self.t <= zt(o)) if self._c(o) else NotImplemented

    def __gt__(self, o):
        return ZAtom(self.t > zt(o)) if self._c(o) else NotImplemented

    def __ge__(self, o):
        return ZAtom(self.t >= zt(o)) if self._c(o) else NotImplemented

    def __bool__(self):
        return cur().case(ZAtom(self.t != 0))

    def __int__(self):
        raise Unsupported("int() of symbolic integer at host level")

    def __index__(self):
        raise Unsupported("symbolic integer used as an index")

    __hash__ = None

    def __repr__(self):
        return f"SInt({self.t})"


class Ratio:
    """a / b on integers: kept exact; only math.ceil / math.floor / comparison consume it"""
    __slots__ = ("a", "b")

    def __init__(self, a, b):
        self.a, self.b = a, b


def nonneg(x, what):
    p = cur()
    from .core import z3_check
    if isinstance(x, int):
        if x < 0:
            raise Unsupported(f"negative {what}")
        return
    from .core import light
    ctxt, tl = light(p.zc, x.t < 0)
    r, _ = z3_check(ctxt, tl, 3000)
    if r != z3.unsat:
        raise Unsupported(f"cannot show {what} is non-negative")


def implied(path, t, timeout=3000):
    from .core import z3_check, light
    ctxt, tl = light(path.zc, t)
    r, _ = z3_check(ctxt, z3.Not(tl), timeout)
    return r == z3.unsat


def sdivmod(a, b):
    """floor division and modulus with a provably positive divisor, purified"""
    p = cur()
    if isinstance(a, int) and isinstance(b, int):
        return a // b, a % b
    at, bt = zt(a), zt(b)
    if isinstance(b, int):
        if b == 0:
            raise Unsupported("division by literal zero")
        if b < 0:
            raise Unsupported("negative literal divisor")
    else:
        if not implied(p, bt > 0):
            raise Unsupported(f"cannot show divisor {bt} is positive")
    key = ("divmod", at.sexpr(), bt.sexpr())
    if key in p.ghost:
        return p.ghost[key]
    n = next(p.fresh_id)
    q, r = z3.Int(f"q!{n}"), z3.Int(f"r!{n}")
    p.zc.append(at == bt * q + r)
    p.zc.append(r >= 0)
    p.zc.append(r < bt)
    res = (SInt(q), SInt(r))
    p.ghost[key] = res
    # definition table: remainder / quotient witness -> (dividend, divisor)  (used by translators to other domains)
    p.ghost.setdefault("divmod-defs", {})[str(r)] = ("rem", at, bt)
    p.ghost["divmod-defs"][str(q)] = ("quo", at, bt)
    return res


def sxor(a, b):
    p = cur()
    at, bt = zt(a), zt(b)
    for t in (at, bt):
        if not implied(p, z3.Or(t == 0, t == 1)):
            raise Unsupported("^ on values not known to be 0/1")
    return SInt(z3.If(at == bt, z3.IntVal(0), z3.IntVal(1)))


_powmod = z3.Function("powmod", IntSort, IntSort, IntSort, IntSort)


def spowmod(a, e, m):
    """pow(a, e, m): uninterpreted, with the range fact for m > 0"""
    p = cur()
    if isinstance(a, int) and isinstance(e, int) and isinstance(m, int):
        return pow(a, e, m)
    if isinstance(e, int) and 0 <= e <= 3 and not isinstance(e, bool):
        # small constant exponent: pow(a, e, m) = (a * ... * a) % m exactly
        acc = 1
        for _ in range(e):
            acc = acc * a if not isinstance(acc, int) or acc != 1 else a
        return sdivmod(acc, m)[1]
    t = _powmod(zt(a), zt(e), zt(m))
    mt = zt(m)
    if not (isinstance(m, int) and m > 0) and not implied(p, mt > 0):
        raise Unsupported("pow(a, e, m) with m not provably positive")
    if not (isinstance(e, int) and e >= 0) and not implied(p, zt(e) >= 0):
        raise Unsupported("pow(a, e, m) with e not provably non-negative")
    p.zc.append(z3.And(t >= 0, t < mt))
    return SInt(t)


# ------------------------------------------------------------------------------------------
# bytes
# ------------------------------------------------------------------------------------------
def bytes_const(b):
    if len(b) == 0:
        return z3.Empty(BytesSort)
    units = [z3.Unit(z3.BitVecVal(x, 8)) for x in b]
    return units[0] if len(units) == 1 else z3.Concat(*units)


def bt(x):
    if isinstance(x, SBytes):
        return x.t
    if isinstance(x, (bytes, bytearray)):
        return bytes_const(bytes(x))
    raise Unsupported(f"bytes expected, got {type(x).__name__}")


class SBytes:
    """symbolic byte string (also models bytearray: the frame analysis of C20 shows no
    bytearray escapes while still being mutated)"""
    __slots__ = ("t",)

    def __init__(self, t):
        self.t = t

    @staticmethod
    def var(name):
        return SBytes(z3.Const(name, BytesSort))

    def __add__(self, o):
        if isinstance(o, (SBytes, bytes, bytearray)):
            return SBytes(z3.Concat(self.t, bt(o)))
        return NotImplemented

    def __radd__(self, o):
        if isinstance(o, (bytes, bytearray)):
            if len(o) == 0:
                return self
            return SBytes(z3.Concat(bt(o), self.t))
        return NotImplemented

    def length(self):
        return SInt(z3.Length(self.t))

    def __len__(self):
        raise Unsupported("host-level len() of symbolic bytes")

    def slice(self, lo, hi):
        """self[lo:hi] for 0 <= lo, hi (Python clamps to the length)"""
        L = z3.Length(self.t)
        lo_t = z3.IntVal(0) if lo is None else zt(lo)
        if hi is None:
            hi_t = L
        else:
            hi_t = zt(hi)
        p = cur()
        for t, w in ((lo_t, "lower"), (hi_t, "upper")):
            if not implied(p, t >= 0):
                raise Unsupported(f"slice with possibly negative {w} bound")
        # the common case: bounds provably inside the string -> no clamping terms
        if implied(p, z3.And(lo_t <= hi_t, hi_t <= L)):
            return SBytes(z3.SubSeq(self.t, z3.simplify(lo_t), z3.simplify(hi_t - lo_t)))
        lo_c = z3.If(lo_t > L, L, lo_t)
        hi_c = z3.If(hi_t > L, L, hi_t)
        n = z3.If(hi_c > lo_c, hi_c - lo_c, z3.IntVal(0))
        return SBytes(z3.SubSeq(self.t, lo_c, n))

    def __eq__(self, o):
        if isinstance(o, (SBytes, bytes, bytearray)):
            return ZAtom(self.t == bt(o))
        return False

    def __ne__(self, o):
        if isinstance(o, (SBytes, bytes, bytearray)):
            return ZAtom(self.t != bt(o))
        return True

    __hash__ = None

    def __repr__(self):
        return f"SBytes({self.t})"


# integer <-> bytes as uninterpreted functions with instantiated facts
_os2ip = z3.Function("os2ip", BytesSort, IntSort)
_i2osp = z3.Function("i2osp", IntSort, IntSort, BytesSort)
_pow256 = z3.Function("pow256", IntSort, IntSort)


def pow256_term(n):
    if isinstance(n, int):
        return z3.IntVal(256 ** n)
    return _pow256(zt(n))


def os2ip_sym(x):
    """int.from_bytes(x, 'big')"""
    if isinstance(x, (bytes, bytearray)):
        return int.from_bytes(bytes(x), "big")
    p = cur()
    t = _os2ip(x.t)
    L = z3.Length(x.t)
    Ls = z3.simplify(L)
    bound = z3.IntVal(256 ** Ls.as_long()) if z3.is_int_value(Ls) else _pow256(L)
    p.zc.append(z3.And(t >= 0, t < bound))
    return SInt(t)


def i2osp_sym(x, n):
    """x.to_bytes(n, 'big'); the caller has established 0 <= x < 256**n"""
    if isinstance(x, int) and isinstance(n, int):
        return x.to_bytes(n, "big")
    p = cur()
    t = _i2osp(zt(x), zt(n))
    p.zc.append(z3.Length(t) == zt(n))
    p.zc.append(_os2ip(t) == zt(x))
    return SBytes(t)
